#!/bin/bash
# runs every registered quick (or thorough) check on the current tree, one after another; prints one line each
tier=${1:-quick}
cd /verif
for p in $(python3 -c "import json;print(' '.join(c['property_id'] for c in json.load(open('MANIFEST.json'))['checks']))"); do
  s=$(date +%s); timeout 7200 ./check $p --tier $tier > /verif/out/check_$p.log 2>&1; rc=$?
  echo "$p rc=$rc $(( $(date +%s)-s ))s $(grep -c '^VIOLATION' /verif/out/check_$p.log) viol $(grep -c '^INCONCLUSIVE' /verif/out/check_$p.log) inc; $(grep '^property=' /verif/out/check_$p.log | tail -1 | cut -c1-160)"
done

#!/usr/bin/env python3
# Regenerates MANIFEST.json from the table below (kept in one place so it stays valid).
import json
claimed = {
 # id: (technique, level text, level note)
}
import sys
sys.path.insert(0,'/verif')
from manifest_table import CLAIMED, NOT_APPLICABLE
props=[json.loads(l)['id'] for l in open('/verif/properties.jsonl')]
checks=[]
for pid in props:
    if pid in CLAIMED:
        t=CLAIMED[pid]
        checks.append({
          "property_id": pid,
          "quick_cmd": f"./check {pid} --tier quick",
          "thorough_cmd": f"./check {pid} --tier thorough",
          "evidence_file": f"/verif/evidence/{pid}.json",
          "replay_cmd_template": f"./check {pid} --replay {{path}}",
          "engine": "voiverif",
          "level_claimed": {"category": t.get("category","model_checking"), "text": t["text"], "design_ref": t.get("design_ref","DESIGN.md section 5/"+pid)},
          "level_note": t["note"],
          "technique": t["technique"],
        })
na=[{"property_id":k,"reason":v} for k,v in NOT_APPLICABLE.items() if k not in CLAIMED]
m={
 "version":1,
 "setup_cmd":"cd /verif/engine && GOFLAGS=-mod=mod GOPROXY=off GOSUMDB=off GOTOOLCHAIN=local go build -o /verif/bin/voiverif .",
 "hooks":{"guard":"verif","enable":"harnesses, contracts and the verif vocabulary package are grafted at load time through go/packages Overlay (engine) and go test -overlay (native replay), all under //go:build verif; no hook is committed to /repo","baseline_off_cmd":"cd /repo && go test -mod=mod -vet=off -count=1 -timeout 25m ./...","source_commits":[],"add_only":True},
 "engines":[{"name":"voiverif","path":"/verif/engine","serves_properties":sorted(CLAIMED.keys()),"kind_free_text":"go/ssa symbolic executor (state merging, contracts, loop cuts) emitting SMT-LIB2 for z3 4.8.12 / z3 5.1.0 / cvc5 1.0.3; BV mode and Int mode with deferred reduction; native replay of counterexamples through go test -overlay"}],
 "checks":checks,
 "not_applicable":na,
 "notes":"Solver-based checking of the real code; see DESIGN.md. Exit codes: 0 held within bounds, 1 VIOLATION (replayed), 2 inconclusive/machinery error.",
}
json.dump(m,open('/verif/MANIFEST.json','w'),indent=1)
print("claimed",len(checks),"n/a",len(na))

#!/bin/bash
# usage: seedrun.sh <prop> <patch> [extra flags]: apply a seeded patch to /repo, run the quick check, undo
prop=$1; patch=$2; shift 2
cd /repo && git apply "$patch" || { echo "APPLY-FAILED $patch"; exit 9; }
cd /verif && timeout 1500 ./bin/voiverif -prop $prop -noevidence "$@" > /tmp/seedrun.out 2>&1; rc=$?
cd /repo && git checkout -- . && git clean -fdq
echo "rc=$rc $(grep -c '^VIOLATION' /tmp/seedrun.out) violations; $(grep '^VIOLATION' /tmp/seedrun.out | head -1 | cut -c1-220)"
grep '^prop' /tmp/seedrun.out | tail -1

_T = "symbolic execution of the real Go SSA (voiverif) + SMT (z3 4.8.12 / z3 5.1.0 / cvc5 1.0.3): "
_N = "trusted: solver verdicts; the voiverif SSA->SMT encoder (Int translation cross-checked against bit-vector semantics on sample points per obligation); go/ssa lowering; bounds and assumptions are listed in the evidence file (coverage.bounds, assumptions)"
CLAIMED = {
 "C03": {"technique": _T + "L1 polynomial identities of the point formulas against the affine Edwards law with limb-headroom obligations on both Go back ends; L2 scalar-multiplication algorithms over a free Z-module ghost with proved contracts",
         "text": "Within the stated bounds every projective representative / every 255-bit scalar / every digit is a solver variable; identities are discharged as integer-arithmetic queries (or closed by the exact polynomial normaliser feeding them). Covers Add/Sub/Neg/double/Niels forms/Equal, constant-time lookups, variable-base and fixed-base table multiplication; see DESIGN.md for what is not yet covered (Straus, Pippenger, double-base, vector back end).",
         "note": _N + "; completeness of the unified Edwards law (a=-1, d non-square) is trusted mathematics"},
 "C04": {"technique": _T + "Int mode with deferred reduction for the multiplication kernels, BV mode for masks/selects; contracts proved per back end (portable 64-bit, 32-bit) and reused",
         "text": "Every limb vector inside the stated headroom is a solver variable; each kernel's value congruence mod p, output bounds and frame condition are discharged; counterexamples are replayed natively.",
         "note": _N + "; amd64 assembly and AVX2 lanes are outside this claim until the asm front end lands"},
 "C05": {"technique": _T + "Int mode for Montgomery arithmetic on both back ends, BV mode for byte predicates; API-level composition by proved contracts",
         "text": "All 2^256 strings for the canonicity predicates and all 256-bit operands for Add/Sub/Neg/Mul/Reduce/wide reduction; results are shown canonical and congruent mod L.",
         "note": _N + "; inversion chains not yet covered"},
 "C10": {"technique": _T + "BV equivalence for IsCanonicalVartime over all 2^256 strings; Int-mode decode obligations over the abstract field layer; case-split input lengths 0..65 for the unmarshallers",
         "text": "Canonicity predicate decided for every string; SetCompressedY accept/reject, curve relation, sign and receiver behaviour for every string on both Go back ends; wrong-length handling for every length in the window.",
         "note": _N + "; Euler's criterion (SqrtRatioI completeness) is trusted; Montgomery conversions and subgroup predicates not yet covered"},
 "C11": {"technique": _T + "Int-mode structural equivalence of SetCompressed with an RFC 9496 decode model sharing the SQRT_RATIO_M1 symbol; case-split lengths for unmarshalling",
         "text": "Accept/reject decision and resulting coordinates equal the RFC's for every 32-byte string on both Go back ends; wrong-length inputs are errors for every length 0..65.",
         "note": _N + "; encode, Equal coset-invariance and the one-way map are not yet covered"},
 "C17": {"technique": _T + "Int mode with telescoping carries for Bits/ToRadix16/ToRadix2w (all 2^255 scalars); loop cut with an inductive invariant (one symbolic iteration of the real loop) for NonAdjacentForm, case-split on window position and width",
         "text": "Value reconstruction and digit ranges for every 255-bit scalar; NAF value and shape invariants preserved by one iteration from an arbitrary state, entry and exit conditions discharged.",
         "note": _N + "; quick tier samples window positions (word seams, top), thorough covers every position"},
 "C20": {"technique": _T + "constants obtained by symbolically executing the real package initialisers per back end, each pinned to a solver variable; defining relations mod p are closed integer queries; doubling witnesses proposed by the real code and verified by the affine law",
         "text": "Curve/field constants, base point, eight torsion points by value, fixed-base table rows and both odd-multiple tables on both Go limb encodings.",
         "note": _N + "; scalar-side and elligator constants, and the start-up vector tables, not yet covered"},
}
_todo = "machinery not completed yet in this session: the engine exists, the harness for this property is still being written (see DESIGN.md section 9)"
NOT_APPLICABLE = {f"C{n:02d}": _todo for n in range(1,21)}

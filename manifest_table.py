CLAIMED = {
 "C04": {"technique":"bounded symbolic execution of the field kernels from go/ssa; SMT (Int mode with deferred reduction + BV mode), contracts proved and reused",
         "text":"Every limb vector inside the stated headroom is a solver variable; each kernel's value congruence, output bounds and frame are discharged by z3/cvc5 (or closed by the exact polynomial normaliser that feeds them); counterexamples are replayed natively.",
         "note":"solver verdicts; the voiverif SSA->SMT encoder (validated per obligation against bit-vector semantics on sample points); go/ssa lowering; bounds: see evidence.bounds"},
 "C05": {"technique":"bounded symbolic execution of scalar kernels and byte predicates from go/ssa; SMT BV mode / Int mode",
         "text":"All 2^256 strings for the canonicity predicates; solver-decided equivalence with the integer comparison against L.",
         "note":"solver verdicts; encoder; go/ssa lowering"},
}
_todo = "machinery not completed yet in this session (engine exists; harness for this property not yet written)"
NOT_APPLICABLE = {f"C{n:02d}": _todo for n in range(1,21)}

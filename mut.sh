#!/bin/bash
# usage: mut.sh <prop> <file> <sed-expr> [extra flags]  -- apply a mutant to /repo, run the check, revert
prop=$1; file=$2; expr=$3; shift 3
cd /repo && sed -i "$expr" "$file" && git diff --stat | tail -1
cd /verif && timeout 900 ./bin/voiverif -prop $prop -noevidence "$@" 2>&1 | tail -6
cd /repo && git checkout -- . 

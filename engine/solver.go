package main

// Long-lived solver processes (z3 4.8.12, z3 5.1.0 "z3-new", cvc5 1.0.3) and a portfolio driver.

import (
	"bufio"
	"fmt"
	"io"
	"math/big"
	"os/exec"
	"strings"
	"sync"
	"sync/atomic"
	"time"
)

type SolveResult struct {
	Status string // sat | unsat | unknown | error
	Model  map[string]*big.Int
	Solver string
	Secs   float64
	Err    string
}

type solverProc struct {
	kind string
	cmd  *exec.Cmd
	in   io.WriteCloser
	out  *bufio.Reader
	dead bool
}

var solverCmds = map[string][]string{
	"z3":    {"z3", "-in"},
	"z3new": {"z3-new", "-in"},
	"cvc5":  {"cvc5", "--incremental", "--lang=smt2", "--produce-models"},
}

var (
	poolMu      sync.Mutex
	pool        = map[string][]*solverProc{}
	solverSlots = make(chan struct{}, 16)
	// statistics
	statQueries   int64
	statSolverNs  sync.Map // kind -> *int64
	statBySolver  sync.Map // kind -> *int64 (definitive answers)
	allProcsMu    sync.Mutex
	allProcs      = map[*solverProc]bool{}
	dumpDir       string
	dumpCounter   int64
	solverTimeAll int64
)

func addStat(m *sync.Map, k string, d int64) {
	v, _ := m.LoadOrStore(k, new(int64))
	atomic.AddInt64(v.(*int64), d)
}

func getProc(kind string) (*solverProc, error) {
	poolMu.Lock()
	if l := pool[kind]; len(l) > 0 {
		p := l[len(l)-1]
		pool[kind] = l[:len(l)-1]
		poolMu.Unlock()
		return p, nil
	}
	poolMu.Unlock()
	args := solverCmds[kind]
	cmd := exec.Command(args[0], args[1:]...)
	in, err := cmd.StdinPipe()
	if err != nil {
		return nil, err
	}
	out, err := cmd.StdoutPipe()
	if err != nil {
		return nil, err
	}
	cmd.Stderr = cmd.Stdout
	if err := cmd.Start(); err != nil {
		return nil, err
	}
	p := &solverProc{kind: kind, cmd: cmd, in: in, out: bufio.NewReaderSize(out, 1<<20)}
	allProcsMu.Lock()
	allProcs[p] = true
	allProcsMu.Unlock()
	return p, nil
}

func (p *solverProc) kill() {
	if p.dead {
		return
	}
	p.dead = true
	p.in.Close()
	if p.cmd.Process != nil {
		p.cmd.Process.Kill()
	}
	go p.cmd.Wait()
	allProcsMu.Lock()
	delete(allProcs, p)
	allProcsMu.Unlock()
}

func putProc(p *solverProc) {
	if p.dead {
		return
	}
	poolMu.Lock()
	pool[p.kind] = append(pool[p.kind], p)
	poolMu.Unlock()
}

func killAllSolvers() {
	allProcsMu.Lock()
	var ps []*solverProc
	for p := range allProcs {
		ps = append(ps, p)
	}
	allProcsMu.Unlock()
	for _, p := range ps {
		p.kill()
	}
}

// runOn sends one query to one solver process; cancel kills the process.
func runOn(kind, script string, vars []*Term, timeout time.Duration, cancel <-chan struct{}) SolveResult {
	solverSlots <- struct{}{}
	defer func() { <-solverSlots }()
	start := time.Now()
	res := SolveResult{Status: "error", Solver: kind}
	select {
	case <-cancel:
		res.Err = "cancelled"
		return res
	default:
	}
	p, err := getProc(kind)
	if err != nil {
		res.Err = err.Error()
		return res
	}
	ms := int(timeout / time.Millisecond)
	var sb strings.Builder
	sb.WriteString("(reset)\n")
	switch kind {
	case "cvc5":
		fmt.Fprintf(&sb, "(set-option :tlimit-per %d)\n(set-logic ALL)\n", ms)
	default:
		fmt.Fprintf(&sb, "(set-option :timeout %d)\n", ms)
	}
	sb.WriteString(script)
	sb.WriteString("(check-sat)\n(echo \"<<chk>>\")\n")
	type rd struct {
		lines []string
		err   error
	}
	readUntil := func(marker string) chan rd {
		ch := make(chan rd, 1)
		go func() {
			var lines []string
			for {
				l, err := p.out.ReadString('\n')
				if strings.Contains(l, marker) {
					ch <- rd{lines, nil}
					return
				}
				if l != "" {
					lines = append(lines, strings.TrimRight(l, "\n"))
				}
				if err != nil {
					ch <- rd{lines, err}
					return
				}
			}
		}()
		return ch
	}
	wait := func(ch chan rd) (rd, bool) {
		select {
		case r := <-ch:
			return r, true
		case <-cancel:
			p.kill()
			return rd{}, false
		case <-time.After(timeout + 10*time.Second):
			p.kill()
			return rd{}, false
		}
	}
	ch := readUntil("<<chk>>")
	if _, err := io.WriteString(p.in, sb.String()); err != nil {
		p.kill()
		res.Err = "write: " + err.Error()
		return res
	}
	r, ok := wait(ch)
	res.Secs = time.Since(start).Seconds()
	if !ok {
		res.Status = "unknown"
		res.Err = "timeout/cancel (process killed)"
		return res
	}
	if r.err != nil {
		p.kill()
		res.Err = "solver died: " + strings.Join(r.lines, " / ")
		return res
	}
	status := ""
	for _, l := range r.lines {
		l = strings.TrimSpace(l)
		if strings.HasPrefix(l, "(error") {
			// any error line makes the answer inconclusive (an old z3 may drop an assertion and still answer)
			res.Status = "error"
			res.Err = l
			putProc(p)
			return res
		}
		if l == "sat" || l == "unsat" || l == "unknown" || l == "timeout" {
			status = l
		}
	}
	if status == "timeout" {
		status = "unknown"
	}
	if status == "" {
		res.Err = "no status: " + strings.Join(r.lines, " / ")
		p.kill()
		return res
	}
	res.Status = status
	if status == "sat" && len(vars) > 0 {
		var gb strings.Builder
		gb.WriteString("(get-value (")
		for _, v := range vars {
			gb.WriteString(smtName(v.name))
			gb.WriteByte(' ')
		}
		gb.WriteString("))\n(echo \"<<val>>\")\n")
		ch := readUntil("<<val>>")
		if _, err := io.WriteString(p.in, gb.String()); err != nil {
			p.kill()
			return res
		}
		r, ok := wait(ch)
		if ok && r.err == nil {
			res.Model = parseModel(strings.Join(r.lines, "\n"))
		} else if ok {
			p.kill()
		}
	}
	res.Secs = time.Since(start).Seconds()
	putProc(p)
	return res
}

// parseModel reads a (get-value ...) answer: ((name value) ...).
func parseModel(s string) map[string]*big.Int {
	m := map[string]*big.Int{}
	toks := tokenize(s)
	// expect ( ( name value ) ( name value ) ... )
	i := 0
	var parseVal func() *big.Int
	parseVal = func() *big.Int {
		if i >= len(toks) {
			return nil
		}
		t := toks[i]
		i++
		switch {
		case t == "(":
			// (- n) | (_ bvN w) | other
			if i < len(toks) && toks[i] == "-" {
				i++
				v := parseVal()
				for i < len(toks) && toks[i] != ")" {
					i++
				}
				i++
				if v == nil {
					return nil
				}
				return new(big.Int).Neg(v)
			}
			if i+1 < len(toks) && toks[i] == "_" && strings.HasPrefix(toks[i+1], "bv") {
				v, _ := new(big.Int).SetString(toks[i+1][2:], 10)
				for i < len(toks) && toks[i] != ")" {
					i++
				}
				i++
				return v
			}
			depth := 1
			for i < len(toks) && depth > 0 {
				if toks[i] == "(" {
					depth++
				} else if toks[i] == ")" {
					depth--
				}
				i++
			}
			return nil
		case t == "true":
			return big.NewInt(1)
		case t == "false":
			return big.NewInt(0)
		case strings.HasPrefix(t, "#x"):
			v, _ := new(big.Int).SetString(t[2:], 16)
			return v
		case strings.HasPrefix(t, "#b"):
			v, _ := new(big.Int).SetString(t[2:], 2)
			return v
		default:
			v, ok := new(big.Int).SetString(t, 10)
			if !ok {
				return nil
			}
			return v
		}
	}
	if i < len(toks) && toks[i] == "(" {
		i++
	}
	for i < len(toks) && toks[i] == "(" {
		i++
		if i >= len(toks) {
			break
		}
		name := toks[i]
		i++
		if strings.HasPrefix(name, "|") {
			name = strings.Trim(name, "|")
		}
		v := parseVal()
		if v != nil {
			m[name] = v
		}
		for i < len(toks) && toks[i] != ")" {
			i++
		}
		i++
	}
	return m
}

func tokenize(s string) []string {
	var toks []string
	i := 0
	for i < len(s) {
		c := s[i]
		switch {
		case c == ' ' || c == '\n' || c == '\t' || c == '\r':
			i++
		case c == '(' || c == ')':
			toks = append(toks, string(c))
			i++
		case c == '|':
			j := i + 1
			for j < len(s) && s[j] != '|' {
				j++
			}
			toks = append(toks, s[i:j+1])
			i = j + 1
		default:
			j := i
			for j < len(s) && !strings.ContainsRune(" \n\t\r()", rune(s[j])) {
				j++
			}
			toks = append(toks, s[i:j])
			i = j
		}
	}
	return toks
}

// Solve runs the portfolio: solvers[0] first, the rest after `stagger` without an answer.
// unsat wins if no back end says sat; sat wins; an (error line is inconclusive for that back end.
func Solve(script string, vars []*Term, timeout time.Duration, solvers []string) SolveResult {
	return SolveC(script, vars, timeout, solvers, nil)
}

// SolveC: as Solve, with an external cancellation channel.
func SolveC(script string, vars []*Term, timeout time.Duration, solvers []string, ext <-chan struct{}) SolveResult {
	atomic.AddInt64(&statQueries, 1)
	if dumpDir != "" {
		n := atomic.AddInt64(&dumpCounter, 1)
		writeFile(fmt.Sprintf("%s/q%05d.smt2", dumpDir, n), script+"(check-sat)\n")
	}
	cancel := make(chan struct{})
	results := make(chan SolveResult, len(solvers))
	launch := func(k string) {
		go func() {
			r := runOn(k, script, vars, timeout, cancel)
			addStat(&statSolverNs, k, int64(r.Secs*1e9))
			results <- r
		}()
	}
	stagger := 1500 * time.Millisecond
	launched := 1
	launch(solvers[0])
	var timer <-chan time.Time
	if len(solvers) > 1 {
		timer = time.After(stagger)
	}
	got := 0
	var last SolveResult
	last.Status = "unknown"
	var errs []string
	for got < launched || launched < len(solvers) {
		select {
		case r := <-results:
			got++
			if r.Status == "sat" || r.Status == "unsat" {
				close(cancel)
				addStat(&statBySolver, r.Solver, 1)
				return r
			}
			if r.Err != "" {
				errs = append(errs, r.Solver+": "+r.Err)
			}
			if r.Status == "unknown" || last.Status != "unknown" {
				last = r
			}
			// a back end gave up: start the others at once
			for launched < len(solvers) {
				launch(solvers[launched])
				launched++
			}
			timer = nil
		case <-timer:
			for launched < len(solvers) {
				launch(solvers[launched])
				launched++
			}
			timer = nil
		case <-ext:
			close(cancel)
			return SolveResult{Status: "unknown", Err: "cancelled"}
		}
	}
	close(cancel)
	last.Err = strings.Join(errs, "; ")
	if last.Status == "error" {
		last.Status = "unknown"
	}
	return last
}

package main

import (
	"crypto/sha256"
	"encoding/json"
	"flag"
	"fmt"
	"math/big"
	"os"
	"path/filepath"
	"regexp"
	"runtime/pprof"
	"sort"
	"strconv"
	"strings"
	"sync"
	"sync/atomic"
	"time"
)

func writeFile(path, s string) {
	os.MkdirAll(filepath.Dir(path), 0o755)
	os.WriteFile(path, []byte(s), 0o644)
}

type knownFinding struct {
	prop, key, desc string
	re              *regexp.Regexp
}

func loadKnownFindings() []knownFinding {
	var out []knownFinding
	b, err := os.ReadFile(filepath.Join(verifDir, "KNOWN_FINDINGS.txt"))
	if err != nil {
		return nil
	}
	for _, l := range strings.Split(string(b), "\n") {
		l = strings.TrimSpace(l)
		if !strings.HasPrefix(l, "finding:") {
			continue // "fixed:" lines and comments suppress nothing
		}
		attrs := parseAttrs(strings.TrimPrefix(l, "finding:"))
		kf := knownFinding{prop: attrs["property"], key: attrs["key"]}
		if i := strings.Index(l, " -- "); i >= 0 {
			kf.desc = l[i+4:]
		}
		if kf.key != "" {
			kf.re = regexp.MustCompile(kf.key)
		}
		out = append(out, kf)
	}
	return out
}

func main() {
	prop := flag.String("prop", "", "property id")
	tier := flag.String("tier", "quick", "quick|thorough")
	obRe := flag.String("ob", "", "only obligations whose name matches")
	flag.BoolVar(&verbose, "v", false, "verbose")
	flag.StringVar(&dumpDir, "dump", "", "dump SMT queries to this directory")
	workers := flag.Int("j", 16, "parallel harness runs")
	list := flag.Bool("list", false, "list obligations")
	noEvidence := flag.Bool("noevidence", false, "do not write evidence")
	timeoutS := flag.Int("timeout", 0, "per-query timeout seconds (default by tier)")
	replayPath := flag.String("replay", "", "replay a counterexample file natively")
	noReplay := flag.Bool("noreplay", false, "do not run native replays")
	flag.StringVar(&repoDir, "repo", "/repo", "repository root")
	flag.StringVar(&verifDir, "verif", "/verif", "verif root")
	cpuprof := flag.String("cpuprofile", "", "write cpu profile")
	flag.Parse()
	if os.Getenv("VERIF_STACKDUMP") != "" {
		go func() {
			d, _ := strconv.Atoi(os.Getenv("VERIF_STACKDUMP"))
			time.Sleep(time.Duration(d) * time.Second)
			pprof.Lookup("goroutine").WriteTo(os.Stderr, 1)
			os.Exit(3)
		}()
	}
	if *cpuprof != "" {
		f, _ := os.Create(*cpuprof)
		pprof.StartCPUProfile(f)
		defer pprof.StopCPUProfile()
	}
	start := time.Now()
	seed, _ := strconv.ParseInt(os.Getenv("VERIF_SEED"), 10, 64)
	runSeed = seed
	if *replayPath != "" {
		cx, err := readCex(*replayPath)
		if err != nil {
			fmt.Println("MACHINERY-ERROR replay:", err)
			os.Exit(2)
		}
		rr := replayNative(cx, *replayPath, 0)
		fmt.Printf("replay %s: %s %s\n", *replayPath, rr.Status, rr.Detail)
		if rr.Status == "reproduced" {
			fmt.Printf("VIOLATION property=%s replay=%s\n", cx.Property, *replayPath)
			os.Exit(1)
		}
		if rr.Status == "not-reproduced" {
			os.Exit(0)
		}
		os.Exit(2)
	}
	if t := os.Getenv("VERIF_TIER"); t != "" && *tier == "" {
		*tier = t
	}
	qTimeout := 120 * time.Second
	if *tier == "thorough" {
		qTimeout = 600 * time.Second
	}
	if *timeoutS > 0 {
		qTimeout = time.Duration(*timeoutS) * time.Second
	}

	// load the three configurations in parallel
	configs := []string{"purego", "default", "force32bit"}
	loaded := map[string]*Loaded{}
	var lmu sync.Mutex
	var lwg sync.WaitGroup
	var loadErrs []string
	for _, cf := range configs {
		cf := cf
		lwg.Add(1)
		go func() {
			defer lwg.Done()
			t0 := time.Now()
			ld, err := loadConfig(cf)
			lmu.Lock()
			defer lmu.Unlock()
			if err != nil {
				loadErrs = append(loadErrs, err.Error())
				return
			}
			ld.loadSecs = time.Since(t0).Seconds()
			loaded[cf] = ld
		}()
	}
	lwg.Wait()
	if len(loadErrs) > 0 {
		fmt.Println("MACHINERY-ERROR load:", strings.Join(loadErrs, "\n"))
		os.Exit(2)
	}

	var re *regexp.Regexp
	if *obRe != "" {
		re = regexp.MustCompile(*obRe)
	}
	// select directives
	var runs []*ObRun
	// harness files dropped at load time because they no longer compile against the current tree
	droppedInc := 0
	seenDropped := map[string]bool{}
	for _, df := range droppedHarness {
		for _, line := range strings.Split(df.src, "\n") {
			mm := directiveRe.FindStringSubmatch(strings.TrimSpace(line))
			if mm == nil || mm[1] != "ob" {
				continue
			}
			at := parseAttrs(mm[2])
			for _, p := range strings.Split(at["prop"], ",") {
				if (p == *prop || *prop == "all") && !seenDropped[at["name"]+"@"+df.config] {
					seenDropped[at["name"]+"@"+df.config] = true
					droppedInc++
					fmt.Printf("INCONCLUSIVE property=%s obligation=%q reason=harness file %s does not compile against the current tree (the code it inspects was restructured): %s\n", p, at["name"]+"@"+df.config, filepath.Base(df.file), df.err)
				}
			}
		}
	}
	needCfg := map[string]bool{}
	for _, cf := range configs {
		ld := loaded[cf]
		for _, d := range ld.dirs {
			if d.Kind != "ob" {
				continue
			}
			props := strings.Split(d.Attrs["prop"], ",")
			match := false
			for _, p := range props {
				if p == *prop || *prop == "all" {
					match = true
				}
			}
			if !match {
				continue
			}
			if d.Attrs["tier"] == "thorough" && *tier != "thorough" {
				continue
			}
			if d.Attrs["tier"] == "quickonly" && *tier != "quick" {
				continue
			}
			if d.Attrs["tier"] == "manual" && re == nil {
				continue
			}
			tags := d.Attrs["tags"]
			if tags == "" {
				tags = "purego"
			}
			inCfg := false
			for _, t := range strings.Split(tags, ",") {
				if t == cf || t == "all" {
					inCfg = true
				}
			}
			if !inCfg {
				continue
			}
			dd := *d
			if *tier == "thorough" && d.Attrs["tsplit"] != "" {
				dd.Attrs = map[string]string{}
				for k, v := range d.Attrs {
					dd.Attrs[k] = v
				}
				dd.Attrs["split"] = d.Attrs["tsplit"]
			}
			for _, r := range expandRuns(&dd, ld) {
				if re != nil && !re.MatchString(r.Name) {
					continue
				}
				runs = append(runs, r)
				needCfg[cf] = true
			}
		}
	}
	if *list {
		for _, r := range runs {
			fmt.Println(r.Name, r.Dir.Attrs)
		}
		return
	}
	if len(runs) == 0 {
		fmt.Printf("MACHINERY-ERROR no obligations registered for property %s\n", *prop)
		os.Exit(2)
	}
	// package initialisation (constants enter with their real values)
	var iwg sync.WaitGroup
	var initErr []string
	for cf := range needCfg {
		ld := loaded[cf]
		iwg.Add(1)
		go func() {
			defer iwg.Done()
			t0 := time.Now()
			if err := ld.runInits(); err != nil {
				lmu.Lock()
				initErr = append(initErr, ld.config+": "+err.Error())
				lmu.Unlock()
			}
			ld.initSecs = time.Since(t0).Seconds()
		}()
	}
	iwg.Wait()
	if len(initErr) > 0 {
		fmt.Println("MACHINERY-ERROR init:", strings.Join(initErr, "\n"))
		os.Exit(2)
	}
	if verbose {
		for cf := range needCfg {
			fmt.Printf("[load] %s load=%.1fs init=%.1fs\n", cf, loaded[cf].loadSecs, loaded[cf].initSecs)
		}
	}

	// run
	var wg sync.WaitGroup
	sem := make(chan struct{}, *workers)
	var done int64
	for _, r := range runs {
		r := r
		wg.Add(1)
		sem <- struct{}{}
		go func() {
			defer wg.Done()
			defer func() { <-sem }()
			r.execute()
			r.discharge(qTimeout, 8) // (after an engine error: the obligations recorded before it)
			r.refuteWithoutContracts()
			n := atomic.AddInt64(&done, 1)
			if verbose {
				fmt.Printf("[run %d/%d] %s exec=%.1fs obs=%d err=%q\n", n, len(runs), r.Name, r.ExecSecs, len(r.Obs), r.Err)
			}
		}()
	}
	wg.Wait()
	killAllSolvers()

	// verdicts
	known := loadKnownFindings()
	nOb, nDis, nRef, nInc := 0, 0, 0, 0
	var violations, inconcl, knownHits []string
	distinct := map[string]bool{}
	var samples []map[string]interface{}
	encoded := map[string]int{}
	contractsUsed := map[string]int{}
	contractsProved := map[string]bool{}
	outDir := filepath.Join(verifDir, "out", *prop)
	cexN := 0
	nSkipped := 0
	replayedRun := map[*ObRun]bool{}
	nativeFallbacks := map[string]int{}
	reachUnknown := 0
	nReplayed := 0
	// an inconclusive run (solver unknown, untranslatable operation, engine limit or error): run the harness
	// natively on structured special inputs; a failure of its end-to-end assertions is a replayed violation
	nativeFallback := func(r *ObRun) {
		if *noReplay || (r.UsedGhost && r.attr("native", "") == "") || nativeFallbacks[r.Dir.Func] >= 2 || len(violations) > 0 {
			return
		}
		nativeFallbacks[r.Dir.Func]++
		pseudo := &Oblig{Name: "end-to-end assertions of the harness on structured special inputs (native search after an inconclusive symbolic run)", Kind: "assert", Hyp: TrueT, Goal: TrueT, Model: map[string]*big.Int{}, Solver: "native-structured-search", Concrete: true}
		cexN++
		path := filepath.Join(outDir, fmt.Sprintf("cex_%d.json", cexN))
		cx := writeCex(path, *prop, r, pseudo)
		cx.Ghost = false
		if rr := replayNative(cx, path, nativeSearch); rr.Status == "reproduced" {
			violations = append(violations, fmt.Sprintf("VIOLATION property=%s replay=%s obligation=%q backend=%s replay=reproduced(%s)", *prop, path, r.Name+" :: "+pseudo.Name, pseudo.Solver, rr.Detail))
		} else {
			os.Remove(path)
			cexN--
		}
	}
	for _, r := range runs {
		for k, v := range r.Encoded {
			encoded[r.Ld.config+":"+shortName(k)] = v
		}
		for k, v := range r.Uses {
			contractsUsed[k] += v
		}
		if r.Err != "" {
			nOb++
			nInc++
			inconcl = append(inconcl, fmt.Sprintf("obligation=%s reason=engine: %s", r.Name, r.Err))
		}
		allOK := r.Err == ""
		runRefuted := false
		for _, ob := range r.Obs {
			if ob.Verdict == "refuted" {
				runRefuted = true
			}
		}
		for _, ob := range r.Obs {
			if runRefuted && ob.Kind == "reach" && ob.Verdict == "vacuous" {
				ob.Verdict = "skipped" // the path ended at the refuted assertion
			}
			nOb++
			full := r.Name + " :: " + ob.Name
			if verbose {
				fmt.Printf("  [%s] %s  (%s %.2fs) %s\n", ob.Verdict, full, ob.Solver, ob.Secs, ob.Note)
			}
			if ob.Solver != "simplifier" && ob.Solver != "" {
				h := sha256.Sum256([]byte(fmt.Sprintf("%d/%d", ob.Hyp.id, ob.Goal.id)))
				distinct[string(h[:8])] = true
			}
			switch ob.Verdict {
			case "skipped":
				nSkipped++
			case "discharged":
				nDis++
			case "refuted":
				allOK = false
				nRef++
				isKnown := false
				for _, kf := range known {
					if kf.prop == *prop && kf.re != nil && kf.re.MatchString(full) {
						isKnown = true
						knownHits = append(knownHits, fmt.Sprintf("KNOWN-FINDING: property=%s %s (%s)", *prop, kf.desc, full))
					}
				}
				if !isKnown {
					cexN++
					path := filepath.Join(outDir, fmt.Sprintf("cex_%d.json", cexN))
					cx := writeCex(path, *prop, r, ob)
					note := ""
					if ob.Kind == "lock" {
						note = " replay=none(obligation about ghost state of the execution - mutex held-flag / store to a package-level object: the explored path is the finding; a native run cannot observe it)"
					} else if ob.Kind == "leak" {
						note = " replay=none(two-run witness: the model gives equal public inputs and two secrets under which the leak site differs)"
					} else if cx.Ghost {
						note = " replay=none(obligation over ghost parameters / uninterpreted symbols: the solver model of the abstract obligation is the finding; no native input exists for it)"
					} else if replayedRun[r] {
						note = " replay=not-repeated(an earlier counterexample of this harness run was already reproduced natively)"
					} else if !*noReplay {
						// exact replay first; for abstract models (contract outputs / loop-cut states chosen by the
						// solver) the real code runs on the model's inputs, then a native search anchored at them
						search := 0
						if cx.Abstract {
							search = nativeSearch
						}
						rr := replayNative(cx, path, search)
						note = " replay=" + rr.Status
						if rr.Status != "reproduced" && cx.Abstract {
							// the model fixes intermediate results the real code may not produce: transplant them
							if ob2 := r.concretiseAbstract(ob); ob2 != nil {
								cx2 := writeCex(path, *prop, r, ob2)
								cx2.Abstract = false
								if rr2 := replayNative(cx2, path, 0); rr2.Status == "reproduced" {
									rr = rr2
									note = " replay=reproduced(" + ob2.Solver + ")"
								}
							}
						}
						if rr.Status != "reproduced" {
							nRef--
							nInc++
							inconcl = append(inconcl, fmt.Sprintf("obligation=%q reason=counterexample %s natively (%s)", full, rr.Status, rr.Detail))
							break
						}
						nReplayed++
						replayedRun[r] = true
					}
					violations = append(violations, fmt.Sprintf("VIOLATION property=%s replay=%s obligation=%q backend=%s%s", *prop, path, full, ob.Solver, note))
				}
			default:
				if ob.Kind == "reach" && ob.Verdict == "inconclusive" && len(r.Uses) > 0 {
					// satisfiability of a path through proved contracts: the real outputs are a witness
					// (every Requires on the path is itself an obligation); the solver just did not find one.
					nDis++
					reachUnknown++
					break
				}
				allOK = false
				nInc++
				inconcl = append(inconcl, fmt.Sprintf("obligation=%q reason=%s %s", full, ob.Verdict, ob.Note))
			}
			if len(samples) < 12 && ob.Solver != "simplifier" && (len(samples) < 6 || ob.Verdict != "discharged") {
				s := map[string]interface{}{"obligation": full, "kind": ob.Kind, "mode": ob.Mode, "verdict": ob.Verdict, "backend": ob.Solver, "seconds": round3(ob.Secs), "pos": ob.Pos}
				if ob.Verdict == "refuted" {
					s["model"] = modelStrings(ob.Model, 24)
				}
				samples = append(samples, s)
			}
		}
		if allOK && r.Proved != "" {
			contractsProved[r.Ld.config+":"+r.Proved] = true
		}
		runInc := r.Err != ""
		for _, ob := range r.Obs {
			if ob.Verdict == "inconclusive" && ob.Kind != "reach" {
				runInc = true
			}
		}
		if runInc && !runRefuted {
			nativeFallback(r)
		}
	}
	seenKF := map[string]bool{}
	for _, k := range knownHits {
		key := k
		if i := strings.Index(k, " ("); i > 0 {
			key = k[:i]
		}
		if !seenKF[key] {
			seenKF[key] = true
			fmt.Println(k)
		}
	}
	for _, v := range violations {
		fmt.Println(v)
	}
	for _, i := range inconcl {
		fmt.Printf("INCONCLUSIVE property=%s %s\n", *prop, i)
	}
	wall := time.Since(start).Seconds()
	fmt.Printf("property=%s tier=%s harness_runs=%d obligations=%d discharged=%d refuted=%d inconclusive=%d skipped_after_refutation=%d solver_queries=%d wall=%.1fs\n",
		*prop, *tier, len(runs), nOb, nDis, nRef, nInc, nSkipped, atomic.LoadInt64(&statQueries), wall)

	if !*noEvidence && re == nil {
		solverTime := map[string]float64{}
		statSolverNs.Range(func(k, v interface{}) bool {
			solverTime[k.(string)] = round3(float64(atomic.LoadInt64(v.(*int64))) / 1e9)
			return true
		})
		answered := map[string]int64{}
		statBySolver.Range(func(k, v interface{}) bool {
			answered[k.(string)] = atomic.LoadInt64(v.(*int64))
			return true
		})
		var fnList []string
		for k, v := range encoded {
			fnList = append(fnList, fmt.Sprintf("%s (%d instr)", k, v))
		}
		sort.Strings(fnList)
		var proved []string
		for k := range contractsProved {
			proved = append(proved, k)
		}
		sort.Strings(proved)
		var runNames []string
		for _, r := range runs {
			runNames = append(runNames, r.Name)
		}
		if len(samples) == 0 {
			samples = append(samples, map[string]interface{}{"note": "all obligations closed by the term simplifier"})
		}
		level := "model_checking"
		ev := map[string]interface{}{
			"property_id": *prop, "tier": *tier, "seed": seed, "level": level, "wall_s": round3(wall),
			"violations": len(violations),
			"coverage": map[string]interface{}{
				"evaluations":         atomic.LoadInt64(&statQueries) + int64(nOb),
				"distinct_nontrivial": len(distinct),
				"rule":                "one case = one proof obligation (assertion, contract pre/postcondition, frame condition, implicit-panic check, reachability witness) generated by symbolic execution of the real SSA; evaluations = solver queries issued + obligations closed by the simplifier; distinct_nontrivial = obligations that needed a solver, distinct by (hypothesis, goal) term identity",
				"obligations":         nOb, "discharged": nDis, "refuted": nRef, "inconclusive": nInc,
				"samples":            samples,
				"harness_runs":       runNames,
				"functions_encoded":  fnList,
				"contracts_used":     contractsUsed,
				"contracts_proved":   proved,
				"solver_time_s":      solverTime,
				"answered_by":        answered,
				"int_mode_mods":      map[string]int64{"dropped_by_range_analysis": atomic.LoadInt64(&statModsDropped), "kept_exact": atomic.LoadInt64(&statModsKept)},
				"bounds":             collectBounds(runs),
				"known_findings_hit": knownHits,
				"trusted_base":       []string{"z3 4.8.12 / z3 5.1.0 / cvc5 1.0.3 verdicts", "voiverif SSA->SMT encoder", "go/ssa (x/tools v0.29.0) lowering of the Go source"},
				"checker_cmd":        strings.Join(os.Args, " "),
			},
			"assumptions": collectAssumptions(runs),
		}
		b, _ := json.MarshalIndent(ev, "", " ")
		writeFile(filepath.Join(verifDir, "evidence", *prop+".json"), string(b)+"\n")
	}
	pprof.StopCPUProfile()
	switch {
	case len(violations) > 0:
		os.Exit(1)
	case nInc > 0 || droppedInc > 0:
		os.Exit(2)
	}
}

func round3(f float64) float64 { return float64(int64(f*1000+0.5)) / 1000 }

func modelStrings(m map[string]*big.Int, max int) map[string]string {
	out := map[string]string{}
	var ks []string
	for k := range m {
		ks = append(ks, k)
	}
	sort.Strings(ks)
	for i, k := range ks {
		if i >= max {
			break
		}
		out[k] = "0x" + m[k].Text(16)
	}
	return out
}

func collectBounds(runs []*ObRun) map[string]interface{} {
	b := map[string]interface{}{}
	splits := map[string]bool{}
	for _, r := range runs {
		if s := r.Dir.Attrs["split"]; s != "" {
			splits[r.Dir.Func+": "+s] = true
		}
		if s := r.Dir.Attrs["bound"]; s != "" {
			b[r.Dir.Func] = strings.ReplaceAll(s, "_", " ")
		}
	}
	var sl []string
	for s := range splits {
		sl = append(sl, s)
	}
	sort.Strings(sl)
	b["case_splits"] = sl
	b["loop_unwinding"] = "loops are unrolled while their conditions fold to constants; an unwinding assertion (engine failure, exit 2) fires at 5000 iterations or at the per-harness maxunroll"
	return b
}

func collectAssumptions(runs []*ObRun) []string {
	set := map[string]bool{}
	for _, r := range runs {
		if a := r.Dir.Attrs["assume"]; a != "" {
			for _, x := range strings.Split(a, ";") {
				set[strings.ReplaceAll(x, "_", " ")] = true
			}
		}
		for k := range r.Uses {
			set["contract/stub used in place of "+k] = true
		}
	}
	var out []string
	for k := range set {
		out = append(out, k)
	}
	sort.Strings(out)
	if out == nil {
		out = []string{}
	}
	return out
}

package main

// Symbolic executor for go/ssa with state merging at control-flow joins.

import (
	"fmt"
	"go/constant"
	"go/token"
	"go/types"
	"math/big"
	"regexp"
	"sort"
	"strings"

	"golang.org/x/tools/go/ssa"
)

type Oblig struct {
	Name string
	Kind string // assert | bounds | panic | requires | ensures | frame | reach | nowrap | leak
	Pos  string
	// Hyp => Goal must be valid. Reach obligations are satisfiability checks of Hyp.
	Hyp  *Term
	Goal *Term
	// filled by the discharger
	Verdict   string
	Solver    string
	Secs      float64
	Model     map[string]*big.Int
	Note      string
	Mode      string
	SelfCheck bool
	Concrete  bool // found with every contract switched off: inputs are inputs of the real code
}

type Ctx struct {
	ld          *Loaded
	objCounter  int
	fresh       int
	obs         []*Oblig
	replace     map[string]*ssa.Function // callee name -> replacement (contract/stub) function
	proving     *ssa.Function            // contract function being proved (Call() runs the real one)
	provingReal *ssa.Function
	allowPanic  *regexp.Regexp
	maxUnroll   int
	encoded     map[string]int
	callDepth   int
	stack       []string
	inputs      []*Term // symbolic inputs created by Any*
	secret      map[string]bool
	ctCheck     bool
	vartimeRe   *regexp.Regexp
	feasAfter   int
	mode        string
	cutSpec     *LoopCut
	noPanicObs  bool
	contractUse map[string]int
	trace       bool
	obName      string
	curContract []*contractFrame
	asmFuncs    map[string]*AsmFunc
	cases       map[string]int
	maxInstr    int64
	cutFix      string
	asserted    map[*Term]bool
	usedGhost   bool
	tainted     map[string]bool
	guardType   string
	asmSimSpec  string
	skipRun     bool // the harness declared this case combination redundant (verif.SkipRun)
	shadow      bool // contracts in use mode also run the real function and record (havoc variable, real value) pairs
	fresh2      int
	shadowPairs [][2]*Term
	secretMemo  map[*Term]bool
	nInstr      int64
}

type contractFrame struct {
	fn      *ssa.Function
	real    *ssa.Function
	args    []Value
	prove   bool
	memSnap Mem
	havoced []Pointer
	rets    Value
	called  bool
	taint   bool
	inReal  bool
}

type Path struct {
	st     *State
	env    map[ssa.Value]Value
	defers []deferred
}

type deferred struct {
	fn   Value
	args []Value
	call *ssa.CallCommon
}

func (p *Path) fork() *Path {
	e := make(map[ssa.Value]Value, len(p.env))
	for k, v := range p.env {
		e[k] = v
	}
	return &Path{st: p.st.fork(), env: e, defers: append([]deferred(nil), p.defers...)}
}

type Outcome struct {
	st  *State
	ret Value
}

// ---------- per-function analysis: weak topological order + liveness ----------

type FnInfo struct {
	pos      map[*ssa.BasicBlock]int // schedule position of a block
	latch    map[*ssa.BasicBlock]int // schedule position of the latch of a loop head
	lastIn   map[*ssa.BasicBlock]int // last position inside the component of a head
	blockAt  map[int]*ssa.BasicBlock
	isLatch  map[int]bool
	liveIn   map[*ssa.BasicBlock]map[ssa.Value]bool
	heads    []*ssa.BasicBlock
	nInstr   int
	compOf   map[*ssa.BasicBlock][]*ssa.BasicBlock // head -> blocks in its component
	retPos   int
	usesLate map[ssa.Value]bool
}

type wtoElem struct {
	b    *ssa.BasicBlock
	comp []*wtoElem // non-nil: component headed by b
}

func computeWTO(fn *ssa.Function) []*wtoElem {
	dfn := map[*ssa.BasicBlock]int{}
	num := 0
	var stack []*ssa.BasicBlock
	const inf = 1 << 30
	var visit func(v *ssa.BasicBlock, part *[]*wtoElem) int
	var component func(v *ssa.BasicBlock) *wtoElem
	component = func(v *ssa.BasicBlock) *wtoElem {
		var part []*wtoElem
		for _, s := range v.Succs {
			if dfn[s] == 0 {
				visit(s, &part)
			}
		}
		return &wtoElem{b: v, comp: append([]*wtoElem{}, part...)}
	}
	visit = func(v *ssa.BasicBlock, part *[]*wtoElem) int {
		stack = append(stack, v)
		num++
		dfn[v] = num
		head := num
		loop := false
		for _, s := range v.Succs {
			var min int
			if dfn[s] == 0 {
				min = visit(s, part)
			} else {
				min = dfn[s]
			}
			if min <= head {
				head = min
				loop = true
			}
		}
		if head == dfn[v] {
			dfn[v] = inf
			e := stack[len(stack)-1]
			stack = stack[:len(stack)-1]
			if loop {
				for e != v {
					dfn[e] = 0
					e = stack[len(stack)-1]
					stack = stack[:len(stack)-1]
				}
				*part = append([]*wtoElem{component(v)}, *part...)
			} else {
				*part = append([]*wtoElem{{b: v}}, *part...)
			}
		}
		return head
	}
	var part []*wtoElem
	if len(fn.Blocks) > 0 {
		visit(fn.Blocks[0], &part)
	}
	return part
}

func (c *Ctx) info(fn *ssa.Function) *FnInfo {
	c.ld.infoMu.Lock()
	defer c.ld.infoMu.Unlock()
	if fi, ok := c.ld.fnInfo[fn]; ok {
		return fi
	}
	fi := &FnInfo{pos: map[*ssa.BasicBlock]int{}, latch: map[*ssa.BasicBlock]int{}, lastIn: map[*ssa.BasicBlock]int{},
		blockAt: map[int]*ssa.BasicBlock{}, isLatch: map[int]bool{}, liveIn: map[*ssa.BasicBlock]map[ssa.Value]bool{},
		compOf: map[*ssa.BasicBlock][]*ssa.BasicBlock{}}
	n := 0
	var walk func(es []*wtoElem, into *[]*ssa.BasicBlock)
	walk = func(es []*wtoElem, into *[]*ssa.BasicBlock) {
		for _, e := range es {
			fi.pos[e.b] = n
			fi.blockAt[n] = e.b
			n++
			if into != nil {
				*into = append(*into, e.b)
			}
			if e.comp != nil {
				var blocks []*ssa.BasicBlock
				blocks = append(blocks, e.b)
				walk(e.comp, &blocks)
				fi.compOf[e.b] = blocks
				if into != nil {
					*into = append(*into, blocks[1:]...)
				}
				fi.lastIn[e.b] = n - 1
				fi.latch[e.b] = n
				fi.blockAt[n] = e.b
				fi.isLatch[n] = true
				fi.heads = append(fi.heads, e.b)
				n++
			}
		}
	}
	walk(computeWTO(fn), nil)
	fi.retPos = n
	for _, b := range fn.Blocks {
		fi.nInstr += len(b.Instrs)
	}
	// liveness (backward dataflow over SSA values)
	use := map[*ssa.BasicBlock]map[ssa.Value]bool{}
	def := map[*ssa.BasicBlock]map[ssa.Value]bool{}
	phiUse := map[*ssa.BasicBlock]map[ssa.Value]bool{} // values used by phis of successors along the edge from this block
	isTracked := func(v ssa.Value) bool {
		switch v.(type) {
		case *ssa.Const, *ssa.Global, *ssa.Function, *ssa.Builtin:
			return false
		}
		return true
	}
	for _, b := range fn.Blocks {
		use[b], def[b], phiUse[b] = map[ssa.Value]bool{}, map[ssa.Value]bool{}, map[ssa.Value]bool{}
	}
	for _, b := range fn.Blocks {
		for _, in := range b.Instrs {
			if phi, ok := in.(*ssa.Phi); ok {
				for i, e := range phi.Edges {
					if isTracked(e) {
						phiUse[b.Preds[i]][e] = true
					}
				}
				def[b][phi] = true
				continue
			}
			var ops []*ssa.Value
			ops = in.Operands(ops)
			for _, o := range ops {
				if *o != nil && isTracked(*o) && !def[b][*o] {
					use[b][*o] = true
				}
			}
			if v, ok := in.(ssa.Value); ok {
				def[b][v] = true
			}
		}
	}
	liveOut := map[*ssa.BasicBlock]map[ssa.Value]bool{}
	for _, b := range fn.Blocks {
		fi.liveIn[b] = map[ssa.Value]bool{}
		liveOut[b] = map[ssa.Value]bool{}
	}
	changed := true
	for changed {
		changed = false
		for i := len(fn.Blocks) - 1; i >= 0; i-- {
			b := fn.Blocks[i]
			lo := liveOut[b]
			for v := range phiUse[b] {
				if !lo[v] {
					lo[v] = true
					changed = true
				}
			}
			for _, s := range b.Succs {
				for v := range fi.liveIn[s] {
					if _, isPhi := v.(*ssa.Phi); isPhi && v.(*ssa.Phi).Block() == s {
						continue
					}
					if !lo[v] {
						lo[v] = true
						changed = true
					}
				}
			}
			li := fi.liveIn[b]
			for v := range use[b] {
				if !li[v] {
					li[v] = true
					changed = true
				}
			}
			for v := range lo {
				if !def[b][v] && !li[v] {
					li[v] = true
					changed = true
				}
			}
		}
	}
	// phis of a block are live-in to it (they are assigned on the edge)
	for _, b := range fn.Blocks {
		for _, in := range b.Instrs {
			if phi, ok := in.(*ssa.Phi); ok {
				if len(*phi.Referrers()) > 0 {
					fi.liveIn[b][phi] = true
				}
			} else {
				break
			}
		}
	}
	c.ld.fnInfo[fn] = fi
	return fi
}

// ---------- frames ----------

type frame struct {
	fn      *ssa.Function
	info    *FnInfo
	pending map[int][]*Path
	returns []*Path
	retVals []Value
	latchN  map[int]int
}

func (c *Ctx) freshName(prefix string) string {
	if c.shadow {
		for _, cf := range c.curContract {
			if cf.inReal {
				c.fresh2++
				return fmt.Sprintf("sh%s!%d", prefix, c.fresh2)
			}
		}
	}
	c.fresh++
	return fmt.Sprintf("%s!%d", prefix, c.fresh)
}

func (c *Ctx) addOb(st *State, kind, name, pos string, goal *Term) {
	if goal.IsTrue() {
		return
	}
	hyp := st.pc.term()
	if hyp.IsFalse() {
		return
	}
	c.obs = append(c.obs, &Oblig{Name: name, Kind: kind, Pos: pos, Hyp: hyp, Goal: goal})
}

func (c *Ctx) posOf(in ssa.Instruction) string {
	if in == nil {
		return ""
	}
	p := in.Pos()
	if p == token.NoPos {
		if in.Parent() != nil {
			return in.Parent().String()
		}
		return ""
	}
	ps := c.ld.prog.Fset.Position(p)
	return fmt.Sprintf("%s:%d", strings.TrimPrefix(ps.Filename, "/repo/"), ps.Line)
}

// callFunction runs fn (or its replacement / intrinsic) and returns the normal outcomes.
func (c *Ctx) callFunction(fn *ssa.Function, args []Value, bind []Value, st *State, site ssa.Instruction) []Outcome {
	name := fn.String()
	if c.ctCheck && c.vartimeRe != nil && c.vartimeRe.MatchString(name) {
		c.checkVartimeCall(st, fn, args, site)
	}
	if in, ok := intrinsics[name]; ok {
		r := in(c, st, args, site)
		return []Outcome{{st, r}}
	}
	if fn.Name() == "init" && fn.Pkg != nil && !strings.HasPrefix(fn.Pkg.Pkg.Path(), modPath) {
		return []Outcome{{st, nil}}
	}
	if fn.Pkg != nil && fn.Pkg.Pkg.Path() == verifPkgPath {
		switch fn.Name() {
		case "Native":
			return []Outcome{{st, FalseT}}
		case "Real":
			cf := c.topContract()
			if c.shadow && cf != nil && !cf.prove {
				// shadow run: the real function runs inside the used contract; names created meanwhile come
				// from a separate counter so that the contract's own fresh names stay aligned with the
				// original (abstract) run
				cf.inReal = true
				return []Outcome{{st, TrueT}}
			}
			return []Outcome{{st, BoolC(cf != nil && cf.prove)}}
		case "FreshInt", "FreshU64", "FreshI64":
			return []Outcome{{st, Var(c.freshName("fresh"), BV(64))}}
		case "FreshU32":
			return []Outcome{{st, Var(c.freshName("fresh"), BV(32))}}
		case "FreshU8":
			return []Outcome{{st, Var(c.freshName("fresh"), BV(8))}}
		case "FreshBool":
			return []Outcome{{st, Var(c.freshName("fresh"), BoolSort)}}
		case "FreshIntG":
			return []Outcome{{st, Var(c.freshName("freshg"), IntSort)}}
		case "HasCase":
			_, ok := c.cases[args[0].(string)]
			return []Outcome{{st, BoolC(ok)}}
		case "BVShlSym":
			return []Outcome{{st, BvShl(termOf(args[0]), termOf(args[1]))}}
		case "Case":
			v, ok := c.cases[args[0].(string)]
			if !ok {
				fail("verif.Case(%q): no split domain given in the directive", args[0].(string))
			}
			return []Outcome{{st, BVI(int64(v), 64)}}
		}
		if in, ok := verifIntrinsics[fn.Name()]; ok {
			r := in(c, st, args, site)
			if r == endPath {
				return nil
			}
			return []Outcome{{st, r}}
		}
		if fn.Signature.Recv() != nil {
			key := recvName(fn) + "." + fn.Name()
			if in, ok := verifIntrinsics[key]; ok {
				r := in(c, st, args, site)
				return []Outcome{{st, r}}
			}
		}
	}
	if c.cutSpec != nil && c.cutSpec.fn == fn && !c.cutSpec.done {
		return c.execCut(fn, args, bind, st)
	}
	if c.ctCheck && c.vartimeRe != nil && c.vartimeRe.MatchString(name) {
		c.checkVartimeCall(st, fn, args, site)
	}
	if c.proving == fn && len(c.curContract) == 0 {
		return c.runContract(fn, c.provingReal, args, st, site, true)
	}
	if rep, ok := c.replace[name]; ok && !c.inContractFor(fn) {
		return c.runContract(rep, fn, args, st, site, false)
	}
	if len(fn.Blocks) == 0 {
		if af, ok := c.asmFuncs[name]; ok {
			c.execAsm(af, fn, args, st, site)
			return []Outcome{{st, nil}}
		}
		fail("call to function without body: %s (at %s)", name, c.posOf(site))
	}
	return c.execBody(fn, args, bind, st)
}

// inContractFor: inside the contract of F (proving it, or using it) calls to F go to the real code.
func (c *Ctx) inContractFor(fn *ssa.Function) bool {
	if cf := c.topContract(); cf != nil && cf.real == fn {
		return true
	}
	for _, cf := range c.curContract {
		if cf.real == fn && cf.prove {
			return true
		}
	}
	return false
}

func recvName(fn *ssa.Function) string {
	t := fn.Signature.Recv().Type()
	if p, ok := t.(*types.Pointer); ok {
		t = p.Elem()
	}
	if n, ok := t.(*types.Named); ok {
		return n.Obj().Name()
	}
	return t.String()
}

func (c *Ctx) execBody(fn *ssa.Function, args []Value, bind []Value, st *State) []Outcome {
	c.callDepth++
	if c.callDepth > 400 {
		fail("call depth exceeded at %s", fn)
	}
	c.stack = append(c.stack, fn.String())
	defer func() { c.callDepth--; c.stack = c.stack[:len(c.stack)-1] }()
	info := c.info(fn)
	if _, ok := c.encoded[fn.String()]; !ok {
		c.encoded[fn.String()] = info.nInstr
	}
	fr := &frame{fn: fn, info: info, pending: map[int][]*Path{}, latchN: map[int]int{}}
	env := make(map[ssa.Value]Value, 64)
	if len(args) != len(fn.Params) {
		fail("arity mismatch calling %s: %d args for %d params", fn, len(args), len(fn.Params))
	}
	for i, p := range fn.Params {
		env[p] = args[i]
	}
	for i, fv := range fn.FreeVars {
		env[fv] = bind[i]
	}
	fr.pending[info.pos[fn.Blocks[0]]] = []*Path{{st: st, env: env}}
	c.runFrame(fr)
	return c.finishFrame(fr)
}

func (c *Ctx) runFrame(fr *frame) {
	info := fr.info
	for len(fr.pending) > 0 {
		pos := -1
		for k := range fr.pending {
			if pos < 0 || k < pos {
				pos = k
			}
		}
		paths := fr.pending[pos]
		delete(fr.pending, pos)
		blk := info.blockAt[pos]
		if info.isLatch[pos] {
			fr.latchN[pos]++
			if fr.latchN[pos] > c.maxUnroll {
				fail("unwinding bound %d exceeded in %s (loop at %s)", c.maxUnroll, fr.fn, c.posOf(blk.Instrs[0]))
			}
		} else if _, isHead := info.latch[blk]; isHead {
			// fresh entry into the loop: reset its unroll counter
			fr.latchN[info.latch[blk]] = 0
		}
		merged := c.mergePaths(paths, info.liveIn[blk])
		for _, p := range merged {
			c.runBlock(fr, p, blk, 0)
		}
	}
}

func (c *Ctx) finishFrame(fr *frame) []Outcome {
	if len(fr.returns) == 0 {
		return nil
	}
	// merge returning paths; the return value travels in env under a nil key
	for i, p := range fr.returns {
		p.env = map[ssa.Value]Value{nil: fr.retVals[i]}
	}
	merged := c.mergePaths(fr.returns, map[ssa.Value]bool{nil: true})
	var outs []Outcome
	for _, p := range merged {
		outs = append(outs, Outcome{p.st, p.env[nil]})
	}
	return outs
}

func commonDepth(a, b *pcNode) int {
	for depthOf(a) > depthOf(b) {
		a = a.parent
	}
	for depthOf(b) > depthOf(a) {
		b = b.parent
	}
	for a != b {
		a, b = a.parent, b.parent
	}
	return depthOf(a)
}

// mergePaths merges the most closely related paths first (deepest common path-condition prefix), so that
// complementary branch conditions cancel and the merged path condition stays a conjunction.
func (c *Ctx) mergePaths(paths []*Path, live map[ssa.Value]bool) []*Path {
	if len(paths) <= 1 {
		return paths
	}
	cur := append([]*Path(nil), paths...)
	failed := map[[2]*Path]bool{}
	for len(cur) > 1 {
		bi, bj, bd := -1, -1, -1
		for i := 0; i < len(cur); i++ {
			for j := i + 1; j < len(cur); j++ {
				if failed[[2]*Path{cur[i], cur[j]}] {
					continue
				}
				if d := commonDepth(cur[i].st.pc, cur[j].st.pc); d > bd {
					bi, bj, bd = i, j, d
				}
			}
		}
		if bi < 0 {
			break
		}
		m := c.mergeTwo(cur[bi], cur[bj], live)
		if m == nil {
			failed[[2]*Path{cur[bi], cur[bj]}] = true
			continue
		}
		cur[bi] = m
		cur = append(cur[:bj], cur[bj+1:]...)
	}
	return cur
}

func (c *Ctx) mergeTwo(a, b *Path, live map[ssa.Value]bool) *Path {
	if len(a.defers) != len(b.defers) {
		return nil
	}
	common, da, db := pcSplit(a.st.pc, b.st.pc)
	_ = db
	env := make(map[ssa.Value]Value, len(live))
	for v := range live {
		x, okx := a.env[v]
		y, oky := b.env[v]
		if !okx || !oky {
			if okx != oky {
				// defined on one side only: cannot be used on a path where it is undefined
				if okx {
					env[v] = x
				} else {
					env[v] = y
				}
			}
			continue
		}
		if valuesIdentical(x, y) {
			env[v] = x
			continue
		}
		m, ok := mergeVal(da, x, y)
		if !ok {
			return nil
		}
		env[v] = m
	}
	mem := make(Mem, len(a.st.mem))
	for o, x := range a.st.mem {
		y, ok := b.st.mem[o]
		if !ok {
			mem[o] = x
			continue
		}
		if valuesIdentical(x, y) {
			mem[o] = x
			continue
		}
		m, ok := mergeVal(da, x, y)
		if !ok {
			return nil
		}
		mem[o] = m
	}
	for o, y := range b.st.mem {
		if _, ok := a.st.mem[o]; !ok {
			mem[o] = y
		}
	}
	ghost := map[string]Value{}
	for k, x := range a.st.ghost {
		y, ok := b.st.ghost[k]
		if !ok {
			ghost[k] = x
			continue
		}
		if valuesIdentical(x, y) {
			ghost[k] = x
			continue
		}
		m, ok := mergeVal(da, x, y)
		if !ok {
			return nil
		}
		ghost[k] = m
	}
	for k, y := range b.st.ghost {
		if _, ok := a.st.ghost[k]; !ok {
			ghost[k] = y
		}
	}
	pc := common.and(Or(da, db))
	for i := range a.defers {
		if !valuesIdentical(a.defers[i].fn, b.defers[i].fn) {
			return nil
		}
	}
	return &Path{st: &State{mem: mem, pc: pc, ghost: ghost, shared: a.st.shared}, env: env, defers: a.defers}
}

// transfer moves a path along the edge from -> to (k-th successor), assigning phis.
func (c *Ctx) transfer(fr *frame, p *Path, from *ssa.BasicBlock, k int) {
	to := from.Succs[k]
	// which predecessor slot of `to` is this edge?
	slot := -1
	seen := 0
	for j := 0; j < k; j++ {
		if from.Succs[j] == to {
			seen++
		}
	}
	for i, pr := range to.Preds {
		if pr == from {
			if seen == 0 {
				slot = i
				break
			}
			seen--
		}
	}
	if slot < 0 {
		fail("edge not found")
	}
	var phis []*ssa.Phi
	var vals []Value
	for _, in := range to.Instrs {
		phi, ok := in.(*ssa.Phi)
		if !ok {
			break
		}
		phis = append(phis, phi)
		vals = append(vals, c.eval(p, phi.Edges[slot]))
	}
	for i, phi := range phis {
		p.env[phi] = vals[i]
	}
	info := fr.info
	pos := info.pos[to]
	if l, isHead := info.latch[to]; isHead && info.pos[from] >= info.pos[to] && info.pos[from] <= info.lastIn[to] {
		pos = l
	} else if info.pos[to] <= info.pos[from] {
		fail("irreducible control flow in %s", fr.fn)
	}
	fr.pending[pos] = append(fr.pending[pos], p)
}

func (c *Ctx) eval(p *Path, v ssa.Value) Value {
	switch x := v.(type) {
	case *ssa.Const:
		return c.constValue(x)
	case *ssa.Global:
		return Pointer{Obj: c.ld.globalObj(x)}
	case *ssa.Function:
		return FuncV{Fn: x}
	case *ssa.Builtin:
		return FuncV{Bi: x}
	}
	r, ok := p.env[v]
	if !ok {
		fail("use of undefined SSA value %s (%s) in %s", v.Name(), v, v.Parent())
	}
	return r
}

func (c *Ctx) constValue(k *ssa.Const) Value {
	t := k.Type()
	if k.Value == nil {
		return zeroValue(t)
	}
	if w, _, ok := intWidth(t); ok {
		bi, ok := constant.Val(constant.ToInt(k.Value)).(*big.Int)
		if !ok {
			i64, _ := constant.Int64Val(constant.ToInt(k.Value))
			bi = big.NewInt(i64)
		}
		return BVC(bi, w)
	}
	if isBool(t) {
		return BoolC(constant.BoolVal(k.Value))
	}
	if isString(t) {
		return constant.StringVal(k.Value)
	}
	if b, ok := t.Underlying().(*types.Basic); ok && b.Info()&types.IsFloat != 0 {
		f, _ := constant.Float64Val(k.Value)
		return floatV(f)
	}
	fail("unsupported constant %v of type %v", k, t)
	return nil
}

type floatV float64

// ---------- block execution ----------

func (c *Ctx) runBlock(fr *frame, p *Path, blk *ssa.BasicBlock, start int) {
	st := p.st
	c.nInstr += int64(len(blk.Instrs) - start)
	if c.maxInstr > 0 && c.nInstr > c.maxInstr {
		fail("instruction budget exceeded")
	}
	for i := start; i < len(blk.Instrs); i++ {
		switch in := blk.Instrs[i].(type) {
		case *ssa.Phi, *ssa.DebugRef:
			// phis are assigned on the incoming edge
		case *ssa.Alloc:
			t := in.Type().Underlying().(*types.Pointer).Elem()
			nm := in.Comment
			if nm == "" {
				nm = in.Name()
			}
			p.env[in] = st.newObject(c, fr.fn.Name()+"."+nm, t, zeroValue(t))
		case *ssa.BinOp:
			p.env[in] = c.binop(st, in, c.eval(p, in.X), c.eval(p, in.Y))
		case *ssa.UnOp:
			p.env[in] = c.unop(st, in, c.eval(p, in.X))
		case *ssa.Store:
			addr := c.eval(p, in.Addr).(Pointer)
			c.checkIndexLeak(st, addr, in)
			st.store(addr, c.eval(p, in.Val))
		case *ssa.FieldAddr:
			base := c.eval(p, in.X).(Pointer)
			if base.IsNil() {
				c.recordPanic(st, in, "nil pointer dereference")
				return
			}
			c.checkGuarded(st, in, base)
			p.env[in] = base.child(PathElem{Idx: in.Field})
		case *ssa.Field:
			p.env[in] = c.eval(p, in.X).(*StructV).F[in.Field]
		case *ssa.IndexAddr:
			v, ok := c.indexAddr(st, in, c.eval(p, in.X), c.eval(p, in.Index))
			if !ok {
				return
			}
			p.env[in] = v
		case *ssa.Index:
			v, ok := c.index(st, in, c.eval(p, in.X), c.eval(p, in.Index))
			if !ok {
				return
			}
			p.env[in] = v
		case *ssa.Slice:
			v, ok := c.sliceOp(st, in, p)
			if !ok {
				return
			}
			p.env[in] = v
		case *ssa.Convert:
			p.env[in] = c.convert(st, in, c.eval(p, in.X))
		case *ssa.ChangeType:
			p.env[in] = c.eval(p, in.X)
		case *ssa.ChangeInterface:
			p.env[in] = c.eval(p, in.X)
		case *ssa.MakeInterface:
			p.env[in] = IfaceV{T: in.X.Type(), V: c.eval(p, in.X)}
		case *ssa.MakeClosure:
			var bind []Value
			for _, b := range in.Bindings {
				bind = append(bind, c.eval(p, b))
			}
			p.env[in] = FuncV{Fn: in.Fn.(*ssa.Function), Bind: bind}
		case *ssa.MakeSlice:
			n, ok1 := concreteInt(c.eval(p, in.Len))
			cp, ok2 := concreteInt(c.eval(p, in.Cap))
			if !ok1 || !ok2 {
				fail("make([]T) with symbolic size at %s", c.posOf(in))
			}
			et := in.Type().Underlying().(*types.Slice).Elem()
			arr := zeroValue(types.NewArray(et, int64(cp)))
			ptr := st.newObject(c, "make@"+c.posOf(in), types.NewArray(et, int64(cp)), arr)
			p.env[in] = SliceV{Base: ptr, Off: 0, Len: n, Cap: cp}
		case *ssa.MakeMap:
			p.env[in] = &MapV{}
		case *ssa.MapUpdate:
			c.mapUpdate(st, p, in)
		case *ssa.Lookup:
			p.env[in] = c.lookup(st, p, in)
		case *ssa.SliceToArrayPointer:
			s := c.eval(p, in.X).(SliceV)
			n := int(in.Type().Underlying().(*types.Pointer).Elem().Underlying().(*types.Array).Len())
			if s.Len < n {
				c.recordPanic(st, in, "slice to array pointer: length too short")
				return
			}
			p.env[in] = c.subArrayPointer(st, s, n)
		case *ssa.Extract:
			p.env[in] = c.eval(p, in.Tuple).(*TupleV).E[in.Index]
		case *ssa.TypeAssert:
			v, ok := c.typeAssert(st, in, c.eval(p, in.X))
			if !ok {
				return
			}
			p.env[in] = v
		case *ssa.Range:
			p.env[in] = c.rangeInit(st, in, c.eval(p, in.X))
		case *ssa.Next:
			p.env[in] = c.rangeNext(st, in, p)
		case *ssa.Call:
			outs := c.doCall(p, &in.Call, in)
			if len(outs) == 0 {
				return
			}
			for _, o := range outs[1:] {
				q := &Path{st: o.st, env: cloneEnv(p.env), defers: append([]deferred(nil), p.defers...)}
				q.env[in] = o.ret
				c.runBlock(fr, q, blk, i+1)
			}
			p.st = outs[0].st
			st = p.st
			p.env[in] = outs[0].ret
		case *ssa.Defer:
			fnv, args := c.prepareCall(p, &in.Call)
			p.defers = append(p.defers, deferred{fn: fnv, args: args, call: &in.Call})
		case *ssa.RunDefers:
			for len(p.defers) > 0 {
				d := p.defers[len(p.defers)-1]
				p.defers = p.defers[:len(p.defers)-1]
				outs := c.invoke(p.st, d.fn, d.args, d.call, in)
				if len(outs) != 1 {
					fail("deferred call forked or ended the path")
				}
				p.st = outs[0].st
				st = p.st
			}
		case *ssa.If:
			cond := termOf(c.eval(p, in.Cond))
			if cond.IsConst() {
				k := 1
				if cond.IsTrue() {
					k = 0
				}
				c.transfer(fr, p, blk, k)
				return
			}
			c.checkBranchLeak(st, cond, in)
			tFeas, fFeas := true, true
			switch st.pc.implies(cond) {
			case 1:
				fFeas = false
			case -1:
				tFeas = false
			}
			if tFeas && fFeas && c.feasAfter > 0 && c.inLoopBeyond(fr, blk, c.feasAfter) {
				tFeas = c.feasible(st, cond)
				fFeas = c.feasible(st, Not(cond))
			}
			var q *Path
			if tFeas && fFeas {
				q = p.fork()
			} else {
				q = p
			}
			if tFeas {
				p.st.pc = p.st.pc.and(cond)
				c.transfer(fr, p, blk, 0)
			}
			if fFeas {
				q.st.pc = q.st.pc.and(Not(cond))
				c.transfer(fr, q, blk, 1)
			}
			return
		case *ssa.Jump:
			c.transfer(fr, p, blk, 0)
			return
		case *ssa.Return:
			var rv Value
			switch len(in.Results) {
			case 0:
			case 1:
				rv = c.eval(p, in.Results[0])
			default:
				t := &TupleV{}
				for _, r := range in.Results {
					t.E = append(t.E, c.eval(p, r))
				}
				rv = t
			}
			fr.returns = append(fr.returns, p)
			fr.retVals = append(fr.retVals, rv)
			return
		case *ssa.Panic:
			msg := "panic"
			if iv, ok := c.eval(p, in.X).(IfaceV); ok {
				if s, ok := iv.V.(string); ok {
					msg = "panic: " + s
				} else if iv.T != nil {
					msg = "panic: value of type " + iv.T.String()
				}
			}
			c.recordPanic(st, in, msg)
			return
		default:
			fail("unsupported instruction %T (%s) at %s", in, in, c.posOf(in))
		}
	}
}

func cloneEnv(e map[ssa.Value]Value) map[ssa.Value]Value {
	n := make(map[ssa.Value]Value, len(e))
	for k, v := range e {
		n[k] = v
	}
	return n
}

func (c *Ctx) inLoopBeyond(fr *frame, blk *ssa.BasicBlock, n int) bool {
	for h, l := range fr.info.latch {
		if fr.info.pos[blk] >= fr.info.pos[h] && fr.info.pos[blk] <= fr.info.lastIn[h] && fr.latchN[l] >= n {
			return true
		}
	}
	return false
}

func (c *Ctx) feasible(st *State, cond *Term) bool {
	f := And(st.pc.term(), cond)
	if f.IsFalse() {
		return false
	}
	if f.IsTrue() {
		return true
	}
	r := Solve(SMTScript([]*Term{f}), nil, 10e9, []string{"z3new"})
	return r.Status != "unsat"
}

func (c *Ctx) recordPanic(st *State, in ssa.Instruction, msg string) {
	pos := c.posOf(in)
	full := msg + " @" + pos
	if c.allowPanic != nil && c.allowPanic.MatchString(full) {
		return
	}
	if c.noPanicObs {
		return
	}
	c.addOb(st, "panic", "nopanic: "+full, pos, FalseT)
}

// ---------- calls ----------

func (c *Ctx) prepareCall(p *Path, call *ssa.CallCommon) (Value, []Value) {
	var args []Value
	if call.IsInvoke() {
		recv := c.eval(p, call.Value)
		for _, a := range call.Args {
			args = append(args, c.eval(p, a))
		}
		return recv, args
	}
	fnv := c.eval(p, call.Value)
	for _, a := range call.Args {
		args = append(args, c.eval(p, a))
	}
	return fnv, args
}

func (c *Ctx) doCall(p *Path, call *ssa.CallCommon, site ssa.Instruction) []Outcome {
	fnv, args := c.prepareCall(p, call)
	return c.invoke(p.st, fnv, args, call, site)
}

func (c *Ctx) invoke(st *State, fnv Value, args []Value, call *ssa.CallCommon, site ssa.Instruction) []Outcome {
	if call.IsInvoke() {
		iv, ok := fnv.(IfaceV)
		if !ok || iv.T == nil {
			c.recordPanic(st, site, "nil interface method call")
			return nil
		}
		ms := c.ld.prog.MethodSets.MethodSet(iv.T)
		sel := ms.Lookup(call.Method.Pkg(), call.Method.Name())
		if sel == nil {
			fail("method %s not found on %s", call.Method.Name(), iv.T)
		}
		fn := c.ld.prog.MethodValue(sel)
		if fn == nil {
			fail("no method value for %s.%s", iv.T, call.Method.Name())
		}
		return c.callFunction(fn, append([]Value{iv.V}, args...), nil, st, site)
	}
	f, ok := fnv.(FuncV)
	if !ok {
		fail("call of non-function %T at %s", fnv, c.posOf(site))
	}
	if f.Bi != nil {
		return []Outcome{{st, c.builtin(st, f.Bi, args, call, site)}}
	}
	if f.Fn == nil {
		c.recordPanic(st, site, "call of nil function")
		return nil
	}
	return c.callFunction(f.Fn, args, f.Bind, st, site)
}

func (c *Ctx) builtin(st *State, b *ssa.Builtin, args []Value, call *ssa.CallCommon, site ssa.Instruction) Value {
	switch b.Name() {
	case "len":
		switch x := args[0].(type) {
		case SliceV:
			return BVI(int64(x.Len), 64)
		case string:
			return BVI(int64(len(x)), 64)
		case symString:
			return BVI(int64(len(x.vals)), 64)
		case *ArrayV:
			return BVI(int64(len(x.E)), 64)
		case *MapV:
			if x == nil {
				return BVI(0, 64)
			}
			return BVI(int64(len(c.mapGet(st, x).Keys)), 64)
		case Pointer:
			if at, ok := call.Args[0].Type().Underlying().(*types.Pointer); ok {
				return BVI(at.Elem().Underlying().(*types.Array).Len(), 64)
			}
		}
		fail("len of %T", args[0])
	case "cap":
		switch x := args[0].(type) {
		case SliceV:
			return BVI(int64(x.Cap), 64)
		case *ArrayV:
			return BVI(int64(len(x.E)), 64)
		}
		fail("cap of %T", args[0])
	case "copy":
		dst := args[0].(SliceV)
		var src []Value
		switch s := args[1].(type) {
		case SliceV:
			src = st.sliceLoadAll(s)
		case string:
			for i := 0; i < len(s); i++ {
				src = append(src, BVU(uint64(s[i]), 8))
			}
		default:
			fail("copy from %T", args[1])
		}
		n := dst.Len
		if len(src) < n {
			n = len(src)
		}
		st.sliceStoreAll(dst, append([]Value(nil), src[:n]...))
		return BVI(int64(n), 64)
	case "append":
		dst := args[0].(SliceV)
		var add []Value
		switch s := args[1].(type) {
		case SliceV:
			add = append(add, st.sliceLoadAll(s)...)
		case string:
			for i := 0; i < len(s); i++ {
				add = append(add, BVU(uint64(s[i]), 8))
			}
		default:
			fail("append of %T", args[1])
		}
		if len(add) == 0 {
			return dst
		}
		if dst.Len+len(add) <= dst.Cap && !dst.IsNil() {
			ns := SliceV{Base: dst.Base, Off: dst.Off + dst.Len, Len: len(add), Cap: dst.Cap - dst.Len}
			st.sliceStoreAll(ns, add)
			return SliceV{Base: dst.Base, Off: dst.Off, Len: dst.Len + len(add), Cap: dst.Cap}
		}
		et := call.Args[0].Type().Underlying().(*types.Slice).Elem()
		old := st.sliceLoadAll(dst)
		ncap := (dst.Len + len(add)) * 2
		arr := &ArrayV{E: make([]Value, ncap)}
		copy(arr.E, old)
		copy(arr.E[len(old):], add)
		z := zeroValue(et)
		for i := len(old) + len(add); i < ncap; i++ {
			arr.E[i] = z
		}
		ptr := st.newObject(c, "append@"+c.posOf(site), types.NewArray(et, int64(ncap)), arr)
		return SliceV{Base: ptr, Off: 0, Len: len(old) + len(add), Cap: ncap}
	case "delete":
		m := args[0].(*MapV)
		c.mapDelete(st, m, args[1], call, site)
		return nil
	case "print", "println":
		return nil
	case "ssa:wrapnilchk":
		return args[0]
	case "min", "max":
		a, b2 := termOf(args[0]), termOf(args[1])
		_, signed, _ := intWidth(call.Args[0].Type())
		var lt *Term
		if signed {
			lt = BvSlt(a, b2)
		} else {
			lt = BvUlt(a, b2)
		}
		if b.Name() == "min" {
			return Ite(lt, a, b2)
		}
		return Ite(lt, b2, a)
	}
	fail("unsupported builtin %s", b.Name())
	return nil
}

// ---------- operators ----------

func (c *Ctx) binop(st *State, in *ssa.BinOp, x, y Value) Value {
	switch a := x.(type) {
	case *Term:
		b := termOf(y)
		if a.sort.K == KBool {
			switch in.Op {
			case token.EQL:
				return Eq(a, b)
			case token.NEQ:
				return Not(Eq(a, b))
			case token.AND, token.LAND:
				return And(a, b)
			case token.OR, token.LOR:
				return Or(a, b)
			}
			fail("bool binop %v", in.Op)
		}
		if a.sort.K == KInt {
			fail("Go operator on ghost Int")
		}
		_, signed, _ := intWidth(in.X.Type())
		w := a.sort.W
		switch in.Op {
		case token.ADD:
			return BvAdd(a, b)
		case token.SUB:
			return BvSub(a, b)
		case token.MUL:
			return BvMul(a, b)
		case token.QUO, token.REM:
			c.checkOperandLeak(st, b, in, "divisor")
			c.checkOperandLeak(st, a, in, "dividend")
			c.addOb(st, "panic", "nopanic: division by zero @"+c.posOf(in), c.posOf(in), Not(Eq(b, BVU(0, w))))
			st.pc = st.pc.and(Not(Eq(b, BVU(0, w))))
			if signed {
				if in.Op == token.QUO {
					return bvDivOp(OBvSdiv, a, b)
				}
				return bvDivOp(OBvSrem, a, b)
			}
			if in.Op == token.QUO {
				return bvDivOp(OBvUdiv, a, b)
			}
			return bvDivOp(OBvUrem, a, b)
		case token.AND:
			return BvAnd(a, b)
		case token.OR:
			return BvOr(a, b)
		case token.XOR:
			return BvXor(a, b)
		case token.AND_NOT:
			return BvAnd(a, BvNot(b))
		case token.SHL, token.SHR:
			amt := shiftAmount(b, w)
			if in.Op == token.SHL {
				return BvShl(a, amt)
			}
			if signed {
				return BvAshr(a, amt)
			}
			return BvLshr(a, amt)
		case token.EQL:
			return Eq(a, b)
		case token.NEQ:
			return Not(Eq(a, b))
		case token.LSS:
			if signed {
				return BvSlt(a, b)
			}
			return BvUlt(a, b)
		case token.LEQ:
			if signed {
				return BvSle(a, b)
			}
			return BvUle(a, b)
		case token.GTR:
			if signed {
				return BvSlt(b, a)
			}
			return BvUlt(b, a)
		case token.GEQ:
			if signed {
				return BvSle(b, a)
			}
			return BvUle(b, a)
		}
		fail("int binop %v", in.Op)
	case symString:
		return c.symStringBinop(in.Op, a.vals, strVals(y))
	case string:
		if ys, ok := y.(symString); ok {
			return c.symStringBinop(in.Op, strVals(a), ys.vals)
		}
		b, ok := y.(string)
		if !ok {
			fail("string binop with %T", y)
		}
		switch in.Op {
		case token.ADD:
			return a + b
		case token.EQL:
			return BoolC(a == b)
		case token.NEQ:
			return BoolC(a != b)
		case token.LSS:
			return BoolC(a < b)
		}
		fail("string binop %v", in.Op)
	case Pointer:
		b := y.(Pointer)
		eq := a.equal(b)
		if in.Op == token.EQL {
			return BoolC(eq)
		}
		return BoolC(!eq)
	case IfaceV:
		b := y.(IfaceV)
		var eq *Term
		switch {
		case a.T == nil || b.T == nil:
			eq = BoolC(a.T == nil && b.T == nil)
		case !types.Identical(a.T, b.T):
			eq = FalseT
		default:
			eq = c.valueEq(a.V, b.V)
		}
		if in.Op == token.EQL {
			return eq
		}
		return Not(eq)
	case SliceV:
		// only comparison with nil
		b := y.(SliceV)
		eq := a.IsNil() && b.IsNil()
		if !a.IsNil() && !b.IsNil() {
			fail("slice comparison")
		}
		if in.Op == token.EQL {
			return BoolC(eq)
		}
		return BoolC(!eq)
	case FuncV:
		b := y.(FuncV)
		eq := (a.Fn == nil && a.Bi == nil) == (b.Fn == nil && b.Bi == nil)
		if in.Op == token.EQL {
			return BoolC(eq)
		}
		return BoolC(!eq)
	case *MapV:
		b := y.(*MapV)
		eq := (a == nil) == (b == nil)
		if in.Op == token.EQL {
			return BoolC(eq)
		}
		return BoolC(!eq)
	case *StructV, *ArrayV:
		eq := c.valueEq(x, y)
		if in.Op == token.EQL {
			return eq
		}
		return Not(eq)
	case floatV:
		b := y.(floatV)
		switch in.Op {
		case token.ADD:
			return a + b
		case token.SUB:
			return a - b
		case token.MUL:
			return a * b
		case token.QUO:
			return a / b
		case token.LSS:
			return BoolC(a < b)
		case token.GTR:
			return BoolC(a > b)
		}
	}
	fail("binop %v on %T at %s", in.Op, x, c.posOf(in))
	return nil
}

func (c *Ctx) valueEq(x, y Value) *Term {
	switch a := x.(type) {
	case *Term:
		return Eq(a, termOf(y))
	case *StructV:
		b := y.(*StructV)
		r := TrueT
		for i := range a.F {
			r = And(r, c.valueEq(a.F[i], b.F[i]))
		}
		return r
	case *ArrayV:
		b := y.(*ArrayV)
		r := TrueT
		for i := range a.E {
			r = And(r, c.valueEq(a.E[i], b.E[i]))
		}
		return r
	case string:
		return BoolC(a == y.(string))
	case Pointer:
		return BoolC(a.equal(y.(Pointer)))
	case IfaceV:
		b := y.(IfaceV)
		if a.T == nil || b.T == nil {
			return BoolC(a.T == nil && b.T == nil)
		}
		if !types.Identical(a.T, b.T) {
			return FalseT
		}
		return c.valueEq(a.V, b.V)
	}
	fail("valueEq on %T", x)
	return nil
}

// shiftAmount converts a Go shift count to the width of the shifted operand with saturation.
func shiftAmount(b *Term, w int) *Term {
	bw := b.sort.W
	switch {
	case bw == w:
		return b
	case bw < w:
		return Zext(b, w)
	default:
		if b.IsConst() {
			if b.val.Cmp(big.NewInt(int64(w))) >= 0 {
				return BVU(uint64(w), w)
			}
			return BVC(b.val, w)
		}
		return Ite(BvUlt(b, BVU(uint64(w), bw)), Extract(b, w-1, 0), BVU(uint64(w), w))
	}
}

func (c *Ctx) unop(st *State, in *ssa.UnOp, x Value) Value {
	switch in.Op {
	case token.MUL:
		p := x.(Pointer)
		if p.IsNil() {
			c.recordPanic(st, in, "nil pointer dereference")
			// continue with a zero value on a dead path: make the path infeasible
			st.pc = st.pc.and(FalseT)
			return zeroValue(in.Type())
		}
		c.checkIndexLeak(st, p, in)
		return st.load(p)
	case token.NOT:
		return Not(termOf(x))
	case token.SUB:
		if f, ok := x.(floatV); ok {
			return -f
		}
		return BvNeg(termOf(x))
	case token.XOR:
		return BvNot(termOf(x))
	}
	fail("unop %v", in.Op)
	return nil
}

func (c *Ctx) convert(st *State, in *ssa.Convert, x Value) Value {
	from, to := in.X.Type(), in.Type()
	if tw, _, ok := intWidth(to); ok {
		if _, fs, ok2 := intWidth(from); ok2 {
			return Resize(termOf(x), tw, fs)
		}
		if f, ok := x.(floatV); ok {
			return BVI(int64(f), tw)
		}
	}
	if tb, ok := to.Underlying().(*types.Basic); ok && tb.Info()&types.IsFloat != 0 {
		if t, ok := x.(*Term); ok && t.IsConst() {
			_, fs, _ := intWidth(from)
			if fs {
				return floatV(float64(toSigned(t.val, t.sort.W).Int64()))
			}
			return floatV(float64(t.val.Uint64()))
		}
		if f, ok := x.(floatV); ok {
			return f
		}
	}
	if isString(to) {
		switch s := x.(type) {
		case SliceV:
			vals := st.sliceLoadAll(s)
			buf := make([]byte, len(vals))
			for i, v := range vals {
				n, ok := concreteInt(v)
				if !ok {
					return symString{vals: append([]Value(nil), vals...)}
				}
				buf[i] = byte(n)
			}
			return string(buf)
		case string:
			return s
		case *Term:
			if s.IsConst() {
				return string(rune(s.val.Int64()))
			}
		}
	}
	if sl, ok := to.Underlying().(*types.Slice); ok {
		if s, ok := x.(string); ok {
			arr := &ArrayV{E: make([]Value, len(s))}
			for i := 0; i < len(s); i++ {
				arr.E[i] = BVU(uint64(s[i]), 8)
			}
			ptr := st.newObject(c, "str2bytes", types.NewArray(sl.Elem(), int64(len(s))), arr)
			return SliceV{Base: ptr, Off: 0, Len: len(s), Cap: len(s)}
		}
		if ss, ok := x.(symString); ok {
			arr := &ArrayV{E: append([]Value(nil), ss.vals...)}
			ptr := st.newObject(c, "str2bytes", types.NewArray(sl.Elem(), int64(len(ss.vals))), arr)
			return SliceV{Base: ptr, Off: 0, Len: len(ss.vals), Cap: len(ss.vals)}
		}
	}
	if _, ok := to.Underlying().(*types.Pointer); ok {
		return x // unsafe.Pointer round trips
	}
	if b, ok := to.Underlying().(*types.Basic); ok && b.Kind() == types.UnsafePointer {
		return x
	}
	fail("unsupported conversion %v -> %v at %s", from, to, c.posOf(in))
	return nil
}

// symString is a string with symbolic bytes (only produced by string(b) on symbolic data).
type symString struct{ vals []Value }

func (c *Ctx) boundsOb(st *State, in ssa.Instruction, idx *Term, n int, what string) bool {
	// idx is a BV64 interpreted as signed int; in range iff idx <u n
	ok := BvUlt(idx, BVI(int64(n), 64))
	if ok.IsTrue() {
		return true
	}
	pos := c.posOf(in)
	if ok.IsFalse() {
		c.recordPanic(st, in, what+" out of range")
		return false
	}
	if !(c.allowPanic != nil && c.allowPanic.MatchString(what+" out of range @"+pos)) && !c.noPanicObs {
		c.addOb(st, "bounds", "nopanic: "+what+" out of range @"+pos, pos, ok)
	}
	st.pc = st.pc.and(ok)
	return true
}

func (c *Ctx) indexAddr(st *State, in *ssa.IndexAddr, x, idx Value) (Value, bool) {
	it := Resize(termOf(idx), 64, true)
	if _, s, _ := intWidth(in.Index.Type()); !s {
		it = Resize(termOf(idx), 64, false)
	}
	var base Pointer
	off, n := 0, 0
	switch b := x.(type) {
	case Pointer:
		if b.IsNil() {
			c.recordPanic(st, in, "nil pointer dereference")
			return nil, false
		}
		base = b
		n = int(in.X.Type().Underlying().(*types.Pointer).Elem().Underlying().(*types.Array).Len())
	case SliceV:
		base, off, n = b.Base, b.Off, b.Len
	default:
		fail("IndexAddr on %T", x)
	}
	if !c.boundsOb(st, in, it, n, "index") {
		return nil, false
	}
	if k, ok := concreteInt(it); ok {
		return base.child(PathElem{Idx: off + k}), true
	}
	c.checkOperandLeak(st, it, in, "index")
	sym := it
	if off != 0 {
		sym = BvAdd(it, BVI(int64(off), 64))
	}
	return base.child(PathElem{Idx: off, Sym: sym, N: n}), true
}

func (c *Ctx) index(st *State, in *ssa.Index, x, idx Value) (Value, bool) {
	it := Resize(termOf(idx), 64, true)
	switch b := x.(type) {
	case *ArrayV:
		if !c.boundsOb(st, in, it, len(b.E), "index") {
			return nil, false
		}
		if k, ok := concreteInt(it); ok {
			return b.E[k], true
		}
		c.checkOperandLeak(st, it, in, "index")
		return getPath(b, []PathElem{{Idx: 0, Sym: it, N: len(b.E)}}), true
	case string:
		if !c.boundsOb(st, in, it, len(b), "index") {
			return nil, false
		}
		if k, ok := concreteInt(it); ok {
			return BVU(uint64(b[k]), 8), true
		}
		arr := &ArrayV{}
		for i := 0; i < len(b); i++ {
			arr.E = append(arr.E, BVU(uint64(b[i]), 8))
		}
		return getPath(arr, []PathElem{{Idx: 0, Sym: it, N: len(b)}}), true
	}
	fail("Index on %T", x)
	return nil, false
}

func (c *Ctx) subArrayPointer(st *State, s SliceV, n int) Pointer {
	// a pointer to elements Off..Off+n of the backing array: only exact overlays are supported
	arr := st.load(s.Base).(*ArrayV)
	if s.Off == 0 && len(arr.E) == n {
		return s.Base
	}
	fail("slice-to-array-pointer of a strict sub-array (off=%d len=%d of %d)", s.Off, n, len(arr.E))
	return Pointer{}
}

func (c *Ctx) sliceOp(st *State, in *ssa.Slice, p *Path) (Value, bool) {
	x := c.eval(p, in.X)
	get := func(v ssa.Value, def int) (int, bool) {
		if v == nil {
			return def, true
		}
		k, ok := concreteInt(c.eval(p, v))
		if !ok {
			fail("symbolic slice bound at %s (case-split it in the harness)", c.posOf(in))
		}
		return k, true
	}
	switch b := x.(type) {
	case string:
		lo, _ := get(in.Low, 0)
		hi, _ := get(in.High, len(b))
		if lo < 0 || hi > len(b) || lo > hi {
			c.recordPanic(st, in, "slice bounds out of range")
			return nil, false
		}
		return b[lo:hi], true
	case Pointer:
		if b.IsNil() {
			c.recordPanic(st, in, "nil pointer dereference")
			return nil, false
		}
		n := int(in.X.Type().Underlying().(*types.Pointer).Elem().Underlying().(*types.Array).Len())
		lo, _ := get(in.Low, 0)
		hi, _ := get(in.High, n)
		mx, _ := get(in.Max, n)
		if lo < 0 || hi > mx || lo > hi || mx > n {
			c.recordPanic(st, in, "slice bounds out of range")
			return nil, false
		}
		return SliceV{Base: b, Off: lo, Len: hi - lo, Cap: mx - lo}, true
	case SliceV:
		lo, _ := get(in.Low, 0)
		hi, _ := get(in.High, b.Len)
		mx, _ := get(in.Max, b.Cap)
		if lo < 0 || hi > mx || lo > hi || mx > b.Cap {
			c.recordPanic(st, in, "slice bounds out of range")
			return nil, false
		}
		if b.IsNil() {
			return SliceV{}, true
		}
		return SliceV{Base: b.Base, Off: b.Off + lo, Len: hi - lo, Cap: mx - lo}, true
	}
	fail("Slice on %T", x)
	return nil, false
}

func (c *Ctx) typeAssert(st *State, in *ssa.TypeAssert, x Value) (Value, bool) {
	iv := x.(IfaceV)
	ok := false
	var res Value
	if iv.T != nil {
		if _, isIface := in.AssertedType.Underlying().(*types.Interface); isIface {
			ok = types.Implements(iv.T, in.AssertedType.Underlying().(*types.Interface))
			res = iv
		} else {
			ok = types.Identical(iv.T, in.AssertedType)
			res = iv.V
		}
	}
	if in.CommaOk {
		if !ok {
			res = zeroValue(in.AssertedType)
		}
		return &TupleV{E: []Value{res, BoolC(ok)}}, true
	}
	if !ok {
		c.recordPanic(st, in, "failed type assertion")
		return nil, false
	}
	return res, true
}

// ---------- maps (association lists; keys compared by value equality terms) ----------

func (c *Ctx) mapFind(m *MapV, key Value) (hit []*Term) {
	for _, k := range m.Keys {
		hit = append(hit, c.valueEq(k, key))
	}
	return
}

func (c *Ctx) mapUpdate(st *State, p *Path, in *ssa.MapUpdate) {
	mv := c.eval(p, in.Map)
	m := mv.(*MapV)
	if m == nil {
		c.recordPanic(st, in, "assignment to entry in nil map")
		return
	}
	key, val := c.eval(p, in.Key), c.eval(p, in.Value)
	// maps are reference values: they live in a heap object so that aliases observe updates
	c.mapStore(st, m, key, val)
}

// Maps are mutated in place (identity = the *MapV pointer held in ghost map storage).
func (c *Ctx) mapStore(st *State, m *MapV, key, val Value) {
	cur := c.mapGet(st, m)
	hits := c.mapFind(cur, key)
	n := &MapV{}
	found := FalseT
	for i := range cur.Keys {
		h := hits[i]
		if h.IsTrue() {
			n.Keys = append(n.Keys, cur.Keys[i])
			n.Vals = append(n.Vals, val)
			found = TrueT
			continue
		}
		if !h.IsFalse() {
			fail("map update with symbolically ambiguous key (case-split key equalities in the harness)")
		}
		n.Keys = append(n.Keys, cur.Keys[i])
		n.Vals = append(n.Vals, cur.Vals[i])
	}
	if !found.IsTrue() {
		n.Keys = append(n.Keys, key)
		n.Vals = append(n.Vals, val)
	}
	st.ghost[mapKey(m)] = n
}

func mapKey(m *MapV) string { return fmt.Sprintf("map!%p", m) }

func (c *Ctx) mapGet(st *State, m *MapV) *MapV {
	if cur, ok := st.ghost[mapKey(m)]; ok {
		return cur.(*MapV)
	}
	return m
}

func (c *Ctx) mapDelete(st *State, m *MapV, key Value, call *ssa.CallCommon, site ssa.Instruction) {
	if m == nil {
		return
	}
	cur := c.mapGet(st, m)
	hits := c.mapFind(cur, key)
	n := &MapV{}
	for i := range cur.Keys {
		if hits[i].IsTrue() {
			continue
		}
		if !hits[i].IsFalse() {
			fail("map delete with symbolically ambiguous key")
		}
		n.Keys = append(n.Keys, cur.Keys[i])
		n.Vals = append(n.Vals, cur.Vals[i])
	}
	st.ghost[mapKey(m)] = n
}

func (c *Ctx) lookup(st *State, p *Path, in *ssa.Lookup) Value {
	x := c.eval(p, in.X)
	if s, ok := x.(string); ok {
		v, ok := c.index(st, nil, s, c.eval(p, in.Index))
		if !ok {
			fail("string index out of range")
		}
		return v
	}
	m := x.(*MapV)
	key := c.eval(p, in.Index)
	vt := in.X.Type().Underlying().(*types.Map).Elem()
	var res Value = zeroValue(vt)
	okT := FalseT
	if m != nil {
		cur := c.mapGet(st, m)
		hits := c.mapFind(cur, key)
		for i := range cur.Keys {
			if hits[i].IsTrue() {
				res, okT = cur.Vals[i], TrueT
				break
			}
			if !hits[i].IsFalse() {
				fail("map lookup with symbolically ambiguous key (case-split key equalities in the harness)")
			}
		}
	}
	if in.CommaOk {
		return &TupleV{E: []Value{res, okT}}
	}
	return res
}

type rangeIter struct {
	keys []Value
	vals []Value
	i    int
	str  string
}

func (c *Ctx) rangeInit(st *State, in *ssa.Range, x Value) Value {
	switch v := x.(type) {
	case string:
		return &rangeIter{str: v}
	case *MapV:
		if v == nil {
			return &rangeIter{}
		}
		cur := c.mapGet(st, v)
		return &rangeIter{keys: cur.Keys, vals: cur.Vals}
	}
	fail("range over %T", x)
	return nil
}

func (c *Ctx) rangeNext(st *State, in *ssa.Next, p *Path) Value {
	it := c.eval(p, in.Iter).(*rangeIter)
	tt := in.Type().(*types.Tuple)
	if in.IsString {
		if it.i >= len(it.str) {
			return &TupleV{E: []Value{FalseT, BVI(0, 64), BVI(0, 32)}}
		}
		r := &TupleV{E: []Value{TrueT, BVI(int64(it.i), 64), BVI(int64(it.str[it.i]), 32)}}
		p.env[in.Iter] = &rangeIter{str: it.str, i: it.i + 1}
		return r
	}
	if it.i >= len(it.keys) {
		return &TupleV{E: []Value{FalseT, zeroValueOrNil(tt.At(1).Type()), zeroValueOrNil(tt.At(2).Type())}}
	}
	r := &TupleV{E: []Value{TrueT, it.keys[it.i], it.vals[it.i]}}
	p.env[in.Iter] = &rangeIter{keys: it.keys, vals: it.vals, i: it.i + 1}
	return r
}

func zeroValueOrNil(t types.Type) Value {
	if b, ok := t.(*types.Basic); ok && b.Kind() == types.Invalid {
		return nil
	}
	return zeroValue(t)
}

func sortedKeys(m map[string]int) []string {
	var ks []string
	for k := range m {
		ks = append(ks, k)
	}
	sort.Strings(ks)
	return ks
}

func strVals(v Value) []Value {
	switch x := v.(type) {
	case string:
		out := make([]Value, len(x))
		for i := 0; i < len(x); i++ {
			out[i] = BVU(uint64(x[i]), 8)
		}
		return out
	case symString:
		return x.vals
	}
	fail("string operand %T", v)
	return nil
}

func (c *Ctx) symStringBinop(op token.Token, a, b []Value) Value {
	switch op {
	case token.ADD:
		return symString{vals: append(append([]Value(nil), a...), b...)}
	case token.EQL, token.NEQ:
		eq := TrueT
		if len(a) != len(b) {
			eq = FalseT
		} else {
			for i := range a {
				eq = And(eq, Eq(termOf(a[i]), termOf(b[i])))
			}
		}
		if op == token.NEQ {
			return Not(eq)
		}
		return eq
	}
	fail("string binop %v on symbolic strings", op)
	return nil
}

package main

// Hash-consed term DAG with a constant-folding simplifier and an SMT-LIB2 printer.

import (
	"fmt"
	"math/big"
	"sort"
	"strconv"
	"strings"
	"sync"
	"sync/atomic"
)

type Kind uint8

const (
	KBool Kind = iota
	KBV
	KInt
)

type Sort struct {
	K Kind
	W int
}

var BoolSort = Sort{KBool, 0}
var IntSort = Sort{KInt, 0}

func BV(w int) Sort { return Sort{KBV, w} }

func (s Sort) String() string {
	switch s.K {
	case KBool:
		return "Bool"
	case KInt:
		return "Int"
	}
	return fmt.Sprintf("(_ BitVec %d)", s.W)
}

type Op uint8

const (
	OConst Op = iota
	OVar
	ONot
	OAnd
	OOr
	OEq
	OIte
	OBvAdd
	OBvSub
	OBvMul
	OBvNeg
	OBvNot
	OBvAnd
	OBvOr
	OBvXor
	OBvShl
	OBvLshr
	OBvAshr
	OBvUdiv
	OBvUrem
	OBvSdiv
	OBvSrem
	OBvUlt
	OBvUle
	OBvSlt
	OBvSle
	OExtract
	OConcat
	OZext
	OSext
	OIAdd
	OISub
	OIMul
	OIDiv
	OIMod
	OINeg
	OILt
	OILe
	OBv2Int // unsigned value of a bit-vector as an Int (expanded by the Int translation)
	OBv2IntS
	OUF
)

var opNames = map[Op]string{
	ONot: "not", OAnd: "and", OOr: "or", OEq: "=", OIte: "ite",
	OBvAdd: "bvadd", OBvSub: "bvsub", OBvMul: "bvmul", OBvNeg: "bvneg", OBvNot: "bvnot",
	OBvAnd: "bvand", OBvOr: "bvor", OBvXor: "bvxor", OBvShl: "bvshl", OBvLshr: "bvlshr", OBvAshr: "bvashr",
	OBvUdiv: "bvudiv", OBvUrem: "bvurem", OBvSdiv: "bvsdiv", OBvSrem: "bvsrem",
	OBvUlt: "bvult", OBvUle: "bvule", OBvSlt: "bvslt", OBvSle: "bvsle", OConcat: "concat",
	OIAdd: "+", OISub: "-", OIMul: "*", OIDiv: "div", OIMod: "mod", OINeg: "-", OILt: "<", OILe: "<=",
	OBv2Int: "bv2nat",
}

type Term struct {
	id   int64
	op   Op
	sort Sort
	args []*Term
	val  *big.Int // OConst (Bool: 0/1)
	name string   // OVar, OUF
	p1   int      // extract hi / ext amount
	p2   int      // extract lo
}

func (t *Term) IsConst() bool { return t.op == OConst }
func (t *Term) IsTrue() bool  { return t.op == OConst && t.sort.K == KBool && t.val.Sign() != 0 }
func (t *Term) IsFalse() bool { return t.op == OConst && t.sort.K == KBool && t.val.Sign() == 0 }
func (t *Term) Width() int    { return t.sort.W }

const nShards = 256

type shard struct {
	mu sync.Mutex
	m  map[string]*Term
}

var shards = func() *[nShards]shard {
	s := new([nShards]shard)
	for i := range s {
		s[i].m = make(map[string]*Term)
	}
	return s
}()
var termCounter int64

func fnv(s string) uint32 {
	h := uint32(2166136261)
	for i := 0; i < len(s); i++ {
		h ^= uint32(s[i])
		h *= 16777619
	}
	return h
}

func intern(t *Term) *Term {
	var sb []byte
	sb = append(sb, byte(t.op), byte(t.sort.K))
	sb = strconv.AppendInt(sb, int64(t.sort.W), 36)
	sb = append(sb, '|')
	for _, a := range t.args {
		sb = strconv.AppendInt(sb, a.id, 36)
		sb = append(sb, ',')
	}
	if t.val != nil {
		sb = append(sb, '#')
		sb = t.val.Append(sb, 36)
	}
	if t.name != "" {
		sb = append(sb, '$')
		sb = append(sb, t.name...)
	}
	if t.op == OExtract || t.op == OZext || t.op == OSext {
		sb = append(sb, '@')
		sb = strconv.AppendInt(sb, int64(t.p1), 36)
		sb = append(sb, ':')
		sb = strconv.AppendInt(sb, int64(t.p2), 36)
	}
	key := string(sb)
	sh := &shards[fnv(key)%nShards]
	sh.mu.Lock()
	if e, ok := sh.m[key]; ok {
		sh.mu.Unlock()
		return e
	}
	t.id = atomic.AddInt64(&termCounter, 1)
	sh.m[key] = t
	sh.mu.Unlock()
	return t
}

var big0 = big.NewInt(0)
var big1 = big.NewInt(1)

func pow2(w int) *big.Int { return new(big.Int).Lsh(big1, uint(w)) }
func maskW(w int) *big.Int {
	return new(big.Int).Sub(pow2(w), big1)
}
func normW(v *big.Int, w int) *big.Int {
	r := new(big.Int).And(v, maskW(w))
	return r
}
func toSigned(v *big.Int, w int) *big.Int {
	if v.Bit(w-1) == 1 {
		return new(big.Int).Sub(v, pow2(w))
	}
	return new(big.Int).Set(v)
}

var TrueT = intern(&Term{op: OConst, sort: BoolSort, val: big.NewInt(1)})
var FalseT = intern(&Term{op: OConst, sort: BoolSort, val: big.NewInt(0)})

func BoolC(b bool) *Term {
	if b {
		return TrueT
	}
	return FalseT
}
func BVC(v *big.Int, w int) *Term {
	return intern(&Term{op: OConst, sort: BV(w), val: normW(v, w)})
}
func BVU(v uint64, w int) *Term { return BVC(new(big.Int).SetUint64(v), w) }
func BVI(v int64, w int) *Term  { return BVC(big.NewInt(v), w) }
func IntC(v *big.Int) *Term {
	return intern(&Term{op: OConst, sort: IntSort, val: new(big.Int).Set(v)})
}
func IntI(v int64) *Term { return IntC(big.NewInt(v)) }
func Var(name string, s Sort) *Term {
	return intern(&Term{op: OVar, sort: s, name: name})
}
func UF(name string, s Sort, args ...*Term) *Term {
	return intern(&Term{op: OUF, sort: s, name: name, args: args})
}

func mk(op Op, s Sort, args ...*Term) *Term {
	return intern(&Term{op: op, sort: s, args: args})
}

// ---------- boolean ----------

func Not(a *Term) *Term {
	if a.IsConst() {
		return BoolC(a.val.Sign() == 0)
	}
	if a.op == ONot {
		return a.args[0]
	}
	return mk(ONot, BoolSort, a)
}

func isComplement(a, b *Term) bool {
	return (a.op == ONot && a.args[0] == b) || (b.op == ONot && b.args[0] == a)
}

func And(a, b *Term) *Term {
	if a.IsConst() {
		if a.IsTrue() {
			return b
		}
		return FalseT
	}
	if b.IsConst() {
		if b.IsTrue() {
			return a
		}
		return FalseT
	}
	if a == b {
		return a
	}
	if isComplement(a, b) {
		return FalseT
	}
	// absorb: a ∧ (a ∧ x)
	if b.op == OAnd && (b.args[0] == a || b.args[1] == a) {
		return b
	}
	if a.op == OAnd && (a.args[0] == b || a.args[1] == b) {
		return a
	}
	if a.id > b.id {
		a, b = b, a
	}
	return mk(OAnd, BoolSort, a, b)
}

func Or(a, b *Term) *Term {
	if a.IsConst() {
		if a.IsTrue() {
			return TrueT
		}
		return b
	}
	if b.IsConst() {
		if b.IsTrue() {
			return TrueT
		}
		return a
	}
	if a == b {
		return a
	}
	if isComplement(a, b) {
		return TrueT
	}
	// (x ∧ c) ∨ (x ∧ ¬c) = x   (typical path-condition merge)
	if a.op == OAnd && b.op == OAnd {
		for i := 0; i < 2; i++ {
			for j := 0; j < 2; j++ {
				if a.args[i] == b.args[j] && isComplement(a.args[1-i], b.args[1-j]) {
					return a.args[i]
				}
			}
		}
	}
	if a.id > b.id {
		a, b = b, a
	}
	return mk(OOr, BoolSort, a, b)
}

func Implies(a, b *Term) *Term { return Or(Not(a), b) }

func AndAll(ts ...*Term) *Term {
	r := TrueT
	for _, t := range ts {
		r = And(r, t)
	}
	return r
}

func Eq(a, b *Term) *Term {
	if a.sort != b.sort {
		panic(fmt.Sprintf("Eq sort mismatch %v %v", a.sort, b.sort))
	}
	if a == b {
		return TrueT
	}
	if a.IsConst() && b.IsConst() {
		return BoolC(a.val.Cmp(b.val) == 0)
	}
	if a.sort.K == KBool {
		if a.IsConst() {
			a, b = b, a
		}
		if b.IsConst() {
			if b.IsTrue() {
				return a
			}
			return Not(a)
		}
	}
	// eq(ite(c,k1,k2), k) with constants
	if b.IsConst() && a.op == OIte && a.args[1].IsConst() && a.args[2].IsConst() {
		e1 := a.args[1].val.Cmp(b.val) == 0
		e2 := a.args[2].val.Cmp(b.val) == 0
		switch {
		case e1 && e2:
			return TrueT
		case e1:
			return a.args[0]
		case e2:
			return Not(a.args[0])
		default:
			return FalseT
		}
	}
	if a.IsConst() && b.op == OIte && b.args[1].IsConst() && b.args[2].IsConst() {
		return Eq(b, a)
	}
	// eq(zext(x), const)
	if b.IsConst() && a.op == OZext {
		iw := a.args[0].sort.W
		if b.val.BitLen() > iw {
			return FalseT
		}
		return Eq(a.args[0], BVC(b.val, iw))
	}
	if a.id > b.id {
		a, b = b, a
	}
	return mk(OEq, BoolSort, a, b)
}

func Ite(c, a, b *Term) *Term {
	if a.sort != b.sort {
		panic(fmt.Sprintf("Ite sort mismatch %v %v", a.sort, b.sort))
	}
	if c.IsConst() {
		if c.IsTrue() {
			return a
		}
		return b
	}
	if a == b {
		return a
	}
	if a.sort.K == KBool {
		if a.IsConst() && b.IsConst() {
			if a.IsTrue() {
				return c
			}
			return Not(c)
		}
		if a.IsConst() {
			if a.IsTrue() {
				return Or(c, b)
			}
			return And(Not(c), b)
		}
		if b.IsConst() {
			if b.IsTrue() {
				return Or(Not(c), a)
			}
			return And(c, a)
		}
	}
	if c.op == ONot {
		return Ite(c.args[0], b, a)
	}
	if a.op == OIte && a.args[0] == c {
		a = a.args[1]
	}
	if b.op == OIte && b.args[0] == c {
		b = b.args[2]
	}
	if a == b {
		return a
	}
	return mk(OIte, a.sort, c, a, b)
}

// ---------- bit-vectors ----------

func chk2(a, b *Term) int {
	if a.sort.K != KBV || a.sort != b.sort {
		panic(fmt.Sprintf("bv op sort mismatch %v %v", a.sort, b.sort))
	}
	return a.sort.W
}

func BvAdd(a, b *Term) *Term {
	w := chk2(a, b)
	if a.IsConst() && b.IsConst() {
		return BVC(new(big.Int).Add(a.val, b.val), w)
	}
	if a.IsConst() {
		a, b = b, a
	}
	if b.IsConst() {
		if b.val.Sign() == 0 {
			return a
		}
		if a.op == OBvAdd && a.args[1].IsConst() {
			return BvAdd(a.args[0], BVC(new(big.Int).Add(a.args[1].val, b.val), w))
		}
	}
	return mk(OBvAdd, a.sort, a, b)
}

func BvSub(a, b *Term) *Term {
	w := chk2(a, b)
	if a.IsConst() && b.IsConst() {
		return BVC(new(big.Int).Sub(a.val, b.val), w)
	}
	if a == b {
		return BVC(big0, w)
	}
	if b.IsConst() {
		if b.val.Sign() == 0 {
			return a
		}
		return BvAdd(a, BVC(new(big.Int).Neg(b.val), w))
	}
	if a.IsConst() && a.val.Sign() == 0 {
		return BvNeg(b)
	}
	return mk(OBvSub, a.sort, a, b)
}

func BvNeg(a *Term) *Term {
	if a.IsConst() {
		return BVC(new(big.Int).Neg(a.val), a.sort.W)
	}
	if a.op == OBvNeg {
		return a.args[0]
	}
	return mk(OBvNeg, a.sort, a)
}

func BvMul(a, b *Term) *Term {
	w := chk2(a, b)
	if a.IsConst() && b.IsConst() {
		return BVC(new(big.Int).Mul(a.val, b.val), w)
	}
	if a.IsConst() {
		a, b = b, a
	}
	if b.IsConst() {
		if b.val.Sign() == 0 {
			return b
		}
		if b.val.Cmp(big1) == 0 {
			return a
		}
	}
	return mk(OBvMul, a.sort, a, b)
}

func BvNot(a *Term) *Term {
	if a.IsConst() {
		return BVC(new(big.Int).Xor(a.val, maskW(a.sort.W)), a.sort.W)
	}
	if a.op == OBvNot {
		return a.args[0]
	}
	return mk(OBvNot, a.sort, a)
}

func isOnes(t *Term) bool { return t.IsConst() && t.val.Cmp(maskW(t.sort.W)) == 0 }
func isZero(t *Term) bool { return t.IsConst() && t.val.Sign() == 0 }

func BvAnd(a, b *Term) *Term {
	w := chk2(a, b)
	if a.IsConst() && b.IsConst() {
		return BVC(new(big.Int).And(a.val, b.val), w)
	}
	if a.IsConst() {
		a, b = b, a
	}
	if isZero(b) {
		return b
	}
	if isOnes(b) {
		return a
	}
	if a == b {
		return a
	}
	if b.IsConst() {
		// and(zext(x), mask) where mask covers x entirely
		if a.op == OZext {
			iw := a.args[0].sort.W
			if new(big.Int).And(b.val, maskW(iw)).Cmp(maskW(iw)) == 0 {
				return a
			}
		}
		if a.op == OBvAnd && a.args[1].IsConst() {
			return BvAnd(a.args[0], BVC(new(big.Int).And(a.args[1].val, b.val), w))
		}
	} else if a.id > b.id {
		a, b = b, a
	}
	return mk(OBvAnd, a.sort, a, b)
}

func BvOr(a, b *Term) *Term {
	w := chk2(a, b)
	if a.IsConst() && b.IsConst() {
		return BVC(new(big.Int).Or(a.val, b.val), w)
	}
	if a.IsConst() {
		a, b = b, a
	}
	if isZero(b) {
		return a
	}
	if isOnes(b) {
		return b
	}
	if a == b {
		return a
	}
	// x<<k | x>>(w-k) is a rotation: one canonical form (concat of two extracts)
	for i := 0; i < 2; i++ {
		l, r := a, b
		if i == 1 {
			l, r = b, a
		}
		if l.op == OBvShl && r.op == OBvLshr && l.args[0] == r.args[0] && l.args[1].IsConst() && r.args[1].IsConst() {
			k := int(l.args[1].val.Int64())
			if k > 0 && k < w && int(r.args[1].val.Int64()) == w-k {
				x := l.args[0]
				return Concat(Extract(x, w-1-k, 0), Extract(x, w-1, w-k))
			}
		}
	}
	if !b.IsConst() && a.id > b.id {
		a, b = b, a
	}
	return mk(OBvOr, a.sort, a, b)
}

// BvXor keeps xor chains in a canonical form: flattened, constants folded, operands sorted by id, equal pairs
// cancelled, rebuilt as a right-nested chain (so that two programs computing the same parity get ONE term).
func BvXor(a, b *Term) *Term {
	w := chk2(a, b)
	if a.IsConst() && b.IsConst() {
		return BVC(new(big.Int).Xor(a.val, b.val), w)
	}
	if a.op != OBvXor && b.op != OBvXor && !a.IsConst() && !b.IsConst() && a != b {
		if a.id > b.id {
			a, b = b, a
		}
		return mk(OBvXor, a.sort, a, b)
	}
	var leaves []*Term
	cst := new(big.Int)
	var collect func(t *Term)
	collect = func(t *Term) {
		for t.op == OBvXor {
			collect(t.args[0])
			t = t.args[1]
		}
		if t.IsConst() {
			cst.Xor(cst, t.val)
		} else {
			leaves = append(leaves, t)
		}
	}
	collect(a)
	collect(b)
	sort.Slice(leaves, func(i, j int) bool { return leaves[i].id < leaves[j].id })
	out := leaves[:0]
	for i := 0; i < len(leaves); i++ {
		if i+1 < len(leaves) && leaves[i] == leaves[i+1] {
			i++
			continue
		}
		out = append(out, leaves[i])
	}
	if len(out) == 0 {
		return BVC(cst, w)
	}
	r := out[len(out)-1]
	for i := len(out) - 2; i >= 0; i-- {
		r = mk(OBvXor, a.sort, out[i], r)
	}
	if cst.Sign() != 0 {
		if cst.Cmp(maskW(w)) == 0 && len(out) == 1 {
			return BvNot(out[0])
		}
		r = mk(OBvXor, a.sort, BVC(cst, w), r)
	}
	return r
}

func BvShl(a, b *Term) *Term {
	w := chk2(a, b)
	if b.IsConst() {
		if b.val.Cmp(big.NewInt(int64(w))) >= 0 {
			return BVC(big0, w)
		}
		k := uint(b.val.Uint64())
		if k == 0 {
			return a
		}
		if a.IsConst() {
			return BVC(new(big.Int).Lsh(a.val, k), w)
		}
	}
	if isZero(a) {
		return a
	}
	return mk(OBvShl, a.sort, a, b)
}

func BvLshr(a, b *Term) *Term {
	w := chk2(a, b)
	if b.IsConst() {
		if b.val.Cmp(big.NewInt(int64(w))) >= 0 {
			return BVC(big0, w)
		}
		k := uint(b.val.Uint64())
		if k == 0 {
			return a
		}
		if a.IsConst() {
			return BVC(new(big.Int).Rsh(a.val, k), w)
		}
		// lshr(zext(x), k) with k >= width(x) is 0
		if a.op == OZext && int(k) >= a.args[0].sort.W {
			return BVC(big0, w)
		}
	}
	if isZero(a) {
		return a
	}
	return mk(OBvLshr, a.sort, a, b)
}

func BvAshr(a, b *Term) *Term {
	w := chk2(a, b)
	if b.IsConst() {
		k := w
		if b.val.Cmp(big.NewInt(int64(w))) < 0 {
			k = int(b.val.Uint64())
		}
		if k == 0 {
			return a
		}
		if a.IsConst() {
			s := toSigned(a.val, w)
			if k >= w {
				k = w - 1
			}
			return BVC(new(big.Int).Rsh(s, uint(k)), w)
		}
		if k >= w {
			return mk(OBvAshr, a.sort, a, BVU(uint64(w-1), w))
		}
	}
	return mk(OBvAshr, a.sort, a, b)
}

func bvDivOp(op Op, a, b *Term) *Term {
	w := chk2(a, b)
	if a.IsConst() && b.IsConst() && b.val.Sign() != 0 {
		switch op {
		case OBvUdiv:
			return BVC(new(big.Int).Quo(a.val, b.val), w)
		case OBvUrem:
			return BVC(new(big.Int).Rem(a.val, b.val), w)
		case OBvSdiv:
			return BVC(new(big.Int).Quo(toSigned(a.val, w), toSigned(b.val, w)), w)
		case OBvSrem:
			return BVC(new(big.Int).Rem(toSigned(a.val, w), toSigned(b.val, w)), w)
		}
	}
	return mk(op, a.sort, a, b)
}

func bvCmp(op Op, a, b *Term) *Term {
	w := chk2(a, b)
	if a.IsConst() && b.IsConst() {
		var c int
		if op == OBvUlt || op == OBvUle {
			c = a.val.Cmp(b.val)
		} else {
			c = toSigned(a.val, w).Cmp(toSigned(b.val, w))
		}
		if op == OBvUlt || op == OBvSlt {
			return BoolC(c < 0)
		}
		return BoolC(c <= 0)
	}
	if a == b {
		return BoolC(op == OBvUle || op == OBvSle)
	}
	if op == OBvUlt && isZero(b) {
		return FalseT
	}
	if op == OBvUle && isZero(a) {
		return TrueT
	}
	// unsigned compare of zext(x) with a constant beyond x's range
	if (op == OBvUlt || op == OBvUle) && a.op == OZext && b.IsConst() && b.val.BitLen() > a.args[0].sort.W {
		return TrueT
	}
	if (op == OBvUlt || op == OBvUle) && a.op == OZext && b.op == OZext && a.args[0].sort == b.args[0].sort {
		return bvCmp(op, a.args[0], b.args[0])
	}
	return mk(op, BoolSort, a, b)
}

func BvUlt(a, b *Term) *Term { return bvCmp(OBvUlt, a, b) }
func BvUle(a, b *Term) *Term { return bvCmp(OBvUle, a, b) }
func BvSlt(a, b *Term) *Term { return bvCmp(OBvSlt, a, b) }
func BvSle(a, b *Term) *Term { return bvCmp(OBvSle, a, b) }

func Extract(a *Term, hi, lo int) *Term {
	w := a.sort.W
	if a.sort.K != KBV || hi >= w || lo < 0 || hi < lo {
		panic(fmt.Sprintf("bad extract [%d:%d] of %v", hi, lo, a.sort))
	}
	if lo == 0 && hi == w-1 {
		return a
	}
	nw := hi - lo + 1
	if a.IsConst() {
		return BVC(new(big.Int).Rsh(a.val, uint(lo)), nw)
	}
	switch a.op {
	case OBvLshr:
		if a.args[1].IsConst() {
			k := int(a.args[1].val.Int64())
			if hi+k < w {
				return Extract(a.args[0], hi+k, lo+k)
			}
			if lo+k >= w {
				return BVC(big0, nw)
			}
		}
	case OBvShl:
		if a.args[1].IsConst() {
			k := int(a.args[1].val.Int64())
			if lo >= k {
				return Extract(a.args[0], hi-k, lo-k)
			}
			if hi < k {
				return BVC(big0, nw)
			}
		}
	case OExtract:
		return Extract(a.args[0], a.p2+hi, a.p2+lo)
	case OZext:
		iw := a.args[0].sort.W
		if hi < iw {
			return Extract(a.args[0], hi, lo)
		}
		if lo >= iw {
			return BVC(big0, nw)
		}
		return Zext(Extract(a.args[0], iw-1, lo), nw)
	case OSext:
		iw := a.args[0].sort.W
		if hi < iw {
			return Extract(a.args[0], hi, lo)
		}
	case OConcat:
		lw := a.args[1].sort.W
		if hi < lw {
			return Extract(a.args[1], hi, lo)
		}
		if lo >= lw {
			return Extract(a.args[0], hi-lw, lo-lw)
		}
	case OBvAnd, OBvOr, OBvXor:
		if a.args[1].IsConst() || (simpleLeaf(a.args[0]) && simpleLeaf(a.args[1])) {
			x, y := Extract(a.args[0], hi, lo), Extract(a.args[1], hi, lo)
			switch a.op {
			case OBvAnd:
				return BvAnd(x, y)
			case OBvOr:
				return BvOr(x, y)
			default:
				return BvXor(x, y)
			}
		}
	case OBvAdd, OBvSub, OBvMul:
		if lo == 0 && simpleLeaf(a.args[0]) && simpleLeaf(a.args[1]) {
			x, y := Extract(a.args[0], hi, 0), Extract(a.args[1], hi, 0)
			switch a.op {
			case OBvAdd:
				return BvAdd(x, y)
			case OBvSub:
				return BvSub(x, y)
			default:
				return BvMul(x, y)
			}
		}
	case OIte:
		if a.args[1].IsConst() || a.args[2].IsConst() {
			return Ite(a.args[0], Extract(a.args[1], hi, lo), Extract(a.args[2], hi, lo))
		}
	}
	return intern(&Term{op: OExtract, sort: BV(nw), args: []*Term{a}, p1: hi, p2: lo})
}

// simpleLeaf: distribution of extract is only done one level deep (no exponential re-traversal of DAGs).
func simpleLeaf(t *Term) bool {
	switch t.op {
	case OConst, OVar, OZext, OSext, OConcat:
		return true
	case OExtract:
		return t.args[0].op == OVar
	}
	return false
}

func Concat(hi, lo *Term) *Term {
	w := hi.sort.W + lo.sort.W
	if hi.IsConst() && lo.IsConst() {
		v := new(big.Int).Lsh(hi.val, uint(lo.sort.W))
		return BVC(v.Or(v, lo.val), w)
	}
	if isZero(hi) {
		return Zext(lo, w)
	}
	// concat(extract(x,h,m+1), extract(x,m,l)) = extract(x,h,l)
	if hi.op == OExtract && lo.op == OExtract && hi.args[0] == lo.args[0] && hi.p2 == lo.p1+1 {
		return Extract(hi.args[0], hi.p1, lo.p2)
	}
	return mk(OConcat, BV(w), hi, lo)
}

func Zext(a *Term, w int) *Term {
	if a.sort.W == w {
		return a
	}
	if a.sort.W > w {
		panic("zext to narrower")
	}
	if a.IsConst() {
		return BVC(a.val, w)
	}
	if a.op == OZext {
		a = a.args[0]
	}
	return intern(&Term{op: OZext, sort: BV(w), args: []*Term{a}, p1: w - a.sort.W})
}

func Sext(a *Term, w int) *Term {
	if a.sort.W == w {
		return a
	}
	if a.IsConst() {
		return BVC(toSigned(a.val, a.sort.W), w)
	}
	if a.op == OZext {
		return Zext(a.args[0], w)
	}
	return intern(&Term{op: OSext, sort: BV(w), args: []*Term{a}, p1: w - a.sort.W})
}

// Resize converts between widths the way Go integer conversion does.
func Resize(a *Term, w int, signed bool) *Term {
	switch {
	case a.sort.W == w:
		return a
	case a.sort.W > w:
		return Extract(a, w-1, 0)
	case signed:
		return Sext(a, w)
	default:
		return Zext(a, w)
	}
}

func BoolToBV(c *Term, w int) *Term { return Ite(c, BVU(1, w), BVU(0, w)) }

// ---------- integers ----------

func IAdd(a, b *Term) *Term {
	if a.IsConst() && b.IsConst() {
		return IntC(new(big.Int).Add(a.val, b.val))
	}
	if a.IsConst() && a.val.Sign() == 0 {
		return b
	}
	if b.IsConst() && b.val.Sign() == 0 {
		return a
	}
	return mk(OIAdd, IntSort, a, b)
}
func ISub(a, b *Term) *Term {
	if a.IsConst() && b.IsConst() {
		return IntC(new(big.Int).Sub(a.val, b.val))
	}
	if b.IsConst() && b.val.Sign() == 0 {
		return a
	}
	if a == b {
		return IntI(0)
	}
	return mk(OISub, IntSort, a, b)
}
func IMul(a, b *Term) *Term {
	if a.IsConst() && b.IsConst() {
		return IntC(new(big.Int).Mul(a.val, b.val))
	}
	if a.IsConst() {
		a, b = b, a
	}
	if b.IsConst() {
		if b.val.Sign() == 0 {
			return b
		}
		if b.val.Cmp(big1) == 0 {
			return a
		}
	}
	return mk(OIMul, IntSort, a, b)
}
func INeg(a *Term) *Term {
	if a.IsConst() {
		return IntC(new(big.Int).Neg(a.val))
	}
	return mk(OINeg, IntSort, a)
}

// IDiv / IMod follow SMT-LIB (Euclidean) semantics; divisor must be a positive constant for folding.
func IDiv(a, b *Term) *Term {
	if a.IsConst() && b.IsConst() && b.val.Sign() > 0 {
		q, m := new(big.Int), new(big.Int)
		q.DivMod(a.val, b.val, m)
		return IntC(q)
	}
	if b.IsConst() && b.val.Cmp(big1) == 0 {
		return a
	}
	return mk(OIDiv, IntSort, a, b)
}
func IMod(a, b *Term) *Term {
	if a.IsConst() && b.IsConst() && b.val.Sign() > 0 {
		return IntC(new(big.Int).Mod(a.val, b.val))
	}
	return mk(OIMod, IntSort, a, b)
}
func ILt(a, b *Term) *Term {
	if a.IsConst() && b.IsConst() {
		return BoolC(a.val.Cmp(b.val) < 0)
	}
	if a == b {
		return FalseT
	}
	return mk(OILt, BoolSort, a, b)
}
func ILe(a, b *Term) *Term {
	if a.IsConst() && b.IsConst() {
		return BoolC(a.val.Cmp(b.val) <= 0)
	}
	if a == b {
		return TrueT
	}
	return mk(OILe, BoolSort, a, b)
}
func Bv2Int(a *Term) *Term {
	if a.IsConst() {
		return IntC(a.val)
	}
	return mk(OBv2Int, IntSort, a)
}

// Bv2IntS is the two's-complement (signed) value of a bit-vector as an Int.
func Bv2IntS(a *Term) *Term {
	if a.IsConst() {
		return IntC(toSigned(a.val, a.sort.W))
	}
	return mk(OBv2IntS, IntSort, a)
}

// ---------- traversal / printing ----------

// topo returns the sub-DAG of the roots in dependency order.
func topo(roots ...*Term) []*Term {
	seen := map[*Term]bool{}
	var out []*Term
	type fr struct {
		t *Term
		i int
	}
	for _, r := range roots {
		if seen[r] {
			continue
		}
		st := []fr{{r, 0}}
		seen[r] = true
		for len(st) > 0 {
			f := &st[len(st)-1]
			if f.i < len(f.t.args) {
				a := f.t.args[f.i]
				f.i++
				if !seen[a] {
					seen[a] = true
					st = append(st, fr{a, 0})
				}
				continue
			}
			out = append(out, f.t)
			st = st[:len(st)-1]
		}
	}
	return out
}

func termVars(roots ...*Term) []*Term {
	var vs []*Term
	for _, t := range topo(roots...) {
		if t.op == OVar {
			vs = append(vs, t)
		}
	}
	sort.Slice(vs, func(i, j int) bool { return vs[i].name < vs[j].name })
	return vs
}

func smtName(n string) string {
	ok := true
	for _, c := range n {
		if !(c >= 'a' && c <= 'z' || c >= 'A' && c <= 'Z' || c >= '0' && c <= '9' || c == '_' || c == '.' || c == '!' || c == '$' || c == '@') {
			ok = false
		}
	}
	if ok && n != "" && !(n[0] >= '0' && n[0] <= '9') {
		return n
	}
	return "|" + strings.ReplaceAll(n, "|", "!") + "|"
}

func smtConst(t *Term) string {
	switch t.sort.K {
	case KBool:
		if t.val.Sign() != 0 {
			return "true"
		}
		return "false"
	case KInt:
		if t.val.Sign() < 0 {
			return "(- " + new(big.Int).Neg(t.val).String() + ")"
		}
		return t.val.String()
	}
	return fmt.Sprintf("(_ bv%s %d)", t.val.String(), t.sort.W)
}

// SMTScript renders declarations, shared-node definitions and (assert root) for every root.
// ufDecls collects uninterpreted function signatures.
func SMTScript(roots []*Term) string {
	var sb strings.Builder
	order := topo(roots...)
	refs := map[*Term]int{}
	for _, t := range order {
		for _, a := range t.args {
			refs[a]++
		}
	}
	ufs := map[string]string{}
	var ufOrder []string
	for _, t := range order {
		if t.op == OVar {
			fmt.Fprintf(&sb, "(declare-fun %s () %s)\n", smtName(t.name), t.sort)
		}
		if t.op == OUF {
			var as []string
			for _, a := range t.args {
				as = append(as, a.sort.String())
			}
			sig := fmt.Sprintf("(declare-fun %s (%s) %s)\n", smtName(t.name), strings.Join(as, " "), t.sort)
			if old, ok := ufs[t.name]; ok {
				if old != sig {
					panic("UF " + t.name + " used with two signatures")
				}
			} else {
				ufs[t.name] = sig
				ufOrder = append(ufOrder, t.name)
			}
		}
	}
	for _, n := range ufOrder {
		sb.WriteString(ufs[n])
	}
	names := map[*Term]string{}
	ref := func(t *Term) string {
		if n, ok := names[t]; ok {
			return n
		}
		panic("unnamed term")
	}
	for _, t := range order {
		var s string
		switch t.op {
		case OConst:
			names[t] = smtConst(t)
			continue
		case OVar:
			names[t] = smtName(t.name)
			continue
		case OExtract:
			s = fmt.Sprintf("((_ extract %d %d) %s)", t.p1, t.p2, ref(t.args[0]))
		case OZext:
			s = fmt.Sprintf("((_ zero_extend %d) %s)", t.p1, ref(t.args[0]))
		case OSext:
			s = fmt.Sprintf("((_ sign_extend %d) %s)", t.p1, ref(t.args[0]))
		case OBv2IntS:
			// signed value of a bit-vector
			w := t.args[0].sort.W
			x := ref(t.args[0])
			s = fmt.Sprintf("(ite (bvslt %s (_ bv0 %d)) (- (bv2nat %s) %s) (bv2nat %s))", x, w, x, pow2(w).String(), x)
		case OUF:
			if len(t.args) == 0 {
				s = smtName(t.name)
			} else {
				var as []string
				for _, a := range t.args {
					as = append(as, ref(a))
				}
				s = "(" + smtName(t.name) + " " + strings.Join(as, " ") + ")"
			}
		default:
			var as []string
			for _, a := range t.args {
				as = append(as, ref(a))
			}
			s = "(" + opNames[t.op] + " " + strings.Join(as, " ") + ")"
		}
		if refs[t] > 1 || len(s) > 200 {
			n := fmt.Sprintf("t!%d", t.id)
			fmt.Fprintf(&sb, "(define-fun %s () %s %s)\n", n, t.sort, s)
			names[t] = n
		} else {
			names[t] = s
		}
	}
	for _, r := range roots {
		fmt.Fprintf(&sb, "(assert %s)\n", ref(r))
	}
	return sb.String()
}

func (t *Term) String() string {
	s := termString(t, 6)
	return s
}

func termString(t *Term, depth int) string {
	switch t.op {
	case OConst:
		if t.sort.K == KBV {
			return "0x" + t.val.Text(16) + ":" + strconv.Itoa(t.sort.W)
		}
		return smtConst(t)
	case OVar:
		return t.name
	}
	if depth == 0 {
		return fmt.Sprintf("t!%d", t.id)
	}
	var as []string
	for _, a := range t.args {
		as = append(as, termString(a, depth-1))
	}
	n := opNames[t.op]
	switch t.op {
	case OExtract:
		n = fmt.Sprintf("extract[%d:%d]", t.p1, t.p2)
	case OZext:
		n = "zext" + strconv.Itoa(t.sort.W)
	case OSext:
		n = "sext" + strconv.Itoa(t.sort.W)
	case OUF:
		n = t.name
	}
	return "(" + n + " " + strings.Join(as, " ") + ")"
}

func termSize(roots ...*Term) int { return len(topo(roots...)) }

// mentions reports whether any variable whose name satisfies pred occurs in t.
func mentions(t *Term, pred func(string) bool) bool {
	for _, v := range termVars(t) {
		if pred(v.name) {
			return true
		}
	}
	return false
}

// substitute replaces variables by terms (used for self-composition and concretisation).
func substitute(t *Term, sub map[*Term]*Term) *Term {
	memo := map[*Term]*Term{}
	for _, n := range topo(t) {
		if r, ok := sub[n]; ok {
			memo[n] = r
			continue
		}
		if len(n.args) == 0 {
			memo[n] = n
			continue
		}
		changed := false
		na := make([]*Term, len(n.args))
		for i, a := range n.args {
			na[i] = memo[a]
			if na[i] != a {
				changed = true
			}
		}
		if !changed {
			memo[n] = n
			continue
		}
		memo[n] = rebuild(n, na)
	}
	return memo[t]
}

func rebuild(n *Term, a []*Term) *Term {
	switch n.op {
	case ONot:
		return Not(a[0])
	case OAnd:
		return And(a[0], a[1])
	case OOr:
		return Or(a[0], a[1])
	case OEq:
		return Eq(a[0], a[1])
	case OIte:
		return Ite(a[0], a[1], a[2])
	case OBvAdd:
		return BvAdd(a[0], a[1])
	case OBvSub:
		return BvSub(a[0], a[1])
	case OBvMul:
		return BvMul(a[0], a[1])
	case OBvNeg:
		return BvNeg(a[0])
	case OBvNot:
		return BvNot(a[0])
	case OBvAnd:
		return BvAnd(a[0], a[1])
	case OBvOr:
		return BvOr(a[0], a[1])
	case OBvXor:
		return BvXor(a[0], a[1])
	case OBvShl:
		return BvShl(a[0], a[1])
	case OBvLshr:
		return BvLshr(a[0], a[1])
	case OBvAshr:
		return BvAshr(a[0], a[1])
	case OBvUdiv, OBvUrem, OBvSdiv, OBvSrem:
		return bvDivOp(n.op, a[0], a[1])
	case OBvUlt, OBvUle, OBvSlt, OBvSle:
		return bvCmp(n.op, a[0], a[1])
	case OExtract:
		return Extract(a[0], n.p1, n.p2)
	case OConcat:
		return Concat(a[0], a[1])
	case OZext:
		return Zext(a[0], n.sort.W)
	case OSext:
		return Sext(a[0], n.sort.W)
	case OIAdd:
		return IAdd(a[0], a[1])
	case OISub:
		return ISub(a[0], a[1])
	case OIMul:
		return IMul(a[0], a[1])
	case OIDiv:
		return IDiv(a[0], a[1])
	case OIMod:
		return IMod(a[0], a[1])
	case OINeg:
		return INeg(a[0])
	case OILt:
		return ILt(a[0], a[1])
	case OILe:
		return ILe(a[0], a[1])
	case OBv2Int:
		return Bv2Int(a[0])
	case OBv2IntS:
		return Bv2IntS(a[0])
	case OUF:
		return UF(n.name, n.sort, a...)
	}
	panic("rebuild: op")
}

// evalTerm evaluates a term under a total assignment of its variables (UFs unsupported).
func evalTerm(t *Term, env map[*Term]*big.Int) (*big.Int, error) {
	sub := map[*Term]*Term{}
	for v, x := range env {
		switch v.sort.K {
		case KBool:
			sub[v] = BoolC(x.Sign() != 0)
		case KInt:
			sub[v] = IntC(x)
		default:
			sub[v] = BVC(x, v.sort.W)
		}
	}
	r := substitute(t, sub)
	if !r.IsConst() {
		return nil, fmt.Errorf("evalTerm: not closed: %s", r)
	}
	return r.val, nil
}

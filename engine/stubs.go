package main

import "golang.org/x/tools/go/ssa"

type AsmFunc struct{}

func (ld *Loaded) asmFuncsOrNil() map[string]*AsmFunc { return nil }
func (c *Ctx) execAsm(af *AsmFunc, fn *ssa.Function, args []Value, st *State, site ssa.Instruction) {
	fail("asm not supported yet")
}

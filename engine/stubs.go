package main

// Assembly front end (amd64, general-purpose registers only).
//
// For the `default` build configuration the .s files of the module's packages are assembled with the real
// assembler (`go tool asm`, the same include path and defines the go command uses) and the resulting object is
// disassembled with `go tool objdump`: what is executed symbolically is therefore the macro-expanded instruction
// stream the assembler produced from /repo's current sources, not a re-implementation of its macro language.
// Supported: MOVQ/MOVL, ADDQ/ADCQ/SUBQ/SBBQ, MULQ, IMULQ (2/3 operands), ANDQ/ORQ/XORQ/NOTQ/NEGQ, SHLQ/SHRQ/SARQ
// by immediates, SHLDQ/SHRDQ, ROLQ/RORQ, INCQ/DECQ, LEAQ, CMPQ/TESTQ, PUSHQ/POPQ, conditional jumps on
// CONCRETE flags, RET, and the stack-growth prologue (assumed not taken). Anything else (SSE/AVX, symbolic
// jumps, byte-sized memory operands) is rejected with an engine error: such functions stay outside the claims.

import (
	"fmt"
	"go/types"
	"math/big"
	"math/rand"
	"sync"
	"sync/atomic"
	"time"
	"os"
	"os/exec"
	"path/filepath"
	"regexp"
	"strconv"
	"strings"

	"golang.org/x/tools/go/ssa"
)

type asmInst struct {
	pc   int64
	op   string
	args []string
	src  string
}

type AsmFunc struct {
	name  string
	file  string
	insts []asmInst
	byPC  map[int64]int
}

var objLineRe = regexp.MustCompile(`^\s+(\S+:\d+)\s+0x([0-9a-f]+)\s+([0-9a-f]+)\s+(.*)$`)

// loadAsm assembles and disassembles the amd64 .s files of the module (default configuration only).
func (ld *Loaded) loadAsm() error {
	ld.asm = map[string]*AsmFunc{}
	if ld.config != "default" {
		return nil
	}
	goroot := strings.TrimSpace(runCmd(repoDir, "go", "env", "GOROOT"))
	tmp, err := os.MkdirTemp("", "voiasm")
	if err != nil {
		return err
	}
	defer os.RemoveAll(tmp)
	for path := range ld.pkgs {
		if !strings.HasPrefix(path, modPath) {
			continue
		}
		dir := filepath.Join(repoDir, strings.TrimPrefix(strings.TrimPrefix(path, modPath), "/"))
		files, _ := filepath.Glob(filepath.Join(dir, "*_amd64.s"))
		for _, f := range files {
			src, _ := os.ReadFile(f)
			if !strings.Contains(string(src), "!purego") && strings.Contains(string(src), "//go:build") && !strings.Contains(string(src), "amd64") {
				continue
			}
			obj := filepath.Join(tmp, filepath.Base(f)+".o")
			pkgName := filepath.Base(dir)
			cmd := exec.Command("go", "tool", "asm", "-p", pkgName, "-I", filepath.Join(goroot, "pkg", "include"), "-D", "GOOS_linux", "-D", "GOARCH_amd64", "-o", obj, f)
			cmd.Dir = dir
			cmd.Env = append(os.Environ(), "GOFLAGS=-mod=mod", "GOPROXY=off", "GOSUMDB=off", "GOTOOLCHAIN=local")
			if out, err := cmd.CombinedOutput(); err != nil {
				// (files that need go_asm.h or vector extensions the assembler accepts but we do not model are
				// simply absent from the table; calling such a function is an engine error)
				fmt.Fprintf(os.Stderr, "[asm] %s: not assembled: %v %s\n", f, err, strings.TrimSpace(string(out)))
				continue
			}
			dis := runCmd(dir, "go", "tool", "objdump", obj)
			var cur *AsmFunc
			for _, line := range strings.Split(dis, "\n") {
				if strings.HasPrefix(line, "TEXT ") {
					nm := strings.Fields(line)[1]
					nm = strings.TrimSuffix(nm, "(SB)")
					if i := strings.LastIndex(nm, "."); i >= 0 {
						nm = nm[i+1:]
					}
					cur = &AsmFunc{name: nm, file: f, byPC: map[int64]int{}}
					ld.asm[path+"."+nm] = cur
					continue
				}
				m := objLineRe.FindStringSubmatch(line)
				if m == nil || cur == nil {
					continue
				}
				pc, _ := strconv.ParseInt(m[2], 16, 64)
				text := m[4]
				if i := strings.Index(text, "\t"); i >= 0 {
					text = text[:i]
				}
				text = strings.TrimSpace(text)
				op, rest, _ := strings.Cut(text, " ")
				var args []string
				if strings.TrimSpace(rest) != "" {
					for _, a := range strings.Split(rest, ",") {
						args = append(args, strings.TrimSpace(a))
					}
				}
				cur.byPC[pc] = len(cur.insts)
				cur.insts = append(cur.insts, asmInst{pc: pc, op: op, args: args, src: m[1]})
			}
		}
	}
	return nil
}

func runCmd(dir string, name string, args ...string) string {
	cmd := exec.Command(name, args...)
	cmd.Dir = dir
	cmd.Env = append(os.Environ(), "GOFLAGS=-mod=mod", "GOPROXY=off", "GOSUMDB=off", "GOTOOLCHAIN=local")
	out, _ := cmd.Output()
	return string(out)
}

func (ld *Loaded) asmFuncsOrNil() map[string]*AsmFunc { return ld.asm }

// asmPtr: a register holding a Go pointer plus a byte displacement (pointer arithmetic by immediates).
type asmPtr struct {
	p   Pointer
	off int64
}

type asmState struct {
	c      *Ctx
	st     *State
	regs   map[string]Value
	stack  map[int64]Value
	sp     int64
	cmpA, cmpB *Term // operands of the last CMPQ (for signed/unsigned conditional jumps on concrete values)
	argSize    map[int64]int64
	cf     *Term // carry flag as a 1-bit vector (nil: undefined)
	zf     *Term // zero flag as a Bool (nil: undefined)
	fn     *ssa.Function
	in     *asmInst
}

var gcSizes = types.SizesFor("gc", "amd64")

func (a *asmState) fail(format string, args ...interface{}) {
	fail("asm %s %s %s (%s): %s", a.fn.Name(), a.in.op, strings.Join(a.in.args, ", "), a.in.src, fmt.Sprintf(format, args...))
}

var memRe = regexp.MustCompile(`^(-?(?:0x)?[0-9a-f]*)\(([A-Z0-9]+)\)$`)

func parseImm(s string) (int64, bool) {
	s = strings.TrimPrefix(s, "$")
	neg := false
	if strings.HasPrefix(s, "-") {
		neg = true
		s = s[1:]
	}
	var v uint64
	var err error
	if strings.HasPrefix(s, "0x") {
		v, err = strconv.ParseUint(s[2:], 16, 64)
	} else {
		v, err = strconv.ParseUint(s, 10, 64)
	}
	if err != nil {
		return 0, false
	}
	if neg {
		return -int64(v), true
	}
	return int64(v), true
}

// leafAt resolves a byte offset from a pointer to the 8-byte leaf it addresses.
func (a *asmState) leafAt(p Pointer, off int64) Pointer {
	t := p.Obj.typ
	for _, e := range p.Path {
		switch u := t.Underlying().(type) {
		case *types.Struct:
			t = u.Field(e.Idx).Type()
		case *types.Array:
			t = u.Elem()
		default:
			a.fail("pointer path through %s", t)
		}
	}
	cur := p
	for {
		switch u := t.Underlying().(type) {
		case *types.Struct:
			var fs []*types.Var
			for i := 0; i < u.NumFields(); i++ {
				fs = append(fs, u.Field(i))
			}
			offs := gcSizes.Offsetsof(fs)
			found := false
			for i := u.NumFields() - 1; i >= 0; i-- {
				sz := gcSizes.Sizeof(u.Field(i).Type())
				if sz > 0 && off >= offs[i] && off < offs[i]+sz {
					cur = cur.child(PathElem{Idx: i})
					off -= offs[i]
					t = u.Field(i).Type()
					found = true
					break
				}
			}
			if !found {
				a.fail("offset %d outside %s", off, t)
			}
		case *types.Array:
			es := gcSizes.Sizeof(u.Elem())
			idx := off / es
			if idx < 0 || idx >= u.Len() {
				a.fail("offset %d outside %s", off, t)
			}
			cur = cur.child(PathElem{Idx: int(idx)})
			off -= idx * es
			t = u.Elem()
		case *types.Basic:
			if gcSizes.Sizeof(t) != 8 || off != 0 {
				a.fail("memory operand is not an aligned 8-byte word (type %s, offset %d)", t, off)
			}
			return cur
		default:
			a.fail("memory operand inside %s", t)
		}
	}
}

func (a *asmState) reg(name string) Value {
	if v, ok := a.regs[name]; ok {
		return v
	}
	// callee may read a register it has not written only to save it (BP): an arbitrary value
	v := Var(a.c.freshName("reg_"+name), BV(64))
	a.regs[name] = v
	return v
}

// memAddr resolves a memory operand to a stack offset or to the 8-byte leaf at (+extra bytes).
func (a *asmState) memAddr(op string, extra int64) (isStack bool, soff int64, leaf Pointer, ok bool) {
	m := memRe.FindStringSubmatch(op)
	if m == nil {
		return false, 0, Pointer{}, false
	}
	off := int64(0)
	if m[1] != "" {
		var ok2 bool
		if off, ok2 = parseImm(m[1]); !ok2 {
			a.fail("offset %q", m[1])
		}
	}
	off += extra
	if m[2] == "SP" {
		return true, a.sp + off, Pointer{}, true
	}
	switch b := a.reg(m[2]).(type) {
	case Pointer:
		return false, 0, a.leafAt(b, off), true
	case asmPtr:
		return false, 0, a.leafAt(b.p, b.off+off), true
	}
	a.fail("memory operand through a register that does not hold a pointer")
	return
}

func isXmm(op string) bool {
	if len(op) < 2 || op[0] != 'X' {
		return false
	}
	_, err := strconv.Atoi(op[1:])
	return err == nil
}

// read128 / write128: XMM registers and 16-byte memory operands (two adjacent 8-byte words, little endian).
func (a *asmState) read128(op string) *Term {
	if isXmm(op) {
		if v, ok := a.regs[op].(*Term); ok {
			return v
		}
		v := Var(a.c.freshName("reg_"+op), BV(128)) // (e.g. the PXOR X, X zeroing idiom)
		a.regs[op] = v
		return v
	}
	lo := a.readMem64(op, 0)
	hi := a.readMem64(op, 8)
	return Concat(hi, lo)
}

func (a *asmState) readMem64(op string, extra int64) *Term {
	isStack, soff, leaf, ok := a.memAddr(op, extra)
	if !ok {
		a.fail("unsupported 128-bit operand %q", op)
	}
	if isStack {
		v, ok := a.stack[soff].(*Term)
		if !ok {
			a.fail("read of an unwritten stack slot %d", soff)
		}
		return v
	}
	return termOf(a.st.load(leaf))
}

func (a *asmState) write128(op string, v *Term) {
	if isXmm(op) {
		a.regs[op] = v
		return
	}
	for k, part := range []*Term{Extract(v, 63, 0), Extract(v, 127, 64)} {
		isStack, soff, leaf, ok := a.memAddr(op, int64(8*k))
		if !ok {
			a.fail("unsupported 128-bit destination %q", op)
		}
		if isStack {
			a.stack[soff] = part
		} else {
			a.st.store(leaf, part)
		}
	}
}

func lanes32(v *Term) [4]*Term {
	return [4]*Term{Extract(v, 31, 0), Extract(v, 63, 32), Extract(v, 95, 64), Extract(v, 127, 96)}
}

func fromLanes32(l [4]*Term) *Term { return Concat(Concat(l[3], l[2]), Concat(l[1], l[0])) }

// read returns the 64-bit value of an operand.
func (a *asmState) read(op string) Value {
	if strings.HasPrefix(op, "$") {
		v, ok := parseImm(op)
		if !ok {
			a.fail("immediate %q", op)
		}
		return BVI(v, 64)
	}
	if isStack, soff, leaf, ok := a.memAddr(op, 0); ok {
		if isStack {
			v, ok := a.stack[soff]
			if !ok {
				a.fail("read of an unwritten stack slot %d", soff)
			}
			return v
		}
		return a.st.load(leaf)
	}
	if strings.ContainsAny(op, "(:") {
		a.fail("unsupported operand %q", op)
	}
	return a.reg(op)
}

func (a *asmState) readT(op string) *Term {
	v := a.read(op)
	t, ok := v.(*Term)
	if !ok {
		a.fail("arithmetic on a pointer value")
	}
	return t
}

func (a *asmState) write(op string, v Value) {
	if isStack, soff, leaf, ok := a.memAddr(op, 0); ok {
		if isStack {
			a.stack[soff] = v
		} else {
			a.st.store(leaf, v)
		}
		return
	}
	if strings.ContainsAny(op, "($:") {
		a.fail("unsupported destination %q", op)
	}
	a.regs[op] = v
}

func (c *Ctx) execAsm(af *AsmFunc, fn *ssa.Function, args []Value, st *State, site ssa.Instruction) {
	a := &asmState{c: c, st: st, regs: map[string]Value{}, stack: map[int64]Value{}, fn: fn, argSize: map[int64]int64{}}
	c.encoded[fn.String()+" [asm]"] = len(af.insts)
	// ABI0 argument area: return address at 0(SP), arguments from 8(SP)
	off := int64(8)
	for i, p := range fn.Params {
		sz := gcSizes.Sizeof(p.Type())
		al := gcSizes.Alignof(p.Type())
		off = (off + al - 1) / al * al
		if sz != 8 && sz != 1 {
			fail("asm %s: parameter %s of size %d (only 8-byte and 1-byte parameters are modelled)", fn.Name(), p.Name(), sz)
		}
		a.stack[off] = args[i]
		a.argSize[off] = sz
		off += sz
	}
	if fn.Signature.Results().Len() != 0 {
		fail("asm %s: results are not modelled", fn.Name())
	}
	a.stack[0] = BVI(0, 64)
	// segment-wise simulation (asmsim=): cut before and after every source line that expands to a whole round
	var sim *asmSim
	lineCount := map[string]int{}
	if spec := c.asmSimFor(fn); spec != nil {
		p, ok := args[0].(Pointer)
		if !ok {
			fail("asmsim: first argument of %s is not a pointer", fn.Name())
		}
		arr, ok := st.load(p).(*ArrayV)
		if !ok {
			fail("asmsim: first argument of %s does not point to an array", fn.Name())
		}
		sim = &asmSim{refFn: spec, stateArg: p, n: len(arr.E)}
		a.in = &af.insts[0]
		sim.entry = a.simLanes(sim)
		sim.cur = sim.entry
		for _, in := range af.insts {
			lineCount[in.src]++
		}
	}
	isRound := func(src string) bool { return lineCount[src] >= 50 }
	steps := 0
	for i := 0; i < len(af.insts); {
		in := &af.insts[i]
		a.in = in
		if sim != nil && i > 0 && af.insts[i-1].src != in.src && (isRound(in.src) || isRound(af.insts[i-1].src)) {
			if isRound(af.insts[i-1].src) {
				sim.pending++
			}
			a.simCut(sim, false)
		}
		if steps++; steps > 2000000 {
			a.fail("instruction budget exceeded")
		}
		next := i + 1
		ar := in.args
		bin := func(f func(x, y *Term) *Term) {
			x, y := a.readT(ar[0]), a.readT(ar[1])
			r := f(y, x)
			a.write(ar[1], r)
			a.zf = Eq(r, BVI(0, 64))
		}
		switch in.op {
		case "MOVQ":
			if strings.Contains(ar[0], "FS:") {
				a.write(ar[1], Var(c.freshName("tls"), BV(64)))
				break
			}
			if ar[0] == "SP" {
				a.write(ar[1], BVI(a.sp, 64)) // frame pointer bookkeeping only
				break
			}
			if isXmm(ar[1]) {
				a.regs[ar[1]] = Zext(a.readT(ar[0]), 128) // GPR / memory -> low quadword, upper cleared
				break
			}
			if isXmm(ar[0]) {
				a.write(ar[1], Extract(a.read128(ar[0]), 63, 0))
				break
			}
			a.write(ar[1], a.read(ar[0]))
		case "MOVZX", "MOVBQZX":
			// byte-sized parameter, zero extended
			isStack, soff, _, ok := a.memAddr(ar[0], 0)
			if !ok || !isStack || a.argSize[soff] != 1 {
				a.fail("only byte loads of 1-byte parameters are modelled")
			}
			a.write(ar[1], Zext(termOf(a.stack[soff]), 64))
		case "PXOR", "PAND", "POR", "PANDN":
			x, y := a.read128(ar[0]), a.read128(ar[1])
			var r *Term
			switch in.op {
			case "PXOR":
				r = BvXor(y, x)
			case "PAND":
				r = BvAnd(y, x)
			case "POR":
				r = BvOr(y, x)
			case "PANDN":
				r = BvAnd(BvNot(y), x)
			}
			a.write128(ar[1], r)
		case "PCMPEQD", "PCMPEQL":
			x, y := lanes32(a.read128(ar[0])), lanes32(a.read128(ar[1]))
			var r [4]*Term
			for k := 0; k < 4; k++ {
				r[k] = Ite(Eq(x[k], y[k]), BVI(-1, 32), BVI(0, 32))
			}
			a.write128(ar[1], fromLanes32(r))
		case "PSHUFD":
			imm, ok := parseImm(ar[0])
			if !ok {
				a.fail("PSHUFD selector")
			}
			x := lanes32(a.read128(ar[1]))
			var r [4]*Term
			for k := 0; k < 4; k++ {
				r[k] = x[(imm>>(2*uint(k)))&3]
			}
			a.write128(ar[2], fromLanes32(r))
		case "PUNPCKLQDQ":
			x, y := a.read128(ar[0]), a.read128(ar[1])
			a.write128(ar[1], Concat(Extract(x, 63, 0), Extract(y, 63, 0)))
		case "MOVDQU", "MOVOU", "MOVDQA", "MOVO":
			a.write128(ar[1], a.read128(ar[0]))
		case "MOVL":
			v, ok := parseImm(ar[0])
			if !ok || !strings.HasPrefix(ar[0], "$") {
				a.fail("only MOVL $imm, reg is modelled")
			}
			a.write(ar[1], BVI(int64(uint32(v)), 64))
		case "LEAQ":
			m := memRe.FindStringSubmatch(ar[0])
			if m == nil || m[2] != "SP" {
				a.fail("only LEAQ off(SP), reg is modelled")
			}
			o, _ := parseImm(m[1])
			a.write(ar[1], BVI(a.sp+o, 64))
		case "CMPQ":
			a.cf, a.zf, a.cmpA, a.cmpB = nil, nil, nil, nil
			if strings.Contains(ar[1], "(R14)") || strings.Contains(ar[0], "(R14)") {
				break // stack-growth check of the prologue: compares against the g's stack guard
			}
			a.cmpA, a.cmpB = a.readT(ar[0]), a.readT(ar[1])
		case "JLE", "JLT", "JGE", "JGT", "JHI", "JLO", "JHS":
			if a.cmpA == nil || !a.cmpA.IsConst() || !a.cmpB.IsConst() {
				a.fail("conditional jump on a symbolic comparison (loop counters must be concrete)")
			}
			x, y := toSigned(a.cmpA.val, 64), toSigned(a.cmpB.val, 64)
			ux, uy := a.cmpA.val, a.cmpB.val
			var taken bool
			switch in.op {
			case "JLE":
				taken = x.Cmp(y) <= 0
			case "JLT":
				taken = x.Cmp(y) < 0
			case "JGE":
				taken = x.Cmp(y) >= 0
			case "JGT":
				taken = x.Cmp(y) > 0
			case "JHI":
				taken = ux.Cmp(uy) > 0
			case "JLO":
				taken = ux.Cmp(uy) < 0
			case "JHS":
				taken = ux.Cmp(uy) >= 0
			}
			if taken {
				t, ok := parseImm(ar[0])
				j, ok2 := af.byPC[t]
				if !ok || !ok2 {
					a.fail("jump target %q", ar[0])
				}
				next = j
			}
		case "JBE", "JLS":
			if a.cf != nil || a.zf != nil || a.cmpA != nil {
				a.fail("conditional jump on modelled flags")
			}
			// prologue: enough stack is assumed (the morestack path re-enters the function)
		case "PUSHQ":
			a.sp -= 8
			a.stack[a.sp] = a.read(ar[0])
		case "POPQ":
			a.write(ar[0], a.stack[a.sp])
			a.sp += 8
		case "ADDQ", "SUBQ":
			if ar[1] == "SP" {
				v, ok := parseImm(ar[0])
				if !ok {
					a.fail("stack adjustment by a non-immediate")
				}
				if in.op == "ADDQ" {
					a.sp += v
				} else {
					a.sp -= v
				}
				break
			}
			// pointer + immediate: address arithmetic
			if v, isImm := parseImm(ar[0]); isImm && strings.HasPrefix(ar[0], "$") && !strings.ContainsAny(ar[1], "(") {
				switch b := a.reg(ar[1]).(type) {
				case Pointer:
					if in.op == "SUBQ" {
						v = -v
					}
					a.regs[ar[1]] = asmPtr{b, v}
					a.cf, a.zf = nil, nil
					i = next
					continue
				case asmPtr:
					if in.op == "SUBQ" {
						v = -v
					}
					a.regs[ar[1]] = asmPtr{b.p, b.off + v}
					a.cf, a.zf = nil, nil
					i = next
					continue
				}
			}
			x, y := a.readT(ar[0]), a.readT(ar[1])
			var s *Term
			if in.op == "ADDQ" {
				s = BvAdd(Zext(y, 65), Zext(x, 65))
			} else {
				s = BvSub(Zext(y, 65), Zext(x, 65))
			}
			r := Extract(s, 63, 0)
			a.write(ar[1], r)
			a.cf = Extract(s, 64, 64)
			a.zf = Eq(r, BVI(0, 64))
		case "ADCQ", "SBBQ":
			if a.cf == nil {
				a.fail("carry flag undefined")
			}
			x, y := a.readT(ar[0]), a.readT(ar[1])
			cin := Zext(a.cf, 65)
			var s *Term
			if in.op == "ADCQ" {
				s = BvAdd(BvAdd(Zext(y, 65), Zext(x, 65)), cin)
			} else {
				s = BvSub(BvSub(Zext(y, 65), Zext(x, 65)), cin)
			}
			r := Extract(s, 63, 0)
			a.write(ar[1], r)
			a.cf = Extract(s, 64, 64)
			a.zf = Eq(r, BVI(0, 64))
		case "MULQ":
			p := BvMul(Zext(a.readT("AX"), 128), Zext(a.readT(ar[0]), 128))
			a.regs["DX"] = Extract(p, 127, 64)
			a.regs["AX"] = Extract(p, 63, 0)
			a.cf, a.zf = nil, nil
		case "IMULQ", "IMUL3Q":
			switch len(ar) {
			case 3:
				a.write(ar[2], BvMul(a.readT(ar[1]), a.readT(ar[0])))
			case 2:
				a.write(ar[1], BvMul(a.readT(ar[1]), a.readT(ar[0])))
			default:
				a.fail("one-operand IMULQ is not modelled")
			}
			a.cf, a.zf = nil, nil
		case "ANDQ":
			bin(BvAnd)
			a.cf = BVI(0, 1)
		case "ORQ":
			bin(BvOr)
			a.cf = BVI(0, 1)
		case "XORQ":
			bin(BvXor)
			a.cf = BVI(0, 1)
		case "NOTQ":
			a.write(ar[0], BvNot(a.readT(ar[0])))
		case "NEGQ":
			x := a.readT(ar[0])
			r := BvNeg(x)
			a.write(ar[0], r)
			a.cf = Ite(Eq(x, BVI(0, 64)), BVI(0, 1), BVI(1, 1))
			a.zf = Eq(r, BVI(0, 64))
		case "SHLQ", "SHRQ", "SARQ", "ROLQ", "RORQ":
			k, ok := parseImm(ar[0])
			if !ok || !strings.HasPrefix(ar[0], "$") || k < 0 || k > 63 {
				a.fail("shift/rotate count must be an immediate in 0..63")
			}
			x := a.readT(ar[1])
			var r *Term
			switch in.op {
			case "SHLQ":
				r = BvShl(x, BVI(k, 64))
			case "SHRQ":
				r = BvLshr(x, BVI(k, 64))
			case "SARQ":
				r = BvAshr(x, BVI(k, 64))
			case "ROLQ":
				r = x
				if k != 0 {
					r = BvOr(BvShl(x, BVI(k, 64)), BvLshr(x, BVI(64-k, 64)))
				}
			case "RORQ":
				r = x
				if k != 0 {
					r = BvOr(BvLshr(x, BVI(k, 64)), BvShl(x, BVI(64-k, 64)))
				}
			}
			a.write(ar[1], r)
			a.cf, a.zf = nil, Eq(r, BVI(0, 64))
		case "SHLDQ", "SHRDQ":
			k, ok := parseImm(ar[0])
			if !ok || k <= 0 || k > 63 {
				a.fail("double shift count must be an immediate in 1..63")
			}
			src, dst := a.readT(ar[1]), a.readT(ar[2])
			var r *Term
			if in.op == "SHLDQ" {
				r = BvOr(BvShl(dst, BVI(k, 64)), BvLshr(src, BVI(64-k, 64)))
			} else {
				r = BvOr(BvLshr(dst, BVI(k, 64)), BvShl(src, BVI(64-k, 64)))
			}
			a.write(ar[2], r)
			a.cf, a.zf = nil, nil
		case "INCQ", "DECQ":
			x := a.readT(ar[0])
			d := int64(1)
			if in.op == "DECQ" {
				d = -1
			}
			r := BvAdd(x, BVI(d, 64))
			a.write(ar[0], r)
			a.zf = Eq(r, BVI(0, 64)) // CF unaffected
		case "TESTQ":
			r := BvAnd(a.readT(ar[0]), a.readT(ar[1]))
			a.zf, a.cf = Eq(r, BVI(0, 64)), BVI(0, 1)
		case "JNE", "JEQ", "JNZ", "JZ":
			if a.zf == nil || !a.zf.IsConst() {
				a.fail("conditional jump on a symbolic or undefined zero flag (loop counters must be concrete)")
			}
			taken := a.zf.IsTrue()
			if in.op == "JNE" || in.op == "JNZ" {
				taken = !taken
			}
			if taken {
				t, ok := parseImm(ar[0])
				j, ok2 := af.byPC[t]
				if !ok || !ok2 {
					a.fail("jump target %q", ar[0])
				}
				next = j
			}
		case "JMP":
			t, ok := parseImm(ar[0])
			j, ok2 := af.byPC[t]
			if !ok || !ok2 {
				a.fail("jump target %q", ar[0])
			}
			next = j
		case "RET":
			if a.sp != 0 {
				a.fail("stack pointer not restored at RET (offset %d)", a.sp)
			}
			if sim != nil {
				a.simCut(sim, true)
				c.encoded[fn.String()+fmt.Sprintf(" [asm: %d cuts, %d one-round equivalence queries proved]", sim.cuts, sim.queries)] = len(af.insts)
			}
			return
		case "NOPL", "NOPW", "NOP", "XCHGL", "INT":
		default:
			a.fail("unsupported instruction")
		}
		i = next
	}
	fail("asm %s: fell off the end of the function", fn.Name())
}

// ---------- segment-wise simulation of a straight-line assembly routine against a reference step ----------
//
// directive attribute  asmsim=<asm function>:<reference step>  (reference step: func(state *[N]uint64, round int)
// in the harness). The instruction stream is cut at the source lines that expand to a whole round (>= 50
// instructions: one macro invocation per round). At every cut the engine
//   1. advances the abstract reference state R by the rounds executed since the previous cut,
//   2. looks, for every live location of the assembly (state words in memory, stack slots, registers), for a
//      relation  location = f(R')  with f among: a lane, its complement, the xor of a subset of one column of
//      lanes, its complement (candidates filtered by evaluation on random states, then PROVED by the solver for
//      all states - a one-round query), and
//   3. replaces R' by fresh variables and every matched location by f(fresh); unmatched locations become
//      unconstrained (sound: if such a value mattered, a later match or the final one fails).
// At RET every state word must match its lane exactly; the words are then set to the reference applied to the
// ORIGINAL input (deep terms, identical to what the harness computes for its own comparison). The composition of
// the proved one-round relations is the equivalence for all inputs; nothing here is sampled as a verdict.

type asmSim struct {
	refFn    *ssa.Function
	stateArg Pointer
	n        int
	entry    []*Term // original lanes
	cur      []*Term // abstract lanes the current location terms are expressed over
	rounds   int     // reference rounds accounted for up to the last cut
	pending  int     // round segments executed since the last cut
	queries  int
	cuts     int
}

func (a *asmState) simLanes(sim *asmSim) []*Term {
	arr := a.st.load(sim.stateArg).(*ArrayV)
	out := make([]*Term, sim.n)
	for i := range out {
		out[i] = termOf(arr.E[i])
	}
	return out
}

// refApply runs the harness reference step on lanes, for rounds [from, from+k).
func (a *asmState) refApply(sim *asmSim, lanes []*Term, from, k int) []*Term {
	if k == 0 {
		return lanes
	}
	arr := &ArrayV{E: make([]Value, len(lanes))}
	for i, t := range lanes {
		arr.E[i] = t
	}
	st2 := a.st.fork()
	ptr := st2.newObject(a.c, "asmsim.ref", sim.stateArg.Obj.typ, arr)
	for r := from; r < from+k; r++ {
		outs := a.c.callFunction(sim.refFn, []Value{ptr, BVI(int64(r), 64)}, nil, st2, nil)
		if len(outs) != 1 {
			a.fail("reference step forked")
		}
		st2 = outs[0].st
	}
	res := st2.load(ptr).(*ArrayV)
	out := make([]*Term, len(lanes))
	for i := range out {
		out[i] = termOf(res.E[i])
	}
	return out
}

type simCand struct {
	lanes []int
	neg   bool
}

func (sc simCand) build(R []*Term) *Term {
	t := R[sc.lanes[0]]
	for _, i := range sc.lanes[1:] {
		t = BvXor(t, R[i])
	}
	if sc.neg {
		t = BvNot(t)
	}
	return t
}

func simCandidates(n int) []simCand {
	var cs []simCand
	for i := 0; i < n; i++ {
		cs = append(cs, simCand{[]int{i}, false}, simCand{[]int{i}, true})
	}
	if n == 25 {
		for x := 0; x < 5; x++ {
			for mask := 1; mask < 32; mask++ {
				if mask&(mask-1) == 0 {
					continue // single lanes are above
				}
				var ls []int
				for y := 0; y < 5; y++ {
					if mask>>uint(y)&1 == 1 {
						ls = append(ls, x+5*y)
					}
				}
				cs = append(cs, simCand{ls, false}, simCand{ls, true})
			}
		}
	}
	return cs
}

// simCut performs one cut (final = at RET).
func (a *asmState) simCut(sim *asmSim, final bool) {
	sim.cuts++
	R := a.refApply(sim, sim.cur, sim.rounds, sim.pending)
	sim.rounds += sim.pending
	sim.pending = 0
	// random evaluation points over the variables of the current abstraction
	var roots []*Term
	roots = append(roots, R...)
	type loc struct {
		kind string // mem | stack | reg
		idx  int64
		reg  string
		t    *Term
	}
	var locs []loc
	for i, t := range a.simLanes(sim) {
		locs = append(locs, loc{kind: "mem", idx: int64(i), t: t})
	}
	if !final {
		for off, v := range a.stack {
			if t, ok := v.(*Term); ok && off < 0 && !t.IsConst() {
				locs = append(locs, loc{kind: "stack", idx: off, t: t})
			}
		}
		for r, v := range a.regs {
			if t, ok := v.(*Term); ok && !t.IsConst() {
				locs = append(locs, loc{kind: "reg", reg: r, t: t})
			}
		}
	}
	for _, l := range locs {
		roots = append(roots, l.t)
	}
	vars := termVars(roots...)
	const nPts = 3
	evs := make([]*evaluator, nPts)
	rng := newRand(int64(sim.cuts)*7919 + runSeed)
	for k := range evs {
		env := map[*Term]*big.Int{}
		for _, v := range vars {
			if v.sort.K == KBool {
				env[v] = big.NewInt(int64(rng.Intn(2)))
			} else {
				env[v] = new(big.Int).Rand(rng, pow2(v.sort.W))
			}
		}
		evs[k] = newEvaluator(env)
	}
	cands := simCandidates(sim.n)
	rv := make([][]*big.Int, nPts)
	for k := range evs {
		rv[k] = make([]*big.Int, len(R))
		for i, t := range R {
			v, err := evs[k].eval(t)
			if err != nil {
				a.fail("asm simulation: reference state not evaluable: %v", err)
			}
			rv[k][i] = v
		}
	}
	m64 := maskW(64)
	candVal := func(c simCand, k int) *big.Int {
		v := new(big.Int).Set(rv[k][c.lanes[0]])
		for _, i := range c.lanes[1:] {
			v.Xor(v, rv[k][i])
		}
		if c.neg {
			v.Xor(v, m64)
		}
		return v
	}
	matched := make([]*simCand, len(locs))
	var wg sync.WaitGroup
	var qn int64
	sem := make(chan struct{}, 14)
	for li, l := range locs {
		if l.t.sort.K != KBV || l.t.sort.W != 64 {
			continue
		}
		vals := make([]*big.Int, nPts)
		ok := true
		for k := range evs {
			v, err := evs[k].eval(l.t)
			if err != nil {
				ok = false
				break
			}
			vals[k] = v
		}
		if !ok {
			continue
		}
		order := cands
		if l.kind == "mem" && final {
			order = []simCand{{[]int{int(l.idx)}, false}}
		}
		// candidates that agree on the random states (evaluation is a filter only)
		var pass []simCand
		for ci := range order {
			c := order[ci]
			same := true
			for k := range evs {
				if candVal(c, k).Cmp(vals[k]) != 0 {
					same = false
					break
				}
			}
			if same {
				pass = append(pass, c)
			}
		}
		if len(pass) == 0 {
			continue
		}
		li, l := li, l
		wg.Add(1)
		sem <- struct{}{}
		go func() {
			defer wg.Done()
			defer func() { <-sem }()
			for _, c := range pass {
				ct := c.build(R)
				if ct != l.t {
					atomic.AddInt64(&qn, 1)
					atomicAddQueries(1)
					res := Solve(SMTScript([]*Term{Not(Eq(ct, l.t))}), nil, 60*time.Second, []string{"z3new", "z3", "cvc5"})
					if res.Status != "unsat" {
						continue
					}
				}
				cc := c
				matched[li] = &cc
				return
			}
		}()
	}
	wg.Wait()
	sim.queries += int(qn)
	if final {
		for li, l := range locs {
			if matched[li] == nil {
				a.fail("asm simulation: final state word %d is not the reference lane (no proof)", l.idx)
			}
		}
		deep := a.refApply(sim, sim.entry, 0, sim.rounds)
		arr := &ArrayV{E: make([]Value, sim.n)}
		for i := range deep {
			arr.E[i] = deep[i]
		}
		a.st.store(sim.stateArg, arr)
		return
	}
	fresh := make([]*Term, sim.n)
	for i := range fresh {
		fresh[i] = Var(a.c.freshName(fmt.Sprintf("sim%d_lane%d", sim.cuts, i)), BV(64))
	}
	arr := &ArrayV{E: append([]Value(nil), a.st.load(sim.stateArg).(*ArrayV).E...)}
	for li, l := range locs {
		var nv *Term
		if matched[li] != nil {
			nv = matched[li].build(fresh)
		} else {
			nv = Var(a.c.freshName(fmt.Sprintf("sim%d_free", sim.cuts)), l.t.sort)
		}
		switch l.kind {
		case "mem":
			arr.E[l.idx] = nv
		case "stack":
			a.stack[l.idx] = nv
		case "reg":
			a.regs[l.reg] = nv
		}
	}
	a.st.store(sim.stateArg, arr)
	sim.cur = fresh
}

func newRand(seed int64) *rand.Rand { return rand.New(rand.NewSource(seed)) }

func atomicAddQueries(n int64) { atomic.AddInt64(&statQueries, n) }

// asmSimFor: the reference step registered for fn by the directive attribute asmsim=<function>:<step>.
func (c *Ctx) asmSimFor(fn *ssa.Function) *ssa.Function {
	if c.asmSimSpec == "" {
		return nil
	}
	i := strings.LastIndex(c.asmSimSpec, ":")
	if i < 0 || shortName(fn.String()) != c.asmSimSpec[:i] {
		return nil
	}
	f := fn.Pkg.Func(c.asmSimSpec[i+1:])
	if f == nil {
		fail("asmsim: reference step %s not found in %s", c.asmSimSpec[i+1:], fn.Pkg.Pkg.Path())
	}
	return f
}

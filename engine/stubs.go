package main

import "golang.org/x/tools/go/ssa"

type AsmFunc struct{}

func (ld *Loaded) asmFuncsOrNil() map[string]*AsmFunc { return nil }
func (c *Ctx) execAsm(af *AsmFunc, fn *ssa.Function, args []Value, st *State, site ssa.Instruction) {
	fail("asm not supported yet")
}

func (c *Ctx) checkVartimeCall(st *State, fn *ssa.Function, args []Value, site ssa.Instruction) {}
func (c *Ctx) checkIndexLeak(st *State, p Pointer, in ssa.Instruction)                          {}
func (c *Ctx) checkBranchLeak(st *State, cond *Term, in ssa.Instruction)                        {}
func (c *Ctx) checkOperandLeak(st *State, t *Term, in ssa.Instruction, what string)             {}

package main

// Symbolic values and memory.

import (
	"fmt"
	"go/types"
	"math/big"
	"os"
	"runtime/debug"
	"strings"
	"sync"
	"sync/atomic"

	"golang.org/x/tools/go/ssa"
)

var ghostMergeCounter int64

type Value interface{}

// scalars are *Term; concrete strings are Go strings.

// StructV: G holds ghost attributes that travel with the struct value (copied on whole-struct load/store,
// dropped when any part of the struct is overwritten).
type StructV struct {
	F []Value
	G map[string]Value
}
type ArrayV struct{ E []Value }
type TupleV struct{ E []Value }

type Object struct {
	id   int
	name string
	typ  types.Type
	spec bool // a global declared by harness/specification code
}

type PathElem struct {
	Idx int
	Sym *Term // symbolic index (BV64) when non-nil
	N   int   // number of alternatives for a symbolic index
}

type Pointer struct {
	Obj  *Object // nil => nil pointer
	Path []PathElem
}

func (p Pointer) IsNil() bool { return p.Obj == nil }

func (p Pointer) child(e PathElem) Pointer {
	np := make([]PathElem, len(p.Path)+1)
	copy(np, p.Path)
	np[len(p.Path)] = e
	return Pointer{p.Obj, np}
}

func (p Pointer) equal(q Pointer) bool {
	if p.Obj != q.Obj || len(p.Path) != len(q.Path) {
		return false
	}
	for i := range p.Path {
		if p.Path[i].Idx != q.Path[i].Idx || p.Path[i].Sym != q.Path[i].Sym {
			return false
		}
	}
	return true
}

// SliceV: Base points at an array value; elements Off..Off+Len-1.
type SliceV struct {
	Base          Pointer
	Off, Len, Cap int
}

func (s SliceV) IsNil() bool { return s.Base.Obj == nil }

type IfaceV struct {
	T types.Type // nil => nil interface
	V Value
}

type FuncV struct {
	Fn   *ssa.Function
	Bi   *ssa.Builtin
	Bind []Value
}

// MapV is an association list with keys compared by term equality (used only for small maps).
type MapV struct {
	Keys []Value
	Vals []Value
}

// Ghost integer values (verif.Int) are *Term of Int sort; verif.BV values are *Term of BV sort.

type Mem map[*Object]Value

type pcNode struct {
	parent *pcNode
	t      *Term
	depth  int
}

func (p *pcNode) and(t *Term) *pcNode {
	if t.IsTrue() {
		return p
	}
	d := 1
	if p != nil {
		d = p.depth + 1
	}
	return &pcNode{p, t, d}
}

// implies: t (or its negation) is literally one of the conjuncts (bounded walk): +1 / -1 / 0.
func (p *pcNode) implies(t *Term) int {
	nt := Not(t)
	k := 0
	for n := p; n != nil && k < 4000; n = n.parent {
		k++
		if n.t == t {
			return 1
		}
		if n.t == nt {
			return -1
		}
		if n.t.op == OAnd {
			for _, x := range flattenAnd(n.t) {
				if x == t {
					return 1
				}
				if x == nt {
					return -1
				}
			}
		}
	}
	return 0
}

func (p *pcNode) term() *Term {
	r := TrueT
	for n := p; n != nil; n = n.parent {
		r = And(n.t, r)
	}
	return r
}

func (p *pcNode) list() []*Term {
	var l []*Term
	for n := p; n != nil; n = n.parent {
		l = append(l, n.t)
	}
	for i, j := 0, len(l)-1; i < j; i, j = i+1, j-1 {
		l[i], l[j] = l[j], l[i]
	}
	return l
}

func depthOf(p *pcNode) int {
	if p == nil {
		return 0
	}
	return p.depth
}

// pcSplit finds the common ancestor and the differing suffix conditions.
func pcSplit(a, b *pcNode) (common *pcNode, da, db *Term) {
	da, db = TrueT, TrueT
	for depthOf(a) > depthOf(b) {
		da = And(a.t, da)
		a = a.parent
	}
	for depthOf(b) > depthOf(a) {
		db = And(b.t, db)
		b = b.parent
	}
	for a != b {
		da = And(a.t, da)
		db = And(b.t, db)
		a, b = a.parent, b.parent
	}
	return a, da, db
}

type State struct {
	mem    Mem
	pc     *pcNode
	ghost  map[string]Value // ghost variables / logs keyed by name
	shared *sharedWatch     // when set: writes to objects that exist since package initialisation are recorded
}

// sharedWatch records stores to package-level state (objects created before or during init) made after init.
type sharedWatch struct {
	mu   sync.Mutex
	max  int
	hits map[string]bool
	objs map[*Object]bool // objects the harness declared shared between goroutines (read-only after construction)
}

func (s *State) fork() *State {
	m := make(Mem, len(s.mem))
	for k, v := range s.mem {
		m[k] = v
	}
	g := make(map[string]Value, len(s.ghost))
	for k, v := range s.ghost {
		g[k] = v
	}
	return &State{mem: m, pc: s.pc, ghost: g, shared: s.shared}
}

type execError struct{ msg string }

func (e execError) Error() string { return e.msg }

func fail(format string, a ...interface{}) {
	msg := fmt.Sprintf(format, a...)
	if pat := os.Getenv("VERIF_FAILSTACK"); pat != "" && strings.Contains(msg, pat) {
		debug.PrintStack()
	}
	panic(execError{msg})
}

// ---------- types ----------

func intWidth(t types.Type) (w int, signed bool, ok bool) {
	b, isb := t.Underlying().(*types.Basic)
	if !isb {
		return 0, false, false
	}
	switch b.Kind() {
	case types.Int8:
		return 8, true, true
	case types.Int16:
		return 16, true, true
	case types.Int32, types.UntypedRune:
		return 32, true, true
	case types.Int64, types.Int, types.UntypedInt:
		return 64, true, true
	case types.Uint8:
		return 8, false, true
	case types.Uint16:
		return 16, false, true
	case types.Uint32:
		return 32, false, true
	case types.Uint64, types.Uint, types.Uintptr:
		return 64, false, true
	}
	return 0, false, false
}

func isBool(t types.Type) bool {
	b, ok := t.Underlying().(*types.Basic)
	return ok && b.Info()&types.IsBoolean != 0
}
func isString(t types.Type) bool {
	b, ok := t.Underlying().(*types.Basic)
	return ok && b.Info()&types.IsString != 0
}

const verifPkgPath = "github.com/oasisprotocol/curve25519-voi/internal/verif"

func namedIs(t types.Type, pkg, name string) bool {
	n, ok := t.(*types.Named)
	if !ok {
		return false
	}
	o := n.Obj()
	return o.Name() == name && o.Pkg() != nil && o.Pkg().Path() == pkg
}

func zeroValue(t types.Type) Value {
	if namedIs(t, verifPkgPath, "Int") {
		return IntI(0)
	}
	if namedIs(t, verifPkgPath, "BV") {
		return BVU(0, 1)
	}
	switch u := t.Underlying().(type) {
	case *types.Basic:
		if w, _, ok := intWidth(u); ok {
			return BVU(0, w)
		}
		if isBool(u) {
			return FalseT
		}
		if isString(u) {
			return ""
		}
		if u.Kind() == types.UnsafePointer || u.Kind() == types.UntypedNil {
			return Pointer{}
		}
		if u.Info()&types.IsFloat != 0 {
			return BVU(0, 64)
		}
		fail("zeroValue: basic %v", u)
	case *types.Struct:
		s := &StructV{F: make([]Value, u.NumFields())}
		for i := range s.F {
			s.F[i] = zeroValue(u.Field(i).Type())
		}
		return s
	case *types.Array:
		a := &ArrayV{E: make([]Value, u.Len())}
		if u.Len() > 0 {
			z := zeroValue(u.Elem())
			for i := range a.E {
				a.E[i] = z
			}
		}
		return a
	case *types.Pointer:
		return Pointer{}
	case *types.Slice:
		return SliceV{}
	case *types.Interface:
		return IfaceV{}
	case *types.Signature:
		return FuncV{}
	case *types.Map:
		return (*MapV)(nil)
	case *types.Tuple:
		tv := &TupleV{E: make([]Value, u.Len())}
		for i := range tv.E {
			tv.E[i] = zeroValue(u.At(i).Type())
		}
		return tv
	case *types.Chan:
		return Pointer{}
	}
	fail("zeroValue: %v", t)
	return nil
}

// ---------- merging ----------

func valuesIdentical(a, b Value) bool {
	switch x := a.(type) {
	case *Term:
		y, ok := b.(*Term)
		return ok && x == y
	case *StructV:
		y, ok := b.(*StructV)
		if !ok {
			return false
		}
		if x == y {
			return true
		}
		if len(x.F) != len(y.F) || len(x.G) != len(y.G) {
			return false
		}
		for i := range x.F {
			if !valuesIdentical(x.F[i], y.F[i]) {
				return false
			}
		}
		for k, v := range x.G {
			w, ok := y.G[k]
			if !ok || !valuesIdentical(v, w) {
				return false
			}
		}
		return true
	case *ArrayV:
		y, ok := b.(*ArrayV)
		if !ok || len(x.E) != len(y.E) {
			return false
		}
		if x == y {
			return true
		}
		for i := range x.E {
			if !valuesIdentical(x.E[i], y.E[i]) {
				return false
			}
		}
		return true
	case *TupleV:
		y, ok := b.(*TupleV)
		if !ok || len(x.E) != len(y.E) {
			return false
		}
		for i := range x.E {
			if !valuesIdentical(x.E[i], y.E[i]) {
				return false
			}
		}
		return true
	case Pointer:
		y, ok := b.(Pointer)
		return ok && x.equal(y)
	case SliceV:
		y, ok := b.(SliceV)
		return ok && x.Base.equal(y.Base) && x.Off == y.Off && x.Len == y.Len && x.Cap == y.Cap
	case IfaceV:
		y, ok := b.(IfaceV)
		if !ok {
			return false
		}
		if x.T == nil || y.T == nil {
			return x.T == nil && y.T == nil
		}
		return types.Identical(x.T, y.T) && valuesIdentical(x.V, y.V)
	case FuncV:
		y, ok := b.(FuncV)
		if !ok || x.Fn != y.Fn || x.Bi != y.Bi || len(x.Bind) != len(y.Bind) {
			return false
		}
		for i := range x.Bind {
			if !valuesIdentical(x.Bind[i], y.Bind[i]) {
				return false
			}
		}
		return true
	case string:
		y, ok := b.(string)
		return ok && x == y
	case *MapV:
		y, ok := b.(*MapV)
		if !ok {
			return false
		}
		if x == y {
			return true
		}
		if x == nil || y == nil || len(x.Keys) != len(y.Keys) {
			return false
		}
		for i := range x.Keys {
			if !valuesIdentical(x.Keys[i], y.Keys[i]) || !valuesIdentical(x.Vals[i], y.Vals[i]) {
				return false
			}
		}
		return true
	case nil:
		return b == nil
	}
	return false
}

// mergeVal builds ite(c, a, b) structurally; ok=false if the shapes differ.
func mergeVal(c *Term, a, b Value) (Value, bool) {
	switch x := a.(type) {
	case *Term:
		y, ok := b.(*Term)
		if !ok || x.sort != y.sort {
			return nil, false
		}
		return Ite(c, x, y), true
	case *StructV:
		y, ok := b.(*StructV)
		if !ok || len(x.F) != len(y.F) {
			return nil, false
		}
		if x == y {
			return x, true
		}
		r := &StructV{F: make([]Value, len(x.F))}
		for i := range x.F {
			v, ok := mergeVal(c, x.F[i], y.F[i])
			if !ok {
				return nil, false
			}
			r.F[i] = v
		}
		// ghost attributes: an attribute present on one side only is unconstrained on the other
		if len(x.G) > 0 || len(y.G) > 0 {
			r.G = map[string]Value{}
			for k, v := range x.G {
				w, ok := y.G[k]
				if !ok {
					if t, isT := v.(*Term); isT {
						w = Var(fmt.Sprintf("ghostmerge!%d", atomic.AddInt64(&ghostMergeCounter, 1)), t.sort)
					} else {
						continue
					}
				}
				if m, ok := mergeVal(c, v, w); ok {
					r.G[k] = m
				}
			}
			for k, w := range y.G {
				if _, ok := x.G[k]; ok {
					continue
				}
				if t, isT := w.(*Term); isT {
					v := Var(fmt.Sprintf("ghostmerge!%d", atomic.AddInt64(&ghostMergeCounter, 1)), t.sort)
					if m, ok := mergeVal(c, v, w); ok {
						r.G[k] = m
					}
				}
			}
		}
		return r, true
	case *ArrayV:
		y, ok := b.(*ArrayV)
		if !ok || len(x.E) != len(y.E) {
			return nil, false
		}
		if x == y {
			return x, true
		}
		r := &ArrayV{E: make([]Value, len(x.E))}
		for i := range x.E {
			v, ok := mergeVal(c, x.E[i], y.E[i])
			if !ok {
				return nil, false
			}
			r.E[i] = v
		}
		return r, true
	case *TupleV:
		y, ok := b.(*TupleV)
		if !ok || len(x.E) != len(y.E) {
			return nil, false
		}
		r := &TupleV{E: make([]Value, len(x.E))}
		for i := range x.E {
			v, ok := mergeVal(c, x.E[i], y.E[i])
			if !ok {
				return nil, false
			}
			r.E[i] = v
		}
		return r, true
	case IfaceV:
		y, ok := b.(IfaceV)
		if !ok {
			return nil, false
		}
		if x.T == nil && y.T == nil {
			return x, true
		}
		if x.T == nil || y.T == nil || !types.Identical(x.T, y.T) {
			return nil, false
		}
		v, ok := mergeVal(c, x.V, y.V)
		if !ok {
			return nil, false
		}
		return IfaceV{x.T, v}, true
	default:
		if valuesIdentical(a, b) {
			return a, true
		}
		return nil, false
	}
}

// ---------- memory access ----------

func (s *State) newObject(c *Ctx, name string, t types.Type, v Value) Pointer {
	c.objCounter++
	o := &Object{id: c.objCounter, name: name, typ: t}
	s.mem[o] = v
	return Pointer{Obj: o}
}

func getPath(v Value, path []PathElem) Value {
	if len(path) == 0 {
		return v
	}
	e := path[0]
	switch x := v.(type) {
	case *StructV:
		return getPath(x.F[e.Idx], path[1:])
	case *ArrayV:
		if e.Sym == nil {
			if e.Idx < 0 || e.Idx >= len(x.E) {
				fail("getPath: index %d out of range %d", e.Idx, len(x.E))
			}
			return getPath(x.E[e.Idx], path[1:])
		}
		// symbolic index: ite chain over alternatives [Idx, Idx+N)
		var r Value
		for i := e.Idx + e.N - 1; i >= e.Idx; i-- {
			ev := getPath(x.E[i], path[1:])
			if r == nil {
				r = ev
				continue
			}
			m, ok := mergeVal(Eq(e.Sym, BVI(int64(i), 64)), ev, r)
			if !ok {
				fail("symbolic index over unmergeable elements")
			}
			r = m
		}
		return r
	}
	fail("getPath: cannot descend into %T", v)
	return nil
}

func setPath(v Value, path []PathElem, nv Value, guard *Term) Value {
	if len(path) == 0 {
		if guard == nil || guard.IsTrue() {
			return nv
		}
		m, ok := mergeVal(guard, nv, v)
		if !ok {
			fail("guarded store of unmergeable value")
		}
		return m
	}
	e := path[0]
	switch x := v.(type) {
	case *StructV:
		r := &StructV{F: append([]Value(nil), x.F...)}
		r.F[e.Idx] = setPath(x.F[e.Idx], path[1:], nv, guard)
		return r
	case *ArrayV:
		r := &ArrayV{E: append([]Value(nil), x.E...)}
		if e.Sym == nil {
			if e.Idx < 0 || e.Idx >= len(x.E) {
				fail("setPath: index %d out of range %d", e.Idx, len(x.E))
			}
			r.E[e.Idx] = setPath(x.E[e.Idx], path[1:], nv, guard)
			return r
		}
		for i := e.Idx; i < e.Idx+e.N; i++ {
			g := Eq(e.Sym, BVI(int64(i), 64))
			if guard != nil {
				g = And(guard, g)
			}
			r.E[i] = setPath(x.E[i], path[1:], nv, g)
		}
		return r
	}
	fail("setPath: cannot descend into %T", v)
	return nil
}

func (s *State) load(p Pointer) Value {
	if p.Obj == nil {
		fail("nil pointer dereference (load)")
	}
	root, ok := s.mem[p.Obj]
	if !ok {
		fail("load from unknown object %s", p.Obj.name)
	}
	return getPath(root, p.Path)
}

func (s *State) store(p Pointer, v Value) {
	if p.Obj == nil {
		fail("nil pointer dereference (store)")
	}
	root, ok := s.mem[p.Obj]
	if !ok {
		fail("store to unknown object %s", p.Obj.name)
	}
	if s.shared != nil && ((p.Obj.id <= s.shared.max && !p.Obj.spec) || s.shared.objs[p.Obj]) {
		s.shared.mu.Lock()
		s.shared.hits[p.Obj.name] = true
		s.shared.mu.Unlock()
	}
	s.mem[p.Obj] = setPath(root, p.Path, v, nil)
}

// sliceElems returns element pointers of a slice.
func sliceElem(s SliceV, i int) Pointer {
	return s.Base.child(PathElem{Idx: s.Off + i})
}

func (st *State) sliceLoadAll(s SliceV) []Value {
	if s.Len == 0 {
		return nil
	}
	arr := st.load(s.Base).(*ArrayV)
	return arr.E[s.Off : s.Off+s.Len]
}

func (st *State) sliceStoreAll(s SliceV, vals []Value) {
	if len(vals) == 0 {
		return
	}
	arr := st.load(s.Base).(*ArrayV)
	n := &ArrayV{E: append([]Value(nil), arr.E...)}
	copy(n.E[s.Off:], vals)
	st.store(s.Base, n)
}

func termOf(v Value) *Term {
	t, ok := v.(*Term)
	if !ok {
		fail("expected scalar term, got %T", v)
	}
	return t
}

func concreteInt(v Value) (int, bool) {
	t, ok := v.(*Term)
	if !ok || !t.IsConst() {
		return 0, false
	}
	if t.sort.K == KBV {
		return int(toSigned(t.val, t.sort.W).Int64()), true
	}
	return int(t.val.Int64()), true
}

func bytesToTerm(vals []Value) *Term {
	// little-endian concatenation: vals[0] is the least significant byte
	var r *Term
	for _, v := range vals {
		b := termOf(v)
		if r == nil {
			r = b
		} else {
			r = Concat(b, r)
		}
	}
	return r
}

func describeValue(v Value) string {
	switch x := v.(type) {
	case *Term:
		return x.String()
	case string:
		return fmt.Sprintf("%q", x)
	case *big.Int:
		return x.String()
	}
	return fmt.Sprintf("%T", v)
}

package main

// Exact intrinsics for small stdlib leaf functions and the verif.* harness vocabulary.

import (
	"fmt"
	"go/types"
	"math/big"
	"strings"

	"golang.org/x/tools/go/ssa"
)

type intrinsic func(c *Ctx, st *State, args []Value, site ssa.Instruction) Value

var endPath = &struct{ x int }{1}

var intrinsics map[string]intrinsic
var verifIntrinsics map[string]intrinsic

func tup(vs ...Value) Value { return &TupleV{E: vs} }

func leLoad(st *State, s SliceV, n int, c *Ctx, site ssa.Instruction) (*Term, bool) {
	if s.Len < n {
		c.recordPanic(st, site, "index out of range (binary load)")
		st.pc = st.pc.and(FalseT)
		return BVU(0, 8*n), false
	}
	vals := st.sliceLoadAll(SliceV{Base: s.Base, Off: s.Off, Len: n, Cap: n})
	return bytesToTerm(vals), true
}

func beLoad(st *State, s SliceV, n int, c *Ctx, site ssa.Instruction) (*Term, bool) {
	if s.Len < n {
		c.recordPanic(st, site, "index out of range (binary load)")
		st.pc = st.pc.and(FalseT)
		return BVU(0, 8*n), false
	}
	vals := st.sliceLoadAll(SliceV{Base: s.Base, Off: s.Off, Len: n, Cap: n})
	rev := make([]Value, n)
	for i := range vals {
		rev[n-1-i] = vals[i]
	}
	return bytesToTerm(rev), true
}

func leStore(st *State, s SliceV, n int, v *Term, c *Ctx, site ssa.Instruction, bigEndian bool) {
	if s.Len < n {
		c.recordPanic(st, site, "index out of range (binary store)")
		st.pc = st.pc.and(FalseT)
		return
	}
	vals := make([]Value, n)
	for i := 0; i < n; i++ {
		b := Extract(v, 8*i+7, 8*i)
		if bigEndian {
			vals[n-1-i] = b
		} else {
			vals[i] = b
		}
	}
	st.sliceStoreAll(SliceV{Base: s.Base, Off: s.Off, Len: n, Cap: n}, vals)
}

func init() {
	intrinsics = map[string]intrinsic{
		"math/bits.Mul64": func(c *Ctx, st *State, a []Value, site ssa.Instruction) Value {
			p := BvMul(Zext(termOf(a[0]), 128), Zext(termOf(a[1]), 128))
			return tup(Extract(p, 127, 64), Extract(p, 63, 0))
		},
		"math/bits.Mul32": func(c *Ctx, st *State, a []Value, site ssa.Instruction) Value {
			p := BvMul(Zext(termOf(a[0]), 64), Zext(termOf(a[1]), 64))
			return tup(Extract(p, 63, 32), Extract(p, 31, 0))
		},
		"math/bits.Add64": func(c *Ctx, st *State, a []Value, site ssa.Instruction) Value {
			s := BvAdd(BvAdd(Zext(termOf(a[0]), 65), Zext(termOf(a[1]), 65)), Zext(Extract(termOf(a[2]), 0, 0), 65))
			return tup(Extract(s, 63, 0), Zext(Extract(s, 64, 64), 64))
		},
		"math/bits.Sub64": func(c *Ctx, st *State, a []Value, site ssa.Instruction) Value {
			s := BvSub(BvSub(Zext(termOf(a[0]), 65), Zext(termOf(a[1]), 65)), Zext(Extract(termOf(a[2]), 0, 0), 65))
			return tup(Extract(s, 63, 0), Zext(Extract(s, 64, 64), 64))
		},
		"math/bits.Add32": func(c *Ctx, st *State, a []Value, site ssa.Instruction) Value {
			s := BvAdd(BvAdd(Zext(termOf(a[0]), 33), Zext(termOf(a[1]), 33)), Zext(Extract(termOf(a[2]), 0, 0), 33))
			return tup(Extract(s, 31, 0), Zext(Extract(s, 32, 32), 32))
		},
		"math/bits.Sub32": func(c *Ctx, st *State, a []Value, site ssa.Instruction) Value {
			s := BvSub(BvSub(Zext(termOf(a[0]), 33), Zext(termOf(a[1]), 33)), Zext(Extract(termOf(a[2]), 0, 0), 33))
			return tup(Extract(s, 31, 0), Zext(Extract(s, 32, 32), 32))
		},
		"math/bits.RotateLeft64": func(c *Ctx, st *State, a []Value, site ssa.Instruction) Value {
			x := termOf(a[0])
			k, ok := concreteInt(a[1])
			if !ok {
				fail("RotateLeft64 with symbolic count")
			}
			k = ((k % 64) + 64) % 64
			if k == 0 {
				return x
			}
			return Concat(Extract(x, 63-k, 0), Extract(x, 63, 64-k))
		},
		"math/bits.Len64": func(c *Ctx, st *State, a []Value, site ssa.Instruction) Value {
			return bitLen(termOf(a[0]), 64)
		},
		"math/bits.Len32": func(c *Ctx, st *State, a []Value, site ssa.Instruction) Value {
			return bitLen(termOf(a[0]), 32)
		},
		"math/bits.Len": func(c *Ctx, st *State, a []Value, site ssa.Instruction) Value {
			return bitLen(termOf(a[0]), 64)
		},
		"math/bits.LeadingZeros64": func(c *Ctx, st *State, a []Value, site ssa.Instruction) Value {
			return BvSub(BVI(64, 64), bitLen(termOf(a[0]), 64))
		},
		"(encoding/binary.littleEndian).Uint64": func(c *Ctx, st *State, a []Value, site ssa.Instruction) Value {
			v, _ := leLoad(st, a[1].(SliceV), 8, c, site)
			return v
		},
		"(encoding/binary.littleEndian).Uint32": func(c *Ctx, st *State, a []Value, site ssa.Instruction) Value {
			v, _ := leLoad(st, a[1].(SliceV), 4, c, site)
			return v
		},
		"(encoding/binary.littleEndian).Uint16": func(c *Ctx, st *State, a []Value, site ssa.Instruction) Value {
			v, _ := leLoad(st, a[1].(SliceV), 2, c, site)
			return v
		},
		"(encoding/binary.bigEndian).Uint64": func(c *Ctx, st *State, a []Value, site ssa.Instruction) Value {
			v, _ := beLoad(st, a[1].(SliceV), 8, c, site)
			return v
		},
		"(encoding/binary.bigEndian).Uint32": func(c *Ctx, st *State, a []Value, site ssa.Instruction) Value {
			v, _ := beLoad(st, a[1].(SliceV), 4, c, site)
			return v
		},
		"(encoding/binary.bigEndian).Uint16": func(c *Ctx, st *State, a []Value, site ssa.Instruction) Value {
			v, _ := beLoad(st, a[1].(SliceV), 2, c, site)
			return v
		},
		"(encoding/binary.littleEndian).PutUint64": func(c *Ctx, st *State, a []Value, site ssa.Instruction) Value {
			leStore(st, a[1].(SliceV), 8, termOf(a[2]), c, site, false)
			return nil
		},
		"(encoding/binary.littleEndian).PutUint32": func(c *Ctx, st *State, a []Value, site ssa.Instruction) Value {
			leStore(st, a[1].(SliceV), 4, termOf(a[2]), c, site, false)
			return nil
		},
		"(encoding/binary.littleEndian).PutUint16": func(c *Ctx, st *State, a []Value, site ssa.Instruction) Value {
			leStore(st, a[1].(SliceV), 2, termOf(a[2]), c, site, false)
			return nil
		},
		"(encoding/binary.bigEndian).PutUint64": func(c *Ctx, st *State, a []Value, site ssa.Instruction) Value {
			leStore(st, a[1].(SliceV), 8, termOf(a[2]), c, site, true)
			return nil
		},
		"(encoding/binary.bigEndian).PutUint32": func(c *Ctx, st *State, a []Value, site ssa.Instruction) Value {
			leStore(st, a[1].(SliceV), 4, termOf(a[2]), c, site, true)
			return nil
		},
		"(encoding/binary.bigEndian).PutUint16": func(c *Ctx, st *State, a []Value, site ssa.Instruction) Value {
			leStore(st, a[1].(SliceV), 2, termOf(a[2]), c, site, true)
			return nil
		},
		"bytes.Equal": func(c *Ctx, st *State, a []Value, site ssa.Instruction) Value {
			x, y := a[0].(SliceV), a[1].(SliceV)
			if x.Len != y.Len {
				return FalseT
			}
			return bytesEq(st.sliceLoadAll(x), st.sliceLoadAll(y))
		},
		"crypto/subtle.ConstantTimeCompare": func(c *Ctx, st *State, a []Value, site ssa.Instruction) Value {
			x, y := a[0].(SliceV), a[1].(SliceV)
			if x.Len != y.Len {
				return BVI(0, 64)
			}
			return BoolToBV(bytesEq(st.sliceLoadAll(x), st.sliceLoadAll(y)), 64)
		},
		"crypto/subtle.ConstantTimeByteEq": func(c *Ctx, st *State, a []Value, site ssa.Instruction) Value {
			return BoolToBV(Eq(termOf(a[0]), termOf(a[1])), 64)
		},
		"crypto/subtle.ConstantTimeEq": func(c *Ctx, st *State, a []Value, site ssa.Instruction) Value {
			return BoolToBV(Eq(termOf(a[0]), termOf(a[1])), 64)
		},
		"fmt.Errorf": func(c *Ctx, st *State, a []Value, site ssa.Instruction) Value {
			return c.opaqueError(st, "fmt.Errorf@"+c.posOf(site))
		},
		"fmt.Sprintf": func(c *Ctx, st *State, a []Value, site ssa.Instruction) Value {
			if s, ok := a[0].(string); ok {
				return "fmt.Sprintf(" + s + ")"
			}
			return "fmt.Sprintf"
		},
		"strconv.Itoa": func(c *Ctx, st *State, a []Value, site ssa.Instruction) Value {
			if k, ok := concreteInt(a[0]); ok {
				return fmt.Sprint(k)
			}
			return "<int>"
		},
		"(*sync.Mutex).Lock": func(c *Ctx, st *State, a []Value, site ssa.Instruction) Value {
			return c.mutexOp(st, a[0].(Pointer), true, site)
		},
		"(*sync.Mutex).Unlock": func(c *Ctx, st *State, a []Value, site ssa.Instruction) Value {
			return c.mutexOp(st, a[0].(Pointer), false, site)
		},
	}

	V := map[string]intrinsic{}
	verifIntrinsics = V
	anyScalar := func(w int) intrinsic {
		return func(c *Ctx, st *State, a []Value, site ssa.Instruction) Value {
			return c.newInput(a[0].(string), BV(w))
		}
	}
	V["AnyU64"] = anyScalar(64)
	V["AnyU32"] = anyScalar(32)
	V["AnyU16"] = anyScalar(16)
	V["AnyU8"] = anyScalar(8)
	V["AnyInt"] = anyScalar(64)
	V["AnyI64"] = anyScalar(64)
	V["AnyI8"] = anyScalar(8)
	V["AnyBool"] = func(c *Ctx, st *State, a []Value, site ssa.Instruction) Value {
		return c.newInput(a[0].(string), BoolSort)
	}
	V["AnyBytes"] = func(c *Ctx, st *State, a []Value, site ssa.Instruction) Value {
		c.fillAny(st, a[0].(string), a[1].(SliceV), 8)
		return nil
	}
	V["AnyU64s"] = func(c *Ctx, st *State, a []Value, site ssa.Instruction) Value {
		c.fillAny(st, a[0].(string), a[1].(SliceV), 64)
		return nil
	}
	V["AnyU32s"] = func(c *Ctx, st *State, a []Value, site ssa.Instruction) Value {
		c.fillAny(st, a[0].(string), a[1].(SliceV), 32)
		return nil
	}
	V["AnyI8s"] = func(c *Ctx, st *State, a []Value, site ssa.Instruction) Value {
		c.fillAny(st, a[0].(string), a[1].(SliceV), 8)
		return nil
	}
	V["Secret"] = func(c *Ctx, st *State, a []Value, site ssa.Instruction) Value {
		// marks every input whose name starts with the prefix as secret (constant-time checks)
		c.secret[a[0].(string)] = true
		c.secretMemo = map[*Term]bool{}
		return nil
	}
	V["Assume"] = func(c *Ctx, st *State, a []Value, site ssa.Instruction) Value {
		st.pc = st.pc.and(termOf(a[0]))
		if st.pc.term().IsFalse() {
			return endPath
		}
		return nil
	}
	V["Assert"] = func(c *Ctx, st *State, a []Value, site ssa.Instruction) Value {
		g := termOf(a[0])
		c.addOb(st, "assert", a[1].(string), c.posOf(site), g)
		for _, t := range flattenAnd(g) {
			c.asserted[t] = true // proved facts are assumed afterwards, but are not used as rewrite rules
		}
		st.pc = st.pc.and(g)
		if st.pc.term().IsFalse() {
			return endPath
		}
		return nil
	}
	V["Reach"] = func(c *Ctx, st *State, a []Value, site ssa.Instruction) Value {
		hyp := st.pc.term()
		c.obs = append(c.obs, &Oblig{Name: a[0].(string), Kind: "reach", Pos: c.posOf(site), Hyp: hyp, Goal: FalseT})
		return nil
	}
	V["Unreachable"] = func(c *Ctx, st *State, a []Value, site ssa.Instruction) Value {
		c.addOb(st, "assert", a[0].(string), c.posOf(site), FalseT)
		return endPath
	}
	V["Requires"] = func(c *Ctx, st *State, a []Value, site ssa.Instruction) Value {
		cf := c.topContract()
		g := termOf(a[0])
		if cf != nil && cf.prove {
			st.pc = st.pc.and(g)
			if st.pc.term().IsFalse() {
				return endPath
			}
			return nil
		}
		nm := a[1].(string)
		if cf != nil {
			nm = "requires[" + cf.real.Name() + "] " + nm + " @" + strings.Join(c.callSites(), "<")
		}
		c.addOb(st, "requires", nm, c.posOf(site), g)
		st.pc = st.pc.and(g)
		if st.pc.term().IsFalse() {
			return endPath
		}
		return nil
	}
	V["Ensures"] = func(c *Ctx, st *State, a []Value, site ssa.Instruction) Value {
		cf := c.topContract()
		g := termOf(a[0])
		if cf != nil && cf.prove {
			c.addOb(st, "ensures", "ensures["+cf.real.Name()+"] "+a[1].(string), c.posOf(site), g)
		}
		st.pc = st.pc.and(g)
		if st.pc.term().IsFalse() {
			return endPath
		}
		return nil
	}
	V["Havoc"] = func(c *Ctx, st *State, a []Value, site ssa.Instruction) Value {
		cf := c.topContract()
		iv := a[0].(IfaceV)
		var ptrs []Pointer
		switch x := iv.V.(type) {
		case Pointer:
			ptrs = append(ptrs, x)
		case SliceV:
			for i := 0; i < x.Len; i++ {
				ptrs = append(ptrs, sliceElem(x, i))
			}
		default:
			fail("Havoc of %T", iv.V)
		}
		for _, p := range ptrs {
			if cf != nil {
				cf.havoced = append(cf.havoced, p)
			}
			if cf != nil && cf.prove {
				continue
			}
			old := st.load(p)
			if c.shadow && cf != nil {
				cf.inReal = false
				nv := c.havocValue(old, "hv")
				c.pairValues(nv, old)
				continue // the real result stays in place
			}
			nv := c.havocValue(old, "hv")
			if cf != nil && cf.taint {
				c.taintValue(nv)
			}
			st.store(p, nv)
		}
		return nil
	}
	V["Proving"] = func(c *Ctx, st *State, a []Value, site ssa.Instruction) Value {
		cf := c.topContract()
		return BoolC(cf != nil && cf.prove)
	}

	// ---- ghost integers ----
	V["IntOf"] = func(c *Ctx, st *State, a []Value, site ssa.Instruction) Value { return Bv2Int(termOf(a[0])) }
	V["IntOf32"] = V["IntOf"]
	V["IntOf8"] = V["IntOf"]
	V["IntOfI"] = func(c *Ctx, st *State, a []Value, site ssa.Instruction) Value {
		return Bv2IntS(termOf(a[0]))
	}
	V["IntOfI8"] = V["IntOfI"]
	V["IntOfI64"] = V["IntOfI"]
	V["IntLit"] = func(c *Ctx, st *State, a []Value, site ssa.Instruction) Value {
		s := strings.ReplaceAll(a[0].(string), "_", "")
		v, ok := new(big.Int).SetString(s, 0)
		if !ok {
			fail("IntLit: bad literal %q", s)
		}
		return IntC(v)
	}
	V["IntK"] = func(c *Ctx, st *State, a []Value, site ssa.Instruction) Value {
		k, ok := concreteInt(a[0])
		if !ok {
			fail("IntK of symbolic value")
		}
		return IntI(int64(k))
	}
	V["Pow2"] = func(c *Ctx, st *State, a []Value, site ssa.Instruction) Value {
		k, ok := concreteInt(a[0])
		if !ok {
			fail("Pow2 of symbolic value")
		}
		return IntC(pow2(k))
	}
	V["AnyIntG"] = func(c *Ctx, st *State, a []Value, site ssa.Instruction) Value {
		return c.newInput(a[0].(string), IntSort)
	}
	V["IntLE"] = func(c *Ctx, st *State, a []Value, site ssa.Instruction) Value {
		vals := st.sliceLoadAll(a[0].(SliceV))
		if len(vals) == 0 {
			return IntI(0)
		}
		return Bv2Int(bytesToTerm(vals))
	}
	V["IntBE"] = func(c *Ctx, st *State, a []Value, site ssa.Instruction) Value {
		vals := st.sliceLoadAll(a[0].(SliceV))
		if len(vals) == 0 {
			return IntI(0)
		}
		rev := make([]Value, len(vals))
		for i := range vals {
			rev[len(vals)-1-i] = vals[i]
		}
		return Bv2Int(bytesToTerm(rev))
	}
	V["Int.Add"] = func(c *Ctx, st *State, a []Value, site ssa.Instruction) Value {
		return IAdd(termOf(a[0]), termOf(a[1]))
	}
	V["Int.Sub"] = func(c *Ctx, st *State, a []Value, site ssa.Instruction) Value {
		return ISub(termOf(a[0]), termOf(a[1]))
	}
	V["Int.Mul"] = func(c *Ctx, st *State, a []Value, site ssa.Instruction) Value {
		return IMul(termOf(a[0]), termOf(a[1]))
	}
	V["Int.Neg"] = func(c *Ctx, st *State, a []Value, site ssa.Instruction) Value { return INeg(termOf(a[0])) }
	V["Int.Div"] = func(c *Ctx, st *State, a []Value, site ssa.Instruction) Value {
		return IDiv(termOf(a[0]), termOf(a[1]))
	}
	V["Int.Mod"] = func(c *Ctx, st *State, a []Value, site ssa.Instruction) Value {
		return IMod(termOf(a[0]), termOf(a[1]))
	}
	V["Int.Shl"] = func(c *Ctx, st *State, a []Value, site ssa.Instruction) Value {
		k, ok := concreteInt(a[1])
		if !ok {
			fail("Int.Shl by symbolic amount")
		}
		return IMul(termOf(a[0]), IntC(pow2(k)))
	}
	V["Int.Lt"] = func(c *Ctx, st *State, a []Value, site ssa.Instruction) Value { return ILt(termOf(a[0]), termOf(a[1])) }
	V["Int.Le"] = func(c *Ctx, st *State, a []Value, site ssa.Instruction) Value { return ILe(termOf(a[0]), termOf(a[1])) }
	V["Int.Eq"] = func(c *Ctx, st *State, a []Value, site ssa.Instruction) Value { return Eq(termOf(a[0]), termOf(a[1])) }
	V["Int.Ite"] = func(c *Ctx, st *State, a []Value, site ssa.Instruction) Value {
		return Ite(termOf(a[1]), termOf(a[0]), termOf(a[2]))
	}
	V["IteInt"] = func(c *Ctx, st *State, a []Value, site ssa.Instruction) Value {
		return Ite(termOf(a[0]), termOf(a[1]), termOf(a[2]))
	}
	V["ModEq"] = func(c *Ctx, st *State, a []Value, site ssa.Instruction) Value {
		// a ≡ b (mod m): as a goal "(a-b) mod m = 0"; as an assumption the engine skolemises it (see skolemiseModEq)
		return Eq(IMod(ISub(termOf(a[0]), termOf(a[1])), termOf(a[2])), IntI(0))
	}

	// ---- ghost bit-vectors ----
	V["BVOf"] = func(c *Ctx, st *State, a []Value, site ssa.Instruction) Value { return termOf(a[0]) }
	V["BVOf8"] = V["BVOf"]
	V["BVOf32"] = V["BVOf"]
	V["BVLE"] = func(c *Ctx, st *State, a []Value, site ssa.Instruction) Value {
		return bytesToTerm(st.sliceLoadAll(a[0].(SliceV)))
	}
	V["BVLE64"] = func(c *Ctx, st *State, a []Value, site ssa.Instruction) Value {
		return bytesToTerm(st.sliceLoadAll(a[0].(SliceV)))
	}
	V["BVLE32"] = V["BVLE64"]
	V["BVHex"] = func(c *Ctx, st *State, a []Value, site ssa.Instruction) Value {
		w, _ := concreteInt(a[1])
		v, ok := new(big.Int).SetString(strings.ReplaceAll(a[0].(string), "_", ""), 16)
		if !ok {
			fail("BVHex: bad literal")
		}
		return BVC(v, w)
	}
	V["BVDec"] = func(c *Ctx, st *State, a []Value, site ssa.Instruction) Value {
		w, _ := concreteInt(a[1])
		v, ok := new(big.Int).SetString(strings.ReplaceAll(a[0].(string), "_", ""), 10)
		if !ok {
			fail("BVDec: bad literal")
		}
		return BVC(v, w)
	}
	V["AnyBV"] = func(c *Ctx, st *State, a []Value, site ssa.Instruction) Value {
		w, _ := concreteInt(a[1])
		return c.newInput(a[0].(string), BV(w))
	}
	bv2 := func(f func(a, b *Term) *Term) intrinsic {
		return func(c *Ctx, st *State, a []Value, site ssa.Instruction) Value {
			x, y := termOf(a[0]), termOf(a[1])
			if x.sort.W != y.sort.W {
				fail("verif.BV operation on widths %d and %d at %s", x.sort.W, y.sort.W, c.posOf(site))
			}
			return f(x, y)
		}
	}
	V["BV.Add"] = bv2(BvAdd)
	V["BV.Sub"] = bv2(BvSub)
	V["BV.Mul"] = bv2(BvMul)
	V["BV.And"] = bv2(BvAnd)
	V["BV.Or"] = bv2(BvOr)
	V["BV.Xor"] = bv2(BvXor)
	V["BV.ULT"] = bv2(BvUlt)
	V["BV.ULE"] = bv2(BvUle)
	V["BV.SLT"] = bv2(BvSlt)
	V["BV.SLE"] = bv2(BvSle)
	V["BV.Eq"] = bv2(Eq)
	V["BV.Not"] = func(c *Ctx, st *State, a []Value, site ssa.Instruction) Value { return BvNot(termOf(a[0])) }
	V["BV.Neg"] = func(c *Ctx, st *State, a []Value, site ssa.Instruction) Value { return BvNeg(termOf(a[0])) }
	V["BV.Shl"] = func(c *Ctx, st *State, a []Value, site ssa.Instruction) Value {
		x := termOf(a[0])
		k, ok := concreteInt(a[1])
		if !ok {
			return BvShl(x, Resize(termOf(a[1]), x.sort.W, false))
		}
		return BvShl(x, BVI(int64(k), x.sort.W))
	}
	V["BV.Lshr"] = func(c *Ctx, st *State, a []Value, site ssa.Instruction) Value {
		x := termOf(a[0])
		k, ok := concreteInt(a[1])
		if !ok {
			return BvLshr(x, Resize(termOf(a[1]), x.sort.W, false))
		}
		return BvLshr(x, BVI(int64(k), x.sort.W))
	}
	V["BV.Ashr"] = func(c *Ctx, st *State, a []Value, site ssa.Instruction) Value {
		x := termOf(a[0])
		k, ok := concreteInt(a[1])
		if !ok {
			return BvAshr(x, Resize(termOf(a[1]), x.sort.W, false))
		}
		return BvAshr(x, BVI(int64(k), x.sort.W))
	}
	V["BV.Zext"] = func(c *Ctx, st *State, a []Value, site ssa.Instruction) Value {
		w, _ := concreteInt(a[1])
		return Zext(termOf(a[0]), w)
	}
	V["BV.Sext"] = func(c *Ctx, st *State, a []Value, site ssa.Instruction) Value {
		w, _ := concreteInt(a[1])
		return Sext(termOf(a[0]), w)
	}
	V["BV.Extract"] = func(c *Ctx, st *State, a []Value, site ssa.Instruction) Value {
		hi, _ := concreteInt(a[1])
		lo, _ := concreteInt(a[2])
		return Extract(termOf(a[0]), hi, lo)
	}
	V["BV.Concat"] = func(c *Ctx, st *State, a []Value, site ssa.Instruction) Value {
		return Concat(termOf(a[0]), termOf(a[1]))
	}
	V["BV.U64"] = func(c *Ctx, st *State, a []Value, site ssa.Instruction) Value {
		return Resize(termOf(a[0]), 64, false)
	}
	V["BV.Int"] = func(c *Ctx, st *State, a []Value, site ssa.Instruction) Value { return Bv2Int(termOf(a[0])) }
	V["BV.Ite"] = func(c *Ctx, st *State, a []Value, site ssa.Instruction) Value {
		return Ite(termOf(a[1]), termOf(a[0]), termOf(a[2]))
	}
	V["IteBV"] = func(c *Ctx, st *State, a []Value, site ssa.Instruction) Value {
		return Ite(termOf(a[0]), termOf(a[1]), termOf(a[2]))
	}
	V["IteU64"] = V["IteBV"]
	V["Implies"] = func(c *Ctx, st *State, a []Value, site ssa.Instruction) Value {
		return Implies(termOf(a[0]), termOf(a[1]))
	}

	// ---- uninterpreted functions over byte strings ----
	V["UFBytes"] = func(c *Ctx, st *State, a []Value, site ssa.Instruction) Value {
		// UFBytes(name, out []byte, in ...[]byte): out = name_<shape>(in...)
		name := a[0].(string)
		out := a[1].(SliceV)
		args, shape := c.ufArgs(st, a[2].(SliceV))
		res := UF(fmt.Sprintf("%s_%s_o%d", name, shape, out.Len), BV(8*out.Len), args...)
		vals := make([]Value, out.Len)
		for i := range vals {
			vals[i] = Extract(res, 8*i+7, 8*i)
		}
		st.sliceStoreAll(out, vals)
		return nil
	}
	V["UFBool"] = func(c *Ctx, st *State, a []Value, site ssa.Instruction) Value {
		args, shape := c.ufArgs(st, a[1].(SliceV))
		return UF(fmt.Sprintf("%s_%s", a[0].(string), shape), BoolSort, args...)
	}
	V["UFU64"] = func(c *Ctx, st *State, a []Value, site ssa.Instruction) Value {
		args, shape := c.ufArgs(st, a[1].(SliceV))
		return UF(fmt.Sprintf("%s_%s", a[0].(string), shape), BV(64), args...)
	}
	V["UFBV"] = func(c *Ctx, st *State, a []Value, site ssa.Instruction) Value {
		// UFBV(name, width, args ...BV) BV
		w, _ := concreteInt(a[1])
		var args []*Term
		shape := ""
		for _, v := range st.sliceLoadAll(a[2].(SliceV)) {
			args = append(args, termOf(v))
			shape += fmt.Sprintf("_%d", termOf(v).sort.W)
		}
		return UF(fmt.Sprintf("%s%s_o%d", a[0].(string), shape, w), BV(w), args...)
	}
	V["UFBVBool"] = func(c *Ctx, st *State, a []Value, site ssa.Instruction) Value {
		var args []*Term
		shape := ""
		for _, v := range st.sliceLoadAll(a[1].(SliceV)) {
			args = append(args, termOf(v))
			shape += fmt.Sprintf("_%d", termOf(v).sort.W)
		}
		return UF(fmt.Sprintf("%s%s", a[0].(string), shape), BoolSort, args...)
	}
	V["BVToBytes"] = func(c *Ctx, st *State, a []Value, site ssa.Instruction) Value {
		v := termOf(a[0])
		out := a[1].(SliceV)
		if v.sort.W != 8*out.Len {
			fail("BVToBytes: width %d into %d bytes", v.sort.W, out.Len)
		}
		vals := make([]Value, out.Len)
		for i := range vals {
			vals[i] = Extract(v, 8*i+7, 8*i)
		}
		st.sliceStoreAll(out, vals)
		return nil
	}
	V["UFInt"] = func(c *Ctx, st *State, a []Value, site ssa.Instruction) Value {
		// UFInt(name, args ...Int) Int
		var args []*Term
		for _, v := range st.sliceLoadAll(a[1].(SliceV)) {
			args = append(args, termOf(v))
		}
		return UF(fmt.Sprintf("%s_i%d", a[0].(string), len(args)), IntSort, args...)
	}
	V["UFIntBool"] = func(c *Ctx, st *State, a []Value, site ssa.Instruction) Value {
		var args []*Term
		for _, v := range st.sliceLoadAll(a[1].(SliceV)) {
			args = append(args, termOf(v))
		}
		return UF(fmt.Sprintf("%s_i%d", a[0].(string), len(args)), BoolSort, args...)
	}

	// ---- ghost state attached to memory locations ----
	V["GhostSet"] = func(c *Ctx, st *State, a []Value, site ssa.Instruction) Value {
		c.usedGhost = true
		p := ghostPtr(a[0])
		sv, ok := st.load(p).(*StructV)
		if !ok {
			fail("GhostSet on a non-struct location")
		}
		n := &StructV{F: sv.F, G: map[string]Value{}}
		for k, v := range sv.G {
			n.G[k] = v
		}
		n.G[a[1].(string)] = a[2]
		storeKeepGhost(st, p, n)
		return nil
	}
	V["GhostSetBV"] = func(c *Ctx, st *State, a []Value, site ssa.Instruction) Value {
		return V["GhostSet"](c, st, a, site)
	}
	V["GhostGetBV"] = func(c *Ctx, st *State, a []Value, site ssa.Instruction) Value {
		p := ghostPtr(a[0])
		sv, ok := st.load(p).(*StructV)
		if !ok {
			fail("GhostGetBV on a non-struct location")
		}
		attr := a[1].(string)
		if v, ok := sv.G[attr]; ok {
			return v
		}
		w, _ := concreteInt(a[2])
		v := Var(c.freshName("ghost_"+attr), BV(w))
		n := &StructV{F: sv.F, G: map[string]Value{}}
		for k, x := range sv.G {
			n.G[k] = x
		}
		n.G[attr] = v
		storeKeepGhost(st, p, n)
		return v
	}
	V["GhostGet"] = func(c *Ctx, st *State, a []Value, site ssa.Instruction) Value {
		p := ghostPtr(a[0])
		sv, ok := st.load(p).(*StructV)
		if !ok {
			fail("GhostGet on a non-struct location")
		}
		attr := a[1].(string)
		if v, ok := sv.G[attr]; ok {
			return v
		}
		// unconstrained ghost value, created on first use and remembered
		v := Var(c.freshName("ghost_"+attr), IntSort)
		if c.trace {
			fmt.Printf("[ghost] fresh %s for %s at %s (stack %s)\n", v.name, attr, c.posOf(site), strings.Join(c.callSites(), "<"))
		}
		n := &StructV{F: sv.F, G: map[string]Value{}}
		for k, x := range sv.G {
			n.G[k] = x
		}
		n.G[attr] = v
		storeKeepGhost(st, p, n)
		return v
	}
	V["GhostHas"] = func(c *Ctx, st *State, a []Value, site ssa.Instruction) Value {
		sv, ok := st.load(ghostPtr(a[0])).(*StructV)
		if !ok {
			return FalseT
		}
		_, has := sv.G[a[1].(string)]
		return BoolC(has)
	}
	V["Pin"] = func(c *Ctx, st *State, a []Value, site ssa.Instruction) Value {
		// a solver variable pinned to a (usually constant) value by two inequalities: the relation asserted
		// about it is then decided by the solver, not by the engine's constant folder
		v := termOf(a[0])
		g := Var(c.freshName("pin"), IntSort)
		st.pc = st.pc.and(And(ILe(g, v), ILe(v, g)))
		return g
	}
	V["SkipRun"] = func(c *Ctx, st *State, a []Value, site ssa.Instruction) Value {
		// a redundant combination of case-split parameters: nothing to check in this run
		c.skipRun = true
		st.pc = st.pc.and(FalseT)
		return nil
	}
	V["SharedRO"] = func(c *Ctx, st *State, a []Value, site ssa.Instruction) Value {
		if st.shared == nil {
			fail("verif.SharedRO needs sharedro=1 on the obligation")
		}
		if p, ok := a[0].(IfaceV).V.(Pointer); ok && p.Obj != nil {
			st.shared.mu.Lock()
			st.shared.objs[p.Obj] = true
			st.shared.mu.Unlock()
		}
		return nil
	}
	V["MutexAcquisitions"] = func(c *Ctx, st *State, a []Value, site ssa.Instruction) Value {
		n, _ := st.ghost[ghostKey(a[0].(IfaceV).V, "locks")].(*Term)
		if n == nil {
			return BVI(0, 64)
		}
		return n
	}
	V["MutexHeld"] = func(c *Ctx, st *State, a []Value, site ssa.Instruction) Value {
		held, _ := st.ghost[ghostKey(a[0], "held")].(*Term)
		if held == nil {
			return FalseT
		}
		return held
	}
	V["IsConcrete"] = func(c *Ctx, st *State, a []Value, site ssa.Instruction) Value {
		t, ok := a[0].(IfaceV).V.(*Term)
		return BoolC(ok && t.IsConst())
	}
	V["Engine"] = func(c *Ctx, st *State, a []Value, site ssa.Instruction) Value { return TrueT }
	V["Log"] = func(c *Ctx, st *State, a []Value, site ssa.Instruction) Value {
		if c.trace {
			fmt.Printf("[log] %s: %s\n", a[0].(string), describeValue(a[1].(IfaceV).V))
		}
		return nil
	}
}

func ghostPtr(v Value) Pointer {
	if iv, ok := v.(IfaceV); ok {
		v = iv.V
	}
	p, ok := v.(Pointer)
	if !ok || p.Obj == nil {
		fail("ghost attribute on %T", v)
	}
	return p
}

// storeKeepGhost replaces the struct at p without invalidating ghost attributes of enclosing structs.
func storeKeepGhost(st *State, p Pointer, n *StructV) {
	root := st.mem[p.Obj]
	st.mem[p.Obj] = setPathG(root, p.Path, n)
}

func setPathG(v Value, path []PathElem, nv Value) Value {
	if len(path) == 0 {
		return nv
	}
	e := path[0]
	switch x := v.(type) {
	case *StructV:
		r := &StructV{F: append([]Value(nil), x.F...), G: x.G}
		r.F[e.Idx] = setPathG(x.F[e.Idx], path[1:], nv)
		return r
	case *ArrayV:
		r := &ArrayV{E: append([]Value(nil), x.E...)}
		if e.Sym != nil {
			// every candidate element becomes "the new value if the index selects it, else what it was"
			for i := e.Idx; i < e.Idx+e.N; i++ {
				m, ok := mergeVal(Eq(e.Sym, BVI(int64(i), 64)), setPathG(x.E[i], path[1:], nv), x.E[i])
				if !ok {
					fail("ghost attribute through symbolic index: unmergeable element")
				}
				r.E[i] = m
			}
			return r
		}
		r.E[e.Idx] = setPathG(x.E[e.Idx], path[1:], nv)
		return r
	}
	fail("setPathG: cannot descend into %T", v)
	return nil
}

func ghostKey(v Value, attr string) string {
	p := ghostPtr(v)
	var sb strings.Builder
	fmt.Fprintf(&sb, "o%d", p.Obj.id)
	for _, e := range p.Path {
		fmt.Fprintf(&sb, ".%d", e.Idx)
	}
	return sb.String() + "/" + attr
}

func (c *Ctx) topContract() *contractFrame {
	if len(c.curContract) == 0 {
		return nil
	}
	return c.curContract[len(c.curContract)-1]
}

func (c *Ctx) callSites() []string {
	var s []string
	for i := len(c.stack) - 1; i >= 0 && len(s) < 3; i-- {
		n := c.stack[i]
		if k := strings.LastIndex(n, "/"); k >= 0 {
			n = n[k+1:]
		}
		s = append(s, n)
	}
	return s
}

func (c *Ctx) newInput(name string, s Sort) *Term {
	v := Var(name, s)
	for _, x := range c.inputs {
		if x == v {
			return v
		}
	}
	c.inputs = append(c.inputs, v)
	return v
}

func (c *Ctx) fillAny(st *State, name string, s SliceV, w int) {
	vals := make([]Value, s.Len)
	for i := range vals {
		vals[i] = c.newInput(fmt.Sprintf("%s[%d]", name, i), BV(w))
	}
	st.sliceStoreAll(s, vals)
}

func (c *Ctx) havocValue(old Value, prefix string) Value {
	switch x := old.(type) {
	case *Term:
		return Var(c.freshName(prefix), x.sort)
	case *StructV:
		r := &StructV{F: make([]Value, len(x.F))}
		for i := range x.F {
			r.F[i] = c.havocValue(x.F[i], prefix)
		}
		return r
	case *ArrayV:
		r := &ArrayV{E: make([]Value, len(x.E))}
		for i := range x.E {
			r.E[i] = c.havocValue(x.E[i], prefix)
		}
		return r
	}
	return old // pointers, slices, interfaces are left alone
}

// bytesEq compares two equally long byte strings as ONE wide equality (a single linear fact in Int mode).
func bytesEq(x, y []Value) *Term {
	if len(x) == 0 {
		return TrueT
	}
	return Eq(bytesToTerm(x), bytesToTerm(y))
}

func bitLen(x *Term, w int) *Term {
	// number of bits needed: ite chain from the top
	r := BVI(0, 64)
	for i := 0; i < w; i++ {
		r = Ite(Eq(Extract(x, i, i), BVU(1, 1)), BVI(int64(i+1), 64), r)
	}
	return r
}

func (c *Ctx) ufArgs(st *State, variadic SliceV) ([]*Term, string) {
	var args []*Term
	var shape []string
	for _, v := range st.sliceLoadAll(variadic) {
		s := v.(SliceV)
		if s.Len == 0 {
			shape = append(shape, "0")
			continue
		}
		args = append(args, bytesToTerm(st.sliceLoadAll(s)))
		shape = append(shape, fmt.Sprint(s.Len))
	}
	return args, strings.Join(shape, "x")
}

func (c *Ctx) opaqueError(st *State, what string) Value {
	// an error value distinct from nil; identity does not matter to the code under test
	t := c.ld.errorStringType()
	if t == nil {
		fail("errors.errorString type not found")
	}
	s := &StructV{F: []Value{what}}
	ptr := st.newObject(c, "err:"+what, t.Elem(), s)
	return IfaceV{T: t, V: ptr}
}

func (c *Ctx) mutexOp(st *State, p Pointer, lock bool, site ssa.Instruction) Value {
	k := ghostKey(p, "held")
	held, _ := st.ghost[k].(*Term)
	if held == nil {
		held = FalseT
	}
	if lock {
		c.addOb(st, "lock", "mutex not already held at Lock @"+c.posOf(site), c.posOf(site), Not(held))
		st.ghost[k] = TrueT
		n, _ := st.ghost[ghostKey(p, "locks")].(*Term)
		if n == nil {
			n = BVI(0, 64)
		}
		st.ghost[ghostKey(p, "locks")] = BvAdd(n, BVI(1, 64))
	} else {
		c.addOb(st, "lock", "mutex held at Unlock @"+c.posOf(site), c.posOf(site), held)
		st.ghost[k] = FalseT
	}
	return nil
}

var _ = types.Typ

// pairValues records, leaf by leaf, (havoc variable, real value) pairs of a shadow run.
func (c *Ctx) pairValues(hv, real Value) {
	switch x := hv.(type) {
	case *Term:
		if y, ok := real.(*Term); ok && x.op == OVar {
			c.shadowPairs = append(c.shadowPairs, [2]*Term{x, y})
		}
	case *StructV:
		if y, ok := real.(*StructV); ok && len(x.F) == len(y.F) {
			for i := range x.F {
				c.pairValues(x.F[i], y.F[i])
			}
		}
	case *ArrayV:
		if y, ok := real.(*ArrayV); ok && len(x.E) == len(y.E) {
			for i := range x.E {
				c.pairValues(x.E[i], y.E[i])
			}
		}
	}
}

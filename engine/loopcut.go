package main

// Loop cuts: one inductive step of a real loop from an arbitrary state satisfying a supplied invariant.
//
// directive attributes:  cut=<function short name>:<loop index>  inv=<harness predicate>  [post=<predicate>] [variant=<Int function>]
// The predicates are ordinary Go functions in the harness; their parameters are bound BY NAME to the cut
// function's parameters, to the loop-header phis (go/ssa records the source variable name) and to local
// variables that live in memory (bound as pointers).

import (
	"fmt"
	"go/types"
	"sort"
	"strings"

	"golang.org/x/tools/go/ssa"
)

type LoopCut struct {
	fnName  string
	loopIdx int
	inv     string
	post    string
	variant string
	relpre  []string // Int/scalar functions evaluated on the arbitrary pre-iteration state; bound to predicate parameters pre0__, pre1__, ...
	rel     string   // relation between the pre-iteration snapshots and the state at each back edge
	postret bool     // evaluate post at the function's return (the code after the loop runs) instead of at the loop exit
	pre     []Value
	fn      *ssa.Function
	done    bool
}

func parseLoopCut(r *ObRun) *LoopCut {
	cs := r.attr("cut", "")
	if cs == "" {
		return nil
	}
	i := strings.LastIndex(cs, ":")
	lc := &LoopCut{fnName: cs[:i], loopIdx: atoiDef(cs[i+1:], 0), inv: r.attr("inv", ""), post: r.attr("post", ""), variant: r.attr("variant", ""), rel: r.attr("rel", ""), postret: r.attr("postret", "") != ""}
	if rp := r.attr("relpre", ""); rp != "" {
		lc.relpre = strings.Split(rp, "+")
	}
	fn, ok := r.Ld.funcs[lc.fnName]
	if !ok {
		fail("cut: function %q not found", lc.fnName)
	}
	lc.fn = fn
	return lc
}

func (c *Ctx) runLoopCut(fn *ssa.Function, st *State) {
	c.callFunction(fn, nil, nil, st, nil)
	if !c.cutSpec.done && !c.skipRun {
		fail("cut: the harness never called %s", c.cutSpec.fnName)
	}
}

// bindArgs resolves the parameters of a harness predicate by name in the cut frame.
func (c *Ctx) bindArgs(pred *ssa.Function, fn *ssa.Function, head *ssa.BasicBlock, p *Path) []Value {
	var args []Value
	for _, prm := range pred.Params {
		name := prm.Name()
		var v Value
		found := false
		if strings.HasPrefix(name, "pre") && strings.HasSuffix(name, "__") {
			k := atoiDef(name[3:len(name)-2], -1)
			if k < 0 || k >= len(c.cutSpec.pre) {
				fail("cut: predicate %s: no pre-iteration snapshot %q", pred.Name(), name)
			}
			args = append(args, c.cutSpec.pre[k])
			continue
		}
		// a parameter that the loop modifies is a phi at the header: the phi is the current value
		for _, in := range head.Instrs {
			phi, ok := in.(*ssa.Phi)
			if !ok {
				break
			}
			if phi.Comment == name {
				v, found = p.env[phi], true
			}
		}
		if !found {
			for _, fp := range fn.Params {
				if fp.Name() == name {
					v, found = p.env[fp], true
				}
			}
		}
		if !found {
			for _, b := range fn.Blocks {
				for _, in := range b.Instrs {
					if al, ok := in.(*ssa.Alloc); ok && al.Comment == name {
						if x, ok := p.env[al]; ok {
							v, found = x, true
						}
					}
				}
			}
		}
		if !found {
			// a value defined before the loop and named in the source through a DebugRef-less SSA name: try SSA names
			for _, b := range fn.Blocks {
				for _, in := range b.Instrs {
					if val, ok := in.(ssa.Value); ok && val.Name() == name {
						if x, ok := p.env[val]; ok {
							v, found = x, true
						}
					}
				}
			}
		}
		if !found {
			fail("cut: predicate %s: cannot bind parameter %q in %s (the loop's variables were renamed?)", pred.Name(), name, fn)
		}
		// alloc of a scalar bound where the predicate wants the value: load it
		if ptr, ok := v.(Pointer); ok {
			if _, wantPtr := prm.Type().Underlying().(*types.Pointer); !wantPtr {
				v = p.st.load(ptr)
			}
		}
		args = append(args, v)
	}
	return args
}

func (c *Ctx) evalPred(name string, fn *ssa.Function, head *ssa.BasicBlock, p *Path) Value {
	pred := c.harnessFunc(name)
	q := p.fork()
	outs := c.callFunction(pred, c.bindArgs(pred, fn, head, q), nil, q.st, nil)
	if len(outs) != 1 {
		fail("cut: predicate %s must return on exactly one merged path (got %d)", name, len(outs))
	}
	return outs[0].ret
}

func (c *Ctx) harnessFunc(name string) *ssa.Function {
	for _, d := range c.ld.dirs {
		_ = d
	}
	for path, pkg := range c.ld.pkgs {
		if !strings.HasPrefix(path, modPath) {
			continue
		}
		if f := pkg.Func(name); f != nil && c.cutSpec != nil && c.cutSpec.fn.Pkg == pkg {
			return f
		}
	}
	fail("cut: harness predicate %s not found in the package of the cut function", name)
	return nil
}

// runRange processes pending work whose position lies in [lo, hi]; everything else stays pending.
func (c *Ctx) runRange(fr *frame, lo, hi int) {
	info := fr.info
	for {
		pos := -1
		for k := range fr.pending {
			if k >= lo && k <= hi && (pos < 0 || k < pos) {
				pos = k
			}
		}
		if pos < 0 {
			return
		}
		paths := fr.pending[pos]
		delete(fr.pending, pos)
		blk := info.blockAt[pos]
		if info.isLatch[pos] {
			fr.latchN[pos]++
			if fr.latchN[pos] > c.maxUnroll {
				fail("unwinding bound %d exceeded in %s", c.maxUnroll, fr.fn)
			}
		} else if _, isHead := info.latch[blk]; isHead {
			fr.latchN[info.latch[blk]] = 0
		}
		for _, p := range c.mergePaths(paths, info.liveIn[blk]) {
			c.runBlock(fr, p, blk, 0)
		}
	}
}

func (c *Ctx) execCut(fn *ssa.Function, args []Value, bind []Value, st *State) []Outcome {
	spec := c.cutSpec
	spec.done = true
	info := c.info(fn)
	c.encoded[fn.String()] = info.nInstr
	heads := append([]*ssa.BasicBlock(nil), info.heads...)
	sort.Slice(heads, func(i, j int) bool { return info.pos[heads[i]] < info.pos[heads[j]] })
	if spec.loopIdx >= len(heads) {
		fail("cut: %s has %d loops, index %d requested", fn, len(heads), spec.loopIdx)
	}
	H := heads[spec.loopIdx]
	hpos, last, latch := info.pos[H], info.lastIn[H], info.latch[H]
	c.stack = append(c.stack, fn.String())
	defer func() { c.stack = c.stack[:len(c.stack)-1] }()

	fr := &frame{fn: fn, info: info, pending: map[int][]*Path{}, latchN: map[int]int{}}
	env := make(map[ssa.Value]Value, 64)
	for i, p := range fn.Params {
		env[p] = args[i]
	}
	for i, fv := range fn.FreeVars {
		env[fv] = bind[i]
	}
	fr.pending[info.pos[fn.Blocks[0]]] = []*Path{{st: st, env: env}}
	c.runRange(fr, 0, hpos-1)
	entries := c.mergePaths(fr.pending[hpos], nil)
	if len(entries) != 1 {
		fail("cut: %d unmerged paths reach the loop header of %s", len(entries), fn)
	}
	entry := entries[0]

	// 1. the invariant holds on entry
	c.addOb(entry.st, "assert", "loop invariant holds on entry ("+spec.inv+")", c.posOf(H.Instrs[0]), termOf(c.evalPred(spec.inv, fn, H, entry)))

	// 2. one iteration from an arbitrary state satisfying the invariant
	havocObjs := map[*Object]bool{}
	var phis []*ssa.Phi
	for _, in := range H.Instrs {
		phi, ok := in.(*ssa.Phi)
		if !ok {
			break
		}
		phis = append(phis, phi)
	}
	for round := 0; ; round++ {
		if round > 8 {
			fail("cut: havoc set did not stabilise")
		}
		nObs := len(c.obs)
		p := entry.fork()
		for _, phi := range phis {
			if t, ok := p.env[phi].(*Term); ok {
				nm := phi.Comment
				if nm == "" {
					nm = phi.Name()
				}
				if v, ok := c.cases[nm]; ok && strings.Contains(","+c.cutFix+",", ","+nm+",") {
					p.env[phi] = BVI(int64(v), t.sort.W) // case-split loop variable: one concrete value per run
				} else {
					p.env[phi] = c.newInput("loop:"+nm, t.sort)
				}
			}
		}
		var objs []*Object
		for o := range havocObjs {
			objs = append(objs, o)
		}
		sort.Slice(objs, func(i, j int) bool { return objs[i].id < objs[j].id })
		for _, o := range objs {
			p.st.mem[o] = c.havocNamed(p.st.mem[o], "loop:"+shortObj(o))
		}
		inv := termOf(c.evalPred(spec.inv, fn, H, p))
		p.st.pc = p.st.pc.and(inv)
		var v0 *Term
		if spec.variant != "" {
			v0 = termOf(c.evalPred(spec.variant, fn, H, p))
		}
		spec.pre = nil
		for _, rp := range spec.relpre {
			spec.pre = append(spec.pre, c.evalPred(rp, fn, H, p))
		}
		pre := make(Mem, len(p.st.mem))
		for k, v := range p.st.mem {
			pre[k] = v
		}
		fr2 := &frame{fn: fn, info: info, pending: map[int][]*Path{}, latchN: map[int]int{}}
		// run the header block and the body; stop at the latch and at exits
		c.runBlock(fr2, p, H, 0)
		c.runRange(fr2, hpos+1, last)
		var backs, exits []*Path
		for pos, ps := range fr2.pending {
			if pos == latch {
				backs = append(backs, ps...)
			} else {
				exits = append(exits, ps...)
			}
		}
		for i, rp := range fr2.returns {
			rp.env[nil] = fr2.retVals[i]
			exits = append(exits, rp)
		}
		grew := false
		for _, q := range append(append([]*Path{}, backs...), exits...) {
			for o, before := range pre {
				after, ok := q.st.mem[o]
				if ok && !havocObjs[o] && !valuesIdentical(before, after) {
					havocObjs[o] = true
					grew = true
				}
			}
		}
		if grew {
			c.obs = c.obs[:nObs]
			continue
		}
		// non-scalar phis must be loop-invariant
		for _, q := range backs {
			for _, phi := range phis {
				if _, ok := entry.env[phi].(*Term); !ok && !valuesIdentical(entry.env[phi], q.env[phi]) {
					fail("cut: non-scalar loop variable %s changes in the loop", phi.Comment)
				}
			}
		}
		if len(backs) == 0 && len(exits) == 0 {
			fail("cut: no path leaves the loop body")
		}
		for i, q := range backs {
			c.addOb(q.st, "assert", fmt.Sprintf("loop invariant preserved by one iteration (%s, back edge %d)", spec.inv, i), c.posOf(H.Instrs[0]), termOf(c.evalPred(spec.inv, fn, H, q)))
			if spec.rel != "" {
				c.addOb(q.st, "assert", fmt.Sprintf("one iteration relates the state before and after as stated (%s, back edge %d)", spec.rel, i), c.posOf(H.Instrs[0]), termOf(c.evalPred(spec.rel, fn, H, q)))
			}
			if v0 != nil {
				v1 := termOf(c.evalPred(spec.variant, fn, H, q))
				c.addOb(q.st, "assert", fmt.Sprintf("termination measure decreases and stays non-negative (%s, back edge %d)", spec.variant, i), c.posOf(H.Instrs[0]), And(ILt(v1, v0), ILe(IntI(0), v1)))
			}
			c.obs = append(c.obs, &Oblig{Name: fmt.Sprintf("reach: loop back edge %d", i), Kind: "reach", Hyp: q.st.pc.term(), Goal: FalseT})
		}
		if spec.post != "" && spec.postret {
			// run the code after the loop to the function's return and evaluate the post-condition there
			nret := len(fr2.returns)
			for pos, ps := range fr2.pending {
				if pos == latch {
					delete(fr2.pending, pos)
				} else {
					_ = ps
				}
			}
			c.runRange(fr2, last+1, 1<<30)
			var rets []*Path
			for i, rp := range fr2.returns {
				if i >= nret {
					rp.env[nil] = fr2.retVals[i]
				}
				rets = append(rets, rp)
			}
			if len(rets) == 0 {
				fail("cut: no path returns from %s after the loop", fn)
			}
			for i, q := range rets {
				c.addOb(q.st, "assert", fmt.Sprintf("post-condition at return (%s, return %d)", spec.post, i), c.posOf(H.Instrs[0]), termOf(c.evalPred(spec.post, fn, H, q)))
				c.obs = append(c.obs, &Oblig{Name: fmt.Sprintf("reach: return after the loop %d", i), Kind: "reach", Hyp: q.st.pc.term(), Goal: FalseT})
			}
		} else if spec.post != "" {
			for i, q := range exits {
				c.addOb(q.st, "assert", fmt.Sprintf("exit condition (%s, exit %d)", spec.post, i), c.posOf(H.Instrs[0]), termOf(c.evalPred(spec.post, fn, H, q)))
				c.obs = append(c.obs, &Oblig{Name: fmt.Sprintf("reach: loop exit %d", i), Kind: "reach", Hyp: q.st.pc.term(), Goal: FalseT})
			}
		}
		break
	}
	return nil
}

func shortObj(o *Object) string {
	n := o.name
	if i := strings.LastIndex(n, "."); i >= 0 {
		n = n[i+1:]
	}
	return n
}

// havocNamed replaces scalar leaves by named inputs (so that counterexamples can be read).
func (c *Ctx) havocNamed(old Value, prefix string) Value {
	switch x := old.(type) {
	case *Term:
		return c.newInput(c.freshName(prefix), x.sort)
	case *StructV:
		r := &StructV{F: make([]Value, len(x.F))}
		for i := range x.F {
			r.F[i] = c.havocNamed(x.F[i], fmt.Sprintf("%s.%d", prefix, i))
		}
		// ghost attributes the value carried stay attributes of the arbitrary value (arbitrary themselves), so
		// that the invariant and the loop body speak about the same ghost
		if len(x.G) > 0 {
			r.G = map[string]Value{}
			var ks []string
			for k := range x.G {
				ks = append(ks, k)
			}
			sort.Strings(ks)
			for _, k := range ks {
				if t, ok := x.G[k].(*Term); ok {
					r.G[k] = c.newInput(c.freshName(prefix+"#"+k), t.sort)
				}
			}
		}
		return r
	case *ArrayV:
		r := &ArrayV{E: make([]Value, len(x.E))}
		for i := range x.E {
			r.E[i] = c.havocNamed(x.E[i], fmt.Sprintf("%s[%d]", prefix, i))
		}
		return r
	}
	return old
}

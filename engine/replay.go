package main

import (
	"encoding/json"
	"sort"
)

type Cex struct {
	Property   string            `json:"property"`
	Harness    string            `json:"harness"`
	Package    string            `json:"package"`
	Config     string            `json:"config"`
	Tags       string            `json:"tags"`
	Cases      map[string]int    `json:"cases"`
	Obligation string            `json:"obligation"`
	Kind       string            `json:"kind"`
	Pos        string            `json:"pos"`
	Mode       string            `json:"mode"`
	Backend    string            `json:"backend"`
	Inputs     map[string]string `json:"inputs"`
	Abstract   bool              `json:"abstract"` // model includes values chosen for contract/stub outputs
}

func writeCex(path, prop string, r *ObRun, ob *Oblig) {
	cx := Cex{Property: prop, Harness: r.Dir.Func, Package: r.Dir.Pkg, Config: r.Ld.config, Tags: r.Ld.tags, Cases: r.Cases,
		Obligation: ob.Name, Kind: ob.Kind, Pos: ob.Pos, Mode: ob.Mode, Backend: ob.Solver, Inputs: map[string]string{}}
	var ks []string
	for k := range ob.Model {
		ks = append(ks, k)
	}
	sort.Strings(ks)
	for _, k := range ks {
		cx.Inputs[k] = ob.Model[k].String()
	}
	cx.Abstract = len(r.Uses) > 0
	b, _ := json.MarshalIndent(cx, "", " ")
	writeFile(path, string(b)+"\n")
}

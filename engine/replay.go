package main

import (
	"encoding/json"
	"fmt"
	"os"
	"os/exec"
	"path/filepath"
	"sort"
	"strings"
	"time"
)

type Cex struct {
	Property   string            `json:"property"`
	Harness    string            `json:"harness"`
	Package    string            `json:"package"`
	PkgName    string            `json:"pkgname"`
	Config     string            `json:"config"`
	Tags       string            `json:"tags"`
	Cases      map[string]int    `json:"cases"`
	Obligation string            `json:"obligation"`
	Kind       string            `json:"kind"`
	Pos        string            `json:"pos"`
	Mode       string            `json:"mode"`
	Backend    string            `json:"backend"`
	Inputs     map[string]string `json:"inputs"`
	Note       string            `json:"note,omitempty"`
	Abstract   bool              `json:"abstract"`
	Ghost      bool              `json:"ghost_parametrised"` // model includes values chosen for contract/stub outputs
}

func writeCex(path, prop string, r *ObRun, ob *Oblig) *Cex {
	cx := Cex{Property: prop, Harness: r.Dir.Func, Package: r.Dir.Pkg, Config: r.Ld.config, Tags: r.Ld.tags, Cases: r.Cases,
		Obligation: ob.Name, Kind: ob.Kind, Pos: ob.Pos, Mode: ob.Mode, Backend: ob.Solver, Inputs: map[string]string{}}
	var ks []string
	for k := range ob.Model {
		ks = append(ks, k)
	}
	sort.Strings(ks)
	for _, k := range ks {
		cx.Inputs[k] = ob.Model[k].String()
	}
	cx.Abstract = (len(r.Uses) > 0 || r.attr("cut", "") != "") && !ob.Concrete
	cx.Ghost = r.UsedGhost || hasUF(ob.Hyp) || hasUF(ob.Goal)
	cx.PkgName = r.Ld.pkgs[r.Dir.Pkg].Pkg.Name()
	b, _ := json.MarshalIndent(cx, "", " ")
	writeFile(path, string(b)+"\n")
	return &cx
}

// ---------- native replay ----------

type replayResult struct {
	Status string // reproduced | not-reproduced | skipped | error
	Detail string
}

func pkgDirOf(pkgPath string) string {
	return strings.TrimPrefix(strings.TrimPrefix(pkgPath, modPath), "/")
}

func replayNative(cx *Cex, cexPath string, search int) replayResult {
	tmp, err := os.MkdirTemp("", "voireplay")
	if err != nil {
		return replayResult{"error", err.Error()}
	}
	defer os.RemoveAll(tmp)
	rep := map[string]string{}
	root := filepath.Join(verifDir, "harness")
	ents, _ := os.ReadDir(root)
	for _, e := range ents {
		if !e.IsDir() {
			continue
		}
		pkgDir := strings.ReplaceAll(e.Name(), "__", "/")
		files, _ := os.ReadDir(filepath.Join(root, e.Name()))
		for _, f := range files {
			if !strings.HasSuffix(f.Name(), ".go") {
				continue
			}
			name := f.Name()
			if pkgDir != "internal/verif" {
				name = "zz_verif_" + name
			}
			virt := filepath.Join(repoDir, pkgDir, name)
			dropped := false
			for _, df := range droppedHarness {
				if df.file == virt {
					dropped = true // does not compile against this tree (see loadConfig): not part of the replay build either
				}
			}
			if !dropped {
				rep[virt] = filepath.Join(root, e.Name(), f.Name())
			}
		}
	}
	pd := pkgDirOf(cx.Package)
	pkgName := filepath.Base(pd)
	if pd == "" {
		pkgName = "curve25519voi"
	}
	if cx.PkgName != "" {
		pkgName = cx.PkgName
	}
	testSrc := fmt.Sprintf(`//go:build verif

package %s

import (
	"fmt"
	"os"
	"strconv"
	"strings"
	"testing"

	"%s"
)

func zzRun(trial int) (res string) {
	defer func() {
		switch x := recover().(type) {
		case nil:
			res = "NOFAILURE"
		case verif.Failure:
			res = "REPRODUCED assertion: " + x.Msg
		case verif.Skip:
			res = "SKIP " + x.Msg
		default:
			res = fmt.Sprint("PANIC ", x)
		}
	}()
	verif.StartTrial(trial, %d)
	%s()
	return
}

func TestZZReplay(t *testing.T) {
	n, _ := strconv.Atoi(os.Getenv("VERIF_SEARCH"))
	last := ""
	for trial := 0; trial <= n; trial++ {
		last = zzRun(trial)
		if strings.HasPrefix(last, "REPRODUCED") || strings.HasPrefix(last, "PANIC") {
			if trial > 0 {
				if p := os.Getenv("VERIF_SEARCH_OUT"); p != "" {
					os.WriteFile(p, []byte(verif.DumpTrial()), 0o644)
				}
				last += fmt.Sprintf(" (found by native search, trial %%d)", trial)
			}
			break
		}
	}
	fmt.Println("REPLAY:", last)
}
`, pkgName, verifPkgPath, runSeed, cx.Harness)
	testFile := filepath.Join(tmp, "replay_test.go")
	os.WriteFile(testFile, []byte(testSrc), 0o644)
	rep[filepath.Join(repoDir, pd, "zz_verif_replay_test.go")] = testFile
	ovb, _ := json.Marshal(map[string]interface{}{"Replace": rep})
	ovFile := filepath.Join(tmp, "overlay.json")
	os.WriteFile(ovFile, ovb, 0o644)
	abs, _ := filepath.Abs(cexPath)
	cmd := exec.Command("go", "test", "-vet=off", "-count=1", "-overlay", ovFile, "-tags", cx.Tags, "-run", "^TestZZReplay$", "-v", "./"+pd)
	cmd.Dir = repoDir
	searchOut := filepath.Join(tmp, "found.json")
	cmd.Env = append(os.Environ(), "VERIF_REPLAY="+abs, fmt.Sprintf("VERIF_SEARCH=%d", search), "VERIF_SEARCH_OUT="+searchOut, "GOFLAGS=-mod=mod", "GOPROXY=off", "GOSUMDB=off", "GOTOOLCHAIN=local", "GOCACHE="+filepath.Join(os.TempDir(), "voiverif-gocache"))
	done := make(chan struct{})
	var out []byte
	go func() { out, err = cmd.CombinedOutput(); close(done) }()
	select {
	case <-done:
	case <-time.After(10 * time.Minute):
		if cmd.Process != nil {
			cmd.Process.Kill()
		}
		return replayResult{"error", "native replay timed out"}
	}
	for _, l := range strings.Split(string(out), "\n") {
		l = strings.TrimSpace(l)
		if !strings.HasPrefix(l, "REPLAY:") {
			continue
		}
		switch {
		case strings.HasPrefix(l, "REPLAY: REPRODUCED"), strings.HasPrefix(l, "REPLAY: PANIC"):
			if b, err := os.ReadFile(searchOut); err == nil {
				// the search found different inputs: store them in the counterexample file so that it replays exactly
				var found struct {
					Inputs map[string]string `json:"inputs"`
				}
				if json.Unmarshal(b, &found) == nil {
					cx.Inputs = found.Inputs
					cx.Note = "inputs found by native search anchored at the solver's model of the abstract obligation"
					nb, _ := json.MarshalIndent(cx, "", " ")
					os.WriteFile(cexPath, append(nb, 10), 0o644)
				}
			}
			return replayResult{"reproduced", l}
		case strings.HasPrefix(l, "REPLAY: PANIC!"):
			if cx.Kind == "panic" || cx.Kind == "bounds" {
				return replayResult{"reproduced", l}
			}
			return replayResult{"reproduced", l + " (run-time panic in the real code)"}
		case strings.HasPrefix(l, "REPLAY: SKIP"):
			return replayResult{"skipped", l}
		case strings.HasPrefix(l, "REPLAY: NOFAILURE"):
			return replayResult{"not-reproduced", l}
		}
	}
	tail := string(out)
	if len(tail) > 1500 {
		tail = tail[len(tail)-1500:]
	}
	return replayResult{"error", "no REPLAY line: " + tail}
}

func readCex(path string) (*Cex, error) {
	b, err := os.ReadFile(path)
	if err != nil {
		return nil, err
	}
	var cx Cex
	if err := json.Unmarshal(b, &cx); err != nil {
		return nil, err
	}
	return &cx, nil
}

func hasUF(t *Term) bool {
	for _, n := range topo(t) {
		if n.op == OUF {
			return true
		}
	}
	return false
}

package main

// Contracts: one Go text, two uses. prove: Requires=assume, Call()=run the real function, Ensures=assert,
// return value and frame compared. use: Requires=assert at the call site, Havoc=fresh values, Ensures=assume.

import (
	"fmt"

	"golang.org/x/tools/go/ssa"
)

func (c *Ctx) runContract(rep, real *ssa.Function, args []Value, st *State, site ssa.Instruction, prove bool) []Outcome {
	cf := &contractFrame{fn: rep, real: real, args: args, prove: prove}
	if !prove {
		cf.taint = c.contractArgsTainted(args, st)
	}
	if prove {
		cf.memSnap = make(Mem, len(st.mem))
		for k, v := range st.mem {
			cf.memSnap[k] = v
		}
	} else {
		c.contractUse[shortName(real.String())]++
	}
	c.curContract = append(c.curContract, cf)
	outs := c.execBody(rep, args, nil, st)
	c.curContract = c.curContract[:len(c.curContract)-1]
	if !prove {
		return outs
	}
	for _, o := range outs {
		// frame: everything that existed before and was not declared havoced is unchanged
		for obj, before := range cf.memSnap {
			after, ok := o.st.mem[obj]
			if !ok || valuesIdentical(before, after) {
				continue
			}
			eq := c.frameEq(obj, nil, before, after, cf.havoced)
			c.addOb(o.st, "frame", fmt.Sprintf("frame[%s] %s unchanged", real.Name(), obj.name), "", eq)
		}
	}
	return outs
}

func (c *Ctx) retEq(a, b Value) *Term {
	switch x := a.(type) {
	case *TupleV:
		y, ok := b.(*TupleV)
		if !ok || len(x.E) != len(y.E) {
			return FalseT
		}
		r := TrueT
		for i := range x.E {
			r = And(r, c.retEq(x.E[i], y.E[i]))
		}
		return r
	case Pointer:
		y, ok := b.(Pointer)
		return BoolC(ok && x.equal(y))
	case SliceV:
		y, ok := b.(SliceV)
		return BoolC(ok && valuesIdentical(x, y))
	case nil:
		return BoolC(b == nil)
	}
	return c.valueEq(a, b)
}

func covered(obj *Object, path []PathElem, hav []Pointer) bool {
	for _, h := range hav {
		if h.Obj != obj || len(h.Path) > len(path) {
			continue
		}
		ok := true
		for i := range h.Path {
			if h.Path[i].Sym != nil || h.Path[i].Idx != path[i].Idx {
				ok = false
				break
			}
		}
		if ok {
			return true
		}
	}
	return false
}

func (c *Ctx) frameEq(obj *Object, path []PathElem, before, after Value, hav []Pointer) *Term {
	if covered(obj, path, hav) {
		return TrueT
	}
	switch x := before.(type) {
	case *StructV:
		y, ok := after.(*StructV)
		if !ok {
			return FalseT
		}
		r := TrueT
		for i := range x.F {
			r = And(r, c.frameEq(obj, append(append([]PathElem{}, path...), PathElem{Idx: i}), x.F[i], y.F[i], hav))
		}
		return r
	case *ArrayV:
		y, ok := after.(*ArrayV)
		if !ok || len(x.E) != len(y.E) {
			return FalseT
		}
		r := TrueT
		for i := range x.E {
			r = And(r, c.frameEq(obj, append(append([]PathElem{}, path...), PathElem{Idx: i}), x.E[i], y.E[i], hav))
		}
		return r
	case *Term:
		y, ok := after.(*Term)
		if !ok {
			return FalseT
		}
		return Eq(x, y)
	}
	return BoolC(valuesIdentical(before, after))
}

package main

// Contracts: one Go text, two uses. prove: Requires=assume, Call()=run the real function, Ensures=assert,
// return value and frame compared. use: Requires=assert at the call site, Havoc=fresh values, Ensures=assume.

import (
	"fmt"
	"go/types"

	"golang.org/x/tools/go/ssa"
)

func (c *Ctx) runContract(rep, real *ssa.Function, args []Value, st *State, site ssa.Instruction, prove bool) []Outcome {
	cf := &contractFrame{fn: rep, real: real, args: args, prove: prove}
	if prove {
		cf.memSnap = make(Mem, len(st.mem))
		for k, v := range st.mem {
			cf.memSnap[k] = v
		}
	} else {
		c.contractUse[shortName(real.String())]++
	}
	c.curContract = append(c.curContract, cf)
	outs := c.execBody(rep, args, nil, st)
	c.curContract = c.curContract[:len(c.curContract)-1]
	if !prove {
		return outs
	}
	for _, o := range outs {
		called, _ := o.st.ghost["$called"].(*Term)
		if called == nil || !called.IsTrue() {
			fail("contract %s: verif.Call() was not reached on a returning path", rep.Name())
		}
		// return value agreement
		if rv, ok := o.st.ghost["$ret"]; ok && rv != nil && o.ret != nil {
			c.addOb(o.st, "ensures", "ensures["+real.Name()+"] return value as specified", "", c.retEq(rv, o.ret))
		}
		// frame: everything that existed before and was not declared havoced is unchanged
		for obj, before := range cf.memSnap {
			after, ok := o.st.mem[obj]
			if !ok || valuesIdentical(before, after) {
				continue
			}
			eq := c.frameEq(obj, nil, before, after, cf.havoced)
			c.addOb(o.st, "frame", fmt.Sprintf("frame[%s] %s unchanged", real.Name(), obj.name), "", eq)
		}
	}
	return outs
}

func (c *Ctx) retEq(a, b Value) *Term {
	switch x := a.(type) {
	case *TupleV:
		y, ok := b.(*TupleV)
		if !ok || len(x.E) != len(y.E) {
			return FalseT
		}
		r := TrueT
		for i := range x.E {
			r = And(r, c.retEq(x.E[i], y.E[i]))
		}
		return r
	case Pointer:
		y, ok := b.(Pointer)
		return BoolC(ok && x.equal(y))
	case SliceV:
		y, ok := b.(SliceV)
		return BoolC(ok && valuesIdentical(x, y))
	case nil:
		return BoolC(b == nil)
	}
	return c.valueEq(a, b)
}

func covered(obj *Object, path []PathElem, hav []Pointer) bool {
	for _, h := range hav {
		if h.Obj != obj || len(h.Path) > len(path) {
			continue
		}
		ok := true
		for i := range h.Path {
			if h.Path[i].Sym != nil || h.Path[i].Idx != path[i].Idx {
				ok = false
				break
			}
		}
		if ok {
			return true
		}
	}
	return false
}

func (c *Ctx) frameEq(obj *Object, path []PathElem, before, after Value, hav []Pointer) *Term {
	if covered(obj, path, hav) {
		return TrueT
	}
	switch x := before.(type) {
	case *StructV:
		y, ok := after.(*StructV)
		if !ok {
			return FalseT
		}
		r := TrueT
		for i := range x.F {
			r = And(r, c.frameEq(obj, append(append([]PathElem{}, path...), PathElem{Idx: i}), x.F[i], y.F[i], hav))
		}
		return r
	case *ArrayV:
		y, ok := after.(*ArrayV)
		if !ok || len(x.E) != len(y.E) {
			return FalseT
		}
		r := TrueT
		for i := range x.E {
			r = And(r, c.frameEq(obj, append(append([]PathElem{}, path...), PathElem{Idx: i}), x.E[i], y.E[i], hav))
		}
		return r
	case *Term:
		y, ok := after.(*Term)
		if !ok {
			return FalseT
		}
		return Eq(x, y)
	}
	return BoolC(valuesIdentical(before, after))
}

// verifCall implements verif.Call(): in prove mode the real function runs here.
func (c *Ctx) verifCall(st *State, site ssa.Instruction) []Outcome {
	cf := c.topContract()
	if cf == nil {
		fail("verif.Call() outside a contract")
	}
	if !cf.prove {
		return []Outcome{{st, nil}}
	}
	// run the real function; contracts of *other* functions stay in force
	saved := c.curContract
	c.curContract = append(append([]*contractFrame{}, saved...), &contractFrame{real: cf.real, prove: true, fn: nil})
	outs := c.callFunction(cf.real, cf.args, nil, st, site)
	c.curContract = saved
	for _, o := range outs {
		o.st.ghost["$called"] = TrueT
		o.st.ghost["$ret"] = o.ret
	}
	for i := range outs {
		outs[i].ret = nil
	}
	return outs
}

// verifRet implements verif.RetXxx(i): the real return value when proving, a fresh value when used.
func (c *Ctx) verifRet(st *State, idx int, s Sort, t types.Type) Value {
	cf := c.topContract()
	if cf == nil {
		fail("verif.Ret outside a contract")
	}
	if cf.prove {
		rv := st.ghost["$ret"]
		if tv, ok := rv.(*TupleV); ok {
			return tv.E[idx]
		}
		if idx != 0 {
			fail("verif.Ret(%d) of a single result", idx)
		}
		return rv
	}
	return Var(c.freshName("ret_"+cf.real.Name()), s)
}

package main

// Two-safety (constant-time) checks: every branch condition, table index, division operand and
// variable-time call reached in the real code is a leak site. A site whose term mentions no secret symbol
// passes; otherwise the solver is asked for equal public inputs and two secrets under which the term differs
// (self-composition of that one term under the path condition). unsat = secret-independent.

import (
	"fmt"
	"go/types"
	"strings"

	"golang.org/x/tools/go/ssa"
)

func (c *Ctx) isSecretName(n string) bool {
	if c.tainted[n] {
		return true
	}
	for p := range c.secret {
		if strings.HasPrefix(n, p) {
			return true
		}
	}
	return false
}

func (c *Ctx) tainted1(t *Term) bool {
	if v, ok := c.secretMemo[t]; ok {
		return v
	}
	r := false
	if t.op == OVar {
		r = c.isSecretName(t.name)
	} else {
		for _, a := range t.args {
			if c.tainted1(a) {
				r = true
				break
			}
		}
	}
	c.secretMemo[t] = r
	return r
}

func (c *Ctx) valueTainted(v Value, st *State, depth int) bool {
	if depth > 4 {
		return false
	}
	switch x := v.(type) {
	case *Term:
		return c.tainted1(x)
	case *StructV:
		for _, f := range x.F {
			if c.valueTainted(f, st, depth+1) {
				return true
			}
		}
	case *ArrayV:
		for _, e := range x.E {
			if c.valueTainted(e, st, depth+1) {
				return true
			}
		}
	case Pointer:
		if x.Obj != nil {
			if root, ok := st.mem[x.Obj]; ok {
				func() {
					defer func() { recover() }()
					v = getPath(root, x.Path)
				}()
				if _, isPtr := v.(Pointer); !isPtr {
					return c.valueTainted(v, st, depth+1)
				}
			}
		}
	case SliceV:
		if x.Base.Obj != nil && x.Len > 0 {
			for _, e := range st.sliceLoadAll(x) {
				if c.valueTainted(e, st, depth+1) {
					return true
				}
			}
		}
	case IfaceV:
		return c.valueTainted(x.V, st, depth+1)
	case *TupleV:
		for _, e := range x.E {
			if c.valueTainted(e, st, depth+1) {
				return true
			}
		}
	}
	return false
}

func (c *Ctx) inSpecCode(in ssa.Instruction) bool {
	if len(c.curContract) > 0 {
		// inside a contract / stub body: specification code, not the code under test
		if cf := c.topContract(); cf != nil && cf.fn != nil {
			return true
		}
	}
	if in == nil || in.Parent() == nil {
		return true
	}
	pos := c.ld.prog.Fset.Position(in.Parent().Pos())
	return strings.Contains(pos.Filename, "zz_verif_") || strings.Contains(pos.Filename, "/internal/verif/")
}

// leakSite records the two-safety obligation for term t at a site.
func (c *Ctx) leakSite(st *State, t *Term, in ssa.Instruction, what string) {
	if !c.ctCheck || c.inSpecCode(in) || !c.tainted1(t) {
		return
	}
	// rename the secret variables
	sub := map[*Term]*Term{}
	pc := st.pc.term()
	for _, v := range termVars(t, pc) {
		if c.isSecretName(v.name) {
			sub[v] = Var(v.name+"'", v.sort)
		}
	}
	t2 := substitute(t, sub)
	pc2 := substitute(pc, sub)
	pos := c.posOf(in)
	fn := ""
	if in.Parent() != nil {
		fn = shortName(in.Parent().String())
	}
	c.obs = append(c.obs, &Oblig{Name: fmt.Sprintf("constant-time: %s does not depend on secrets @%s (%s)", what, pos, fn), Kind: "leak", Pos: pos,
		Hyp: And(pc, pc2), Goal: Eq(t, t2)})
}

func (c *Ctx) checkBranchLeak(st *State, cond *Term, in ssa.Instruction) {
	c.leakSite(st, cond, in, "branch condition")
}

func (c *Ctx) checkOperandLeak(st *State, t *Term, in ssa.Instruction, what string) {
	c.leakSite(st, t, in, what)
}

func (c *Ctx) checkIndexLeak(st *State, p Pointer, in ssa.Instruction) {
	for _, e := range p.Path {
		if e.Sym != nil {
			c.leakSite(st, e.Sym, in, "memory index")
		}
	}
}

func (c *Ctx) checkVartimeCall(st *State, fn *ssa.Function, args []Value, site ssa.Instruction) {
	if !c.ctCheck || c.inSpecCode(site) {
		return
	}
	for _, a := range args {
		if c.valueTainted(a, st, 0) {
			pos := c.posOf(site)
			c.obs = append(c.obs, &Oblig{Name: fmt.Sprintf("constant-time: variable-time routine %s is not called on secret data @%s", shortName(fn.String()), pos), Kind: "leak", Pos: pos,
				Hyp: st.pc.term(), Goal: FalseT})
			return
		}
	}
}

// taintContract: in constant-time mode, values havoced by a contract whose arguments are secret-tainted are
// secret-tainted themselves.
func (c *Ctx) contractArgsTainted(args []Value, st *State) bool {
	if !c.ctCheck {
		return false
	}
	for _, a := range args {
		if c.valueTainted(a, st, 0) {
			return true
		}
	}
	return false
}

func (c *Ctx) taintValue(v Value) {
	switch x := v.(type) {
	case *Term:
		if x.op == OVar {
			c.tainted[x.name] = true
			delete(c.secretMemo, x)
		}
	case *StructV:
		for _, f := range x.F {
			c.taintValue(f)
		}
	case *ArrayV:
		for _, e := range x.E {
			c.taintValue(e)
		}
	}
}

// checkGuarded: lock discipline. Every access to a field of a struct of the guarded type (other than its
// embedded mutex) made by the code under test must happen while the ghost held-flag of that mutex is set.
func (c *Ctx) checkGuarded(st *State, in *ssa.FieldAddr, base Pointer) {
	if c.guardType == "" || c.inSpecCode(in) {
		return
	}
	pt, ok := in.X.Type().Underlying().(*types.Pointer)
	if !ok {
		return
	}
	nt, ok := pt.Elem().(*types.Named)
	if !ok || nt.Obj().Name() != c.guardType {
		return
	}
	stt := nt.Underlying().(*types.Struct)
	mu := -1
	for i := 0; i < stt.NumFields(); i++ {
		if namedIs(stt.Field(i).Type(), "sync", "Mutex") {
			mu = i
		}
	}
	if mu < 0 || in.Field == mu {
		return
	}
	// constructors touch the fields before the object is shared: only methods of the type are checked
	if fn := in.Parent(); fn.Signature.Recv() == nil {
		return
	}
	held, _ := st.ghost[ghostKey(base.child(PathElem{Idx: mu}), "held")].(*Term)
	if held == nil {
		held = FalseT
	}
	pos := c.posOf(in)
	c.addOb(st, "lock", fmt.Sprintf("lock discipline: %s.%s accessed with the mutex held @%s", c.guardType, stt.Field(in.Field).Name(), pos), pos, held)
}

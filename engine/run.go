package main

// Running one harness (one obligation group): symbolic execution, then discharge of every recorded obligation.

import (
	"fmt"
	"math/big"
	"os"
	"regexp"
	"sort"
	"strconv"
	"strings"
	"sync"
	"sync/atomic"
	"time"

	"golang.org/x/tools/go/ssa"
)

type ObRun struct {
	Dir         *Directive
	Ld          *Loaded
	Cases       map[string]int
	Name        string
	Obs         []*Oblig
	Err         string // engine error (inconclusive)
	ExecSecs    float64
	Encoded     map[string]int
	Inputs      []*Term
	Uses        map[string]int
	Asserted    map[*Term]bool
	UsedGhost   bool
	ShadowPairs [][2]*Term
	Proved      string
	TermSize    int
}

func (r *ObRun) attr(k, def string) string {
	if v, ok := r.Dir.Attrs[k]; ok {
		return v
	}
	return def
}

var verbose bool
var nativeSearch = 3000

func (r *ObRun) setup() *Ctx {
	c := newCtx(r.Ld)
	c.obName = r.Name
	c.mode = r.attr("mode", "bv")
	c.maxUnroll = atoiDef(r.attr("maxunroll", ""), 5000)
	c.feasAfter = atoiDef(r.attr("feas", ""), 0)
	c.maxInstr = int64(atoiDef(r.attr("maxinstr", ""), 0))
	c.cutFix = r.attr("cutfix", "")
	c.guardType = r.attr("guarded", "")
	c.asmSimSpec = r.attr("asmsim", "")
	c.shadow = r.attr("shadow", "") != ""
	c.trace = verbose
	if ap := r.attr("allowpanic", ""); ap != "" {
		c.allowPanic = regexp.MustCompile(ap)
	}
	if r.attr("ct", "") != "" {
		c.ctCheck = true
		c.vartimeRe = regexp.MustCompile(`Vartime|vartime|bytes\.Equal|IsCanonical\b`)
	}
	c.cases = r.Cases
	uses := map[string]bool{}
	for _, u := range strings.Split(r.attr("use", ""), ",") {
		if u != "" {
			uses[u] = true
		}
	}
	nouse := map[string]bool{}
	for _, u := range strings.Split(r.attr("nouse", ""), ",") {
		if u != "" {
			nouse[u] = true
		}
	}
	for _, d := range r.Ld.dirs {
		if d.Kind == "ob" {
			continue
		}
		active := false
		if d.Kind == "stub" && d.Attrs["group"] == "" {
			active = true // default stubs are always on
		}
		qual := d.Pkg[strings.LastIndex(d.Pkg, "/")+1:] + "." + d.Func
		if (uses[d.Func] && d.Pkg == r.Dir.Pkg) || uses[qual] || (d.Attrs["group"] != "" && uses[d.Attrs["group"]]) {
			active = true
		}
		if (nouse[d.Func] && d.Pkg == r.Dir.Pkg) || nouse[qual] || (d.Attrs["group"] != "" && nouse[d.Attrs["group"]]) {
			active = false
		}
		if !active {
			continue
		}
		target, ok := r.Ld.funcs[d.Attrs["for"]]
		if !ok {
			fail("contract %s: target function %q not found in configuration %s", d.Func, d.Attrs["for"], r.Ld.config)
		}
		rep := r.Ld.pkgs[d.Pkg].Func(d.Func)
		if rep == nil {
			fail("contract function %s not found", d.Func)
		}
		c.replace[target.String()] = rep
	}
	if pv := r.attr("prove", ""); pv != "" {
		var found *Directive
		for _, d := range r.Ld.dirs {
			if d.Kind != "ob" && d.Func == pv && d.Pkg == r.Dir.Pkg {
				found = d
			}
		}
		if found == nil {
			fail("prove=%s: no such contract", pv)
		}
		target, ok := r.Ld.funcs[found.Attrs["for"]]
		if !ok {
			fail("prove=%s: target %q not found", pv, found.Attrs["for"])
		}
		c.proving = r.Ld.pkgs[found.Pkg].Func(found.Func)
		c.provingReal = target
		delete(c.replace, target.String())
		r.Proved = shortName(target.String())
	}
	return c
}

func (r *ObRun) execute() (c *Ctx) {
	start := time.Now()
	defer func() {
		r.ExecSecs = time.Since(start).Seconds()
		if rec := recover(); rec != nil {
			if ee, ok := rec.(execError); ok {
				r.Err = ee.msg
				if c != nil && len(c.stack) > 0 {
					r.Err += " [in " + shortName(c.stack[len(c.stack)-1]) + "]"
				}
				if c != nil {
					// obligations recorded before the engine gave up are still obligations of the real code
					// (each holds at its program point under its own path condition); only refutations are
					// taken from them, the run as a whole stays inconclusive
					for _, ob := range c.obs {
						if ob.Kind != "reach" {
							r.Obs = append(r.Obs, ob)
						}
					}
					r.Inputs = c.inputs
					r.Uses = c.contractUse
					r.UsedGhost = c.usedGhost
				}
				return
			}
			panic(rec)
		}
	}()
	c = r.setup()
	fn := r.Ld.pkgs[r.Dir.Pkg].Func(r.Dir.Func)
	if fn == nil {
		fail("harness function %s not found", r.Dir.Func)
	}
	mem := make(Mem, len(r.Ld.baseMem))
	for k, v := range r.Ld.baseMem {
		mem[k] = v
	}
	st := &State{mem: mem, ghost: map[string]Value{}}
	if r.attr("sharedro", "") != "" {
		st.shared = &sharedWatch{max: r.Ld.baseObjN, hits: map[string]bool{}, objs: map[*Object]bool{}}
		defer func() {
			var names []string
			for n := range st.shared.hits {
				names = append(names, n)
			}
			sort.Strings(names)
			for _, n := range names {
				c.obs = append(c.obs, &Oblig{Name: "shared state: no store to shared object " + shortName(n) + " (package-level after initialisation, or declared shared by the harness)", Kind: "lock", Hyp: TrueT, Goal: FalseT})
			}
			c.obs = append(c.obs, &Oblig{Name: "shared state: stores of this call go to caller-owned or fresh objects only (checked on every explored path)", Kind: "lock", Hyp: TrueT, Goal: TrueT})
			r.Obs = c.obs
		}()
	}
	if c.cutSpec = parseLoopCut(r); c.cutSpec != nil {
		c.runLoopCut(fn, st)
		r.Obs = c.obs
	} else {
		outs := c.callFunction(fn, nil, nil, st, nil)
		// a final reachability witness: some path must reach the end of the harness
		if r.attr("noreach", "") == "" {
			hyp := FalseT
			for _, o := range outs {
				hyp = Or(hyp, o.st.pc.term())
			}
			c.obs = append(c.obs, &Oblig{Name: "reach: end of harness", Kind: "reach", Hyp: hyp, Goal: FalseT})
		}
	}
	r.Obs = c.obs
	if c.skipRun {
		// the harness declared this combination of case-split parameters redundant: nothing is claimed for it
		// (and nothing is counted), in particular no reachability twin
		r.Obs = nil
	}
	r.Encoded = c.encoded
	r.Inputs = c.inputs
	r.Uses = c.contractUse
	r.Asserted = c.asserted
	r.UsedGhost = c.usedGhost
	r.ShadowPairs = c.shadowPairs
	return c
}

var solverSets = map[string][]string{
	"bv":  {"z3new", "z3", "cvc5"},
	"int": {"z3new", "cvc5", "z3"},
}

func (r *ObRun) discharge(timeout time.Duration, workers int) {
	mode := r.attr("mode", "bv")
	solvers := solverSets[mode]
	if s := r.attr("solvers", ""); s != "" {
		solvers = strings.Split(s, ",")
	}
	if t := r.attr("timeout", ""); t != "" {
		timeout = time.Duration(atoiDef(t, 60)) * time.Second
	}
	var wg sync.WaitGroup
	sem := make(chan struct{}, workers)
	firstRefuted := int64(-1)
	cancels := make([]chan struct{}, len(r.Obs))
	var cmu sync.Mutex
	for i := range cancels {
		cancels[i] = make(chan struct{})
	}
	step := len(r.Obs)/12 + 1
	for i, ob := range r.Obs {
		ob := ob
		ob.Mode = mode
		ob.SelfCheck = i%step == 0 || i == len(r.Obs)-2 // a spread of obligations incl. the last assertion
		wg.Add(1)
		sem <- struct{}{}
		to := timeout
		if ob.Kind == "reach" && len(r.Uses) > 0 && to > 8*time.Second {
			to = 8 * time.Second // satisfiability through contracts is hard for NIA solvers; see main.go on reach-unknown
		}
		idx := int64(i)
		go func() {
			defer wg.Done()
			defer func() { <-sem }()
			// obligations after a refuted assertion assume that assertion: they are tainted, skip them
			if fr := atomic.LoadInt64(&firstRefuted); fr >= 0 && idx > fr {
				ob.Verdict = "skipped"
				ob.Note = "follows a refuted assertion of the same run (which it assumes)"
				return
			}
			dischargeOne(ob, mode, solvers, to, r.Asserted, cancels[idx])
			if ob.Verdict == "refuted" {
				cmu.Lock()
				for j := int(idx) + 1; j < len(cancels); j++ {
					select {
					case <-cancels[j]:
					default:
						close(cancels[j])
					}
				}
				cmu.Unlock()
				for {
					fr := atomic.LoadInt64(&firstRefuted)
					if fr >= 0 && fr <= idx {
						break
					}
					if atomic.CompareAndSwapInt64(&firstRefuted, fr, idx) {
						break
					}
				}
			}
		}()
	}
	wg.Wait()
	for _, ob := range r.Obs {
		r.TermSize += 0
		_ = ob
	}
}

var selfCheckSamples = 6
var searchSamples = 400
var structuredSamples = 4000
var runSeed int64

func dischargeOne(ob *Oblig, mode string, solvers []string, timeout time.Duration, asserted map[*Term]bool, cancel <-chan struct{}) {
	start := time.Now()
	defer func() { ob.Secs = time.Since(start).Seconds() }()
	defer func() {
		if rec := recover(); rec != nil {
			if ee, ok := rec.(execError); ok {
				ob.Verdict = "inconclusive"
				ob.Note = "encoding: " + ee.msg
				refuteBySearch(ob)
				return
			}
			panic(rec)
		}
	}()
	var roots []*Term
	if ob.Kind == "reach" {
		roots = []*Term{ob.Hyp}
	} else {
		roots = []*Term{ob.Hyp, Not(ob.Goal)}
	}
	q := AndAll(roots...)
	if q.IsFalse() {
		if ob.Kind == "reach" {
			ob.Verdict = "vacuous"
		} else {
			ob.Verdict = "discharged"
			ob.Solver = "simplifier"
		}
		return
	}
	if q.IsTrue() {
		if ob.Kind == "reach" {
			ob.Verdict = "discharged"
			ob.Solver = "simplifier"
		} else {
			ob.Verdict = "refuted"
			ob.Solver = "simplifier"
			ob.Model = map[string]*big.Int{}
		}
		return
	}
	// a handful of concrete sample points first: a wrong program usually fails on one of them at once
	// (the point found is then replayed natively); passing samples prove nothing and the solver decides
	if ob.Kind != "reach" {
		if m := concreteSearch(ob, 6, runSeed); m != nil {
			ob.Verdict = "refuted"
			ob.Solver = "concrete-sample"
			ob.Model = m
			return
		}
	}
	var script string
	var vars []*Term
	var retryRoots []*Term
	if mode == "int" {
		tr := newIntTranslator()
		tr.skipHyp = asserted
		tr.scan(flattenAnd(ob.Hyp))
		var iroots []*Term
		for _, t := range flattenAnd(ob.Hyp) {
			iroots = append(iroots, tr.hyp(t))
		}
		var g *Term
		if ob.Kind != "reach" {
			tr.inGoal = true
			g = tr.boolean(ob.Goal)
			tr.inGoal = false
		}
		if ob.SelfCheck {
			if err := selfCheckInt(ob, tr, selfCheckSamples, runSeed); err != nil {
				ob.Verdict = "inconclusive"
				ob.Note = "ENCODER SELF-CHECK FAILED: " + err.Error()
				return
			}
		}
		if g != nil {
			if g.IsTrue() {
				ob.Verdict = "discharged"
				ob.Solver = "normaliser"
				return
			}
			iroots = append(iroots, Not(g))
		}
		iroots = append(iroots, tr.sideConstraints(iroots)...)
		script = SMTScript(iroots)
		vars = termVars(iroots...)
		if len(vars) > 400 {
			vars = vars[:400]
		}
		retryRoots = iroots
	} else {
		script = SMTScript(roots)
		vars = termVars(roots...)
		retryRoots = flattenAnd(AndAll(roots...))
	}
	res := SolveC(script, vars, timeout, solvers, cancel)
	if res.Status != "sat" && res.Status != "unsat" && res.Err != "cancelled" && retryRoots != nil {
		// the back ends gave up (their answer to a hard non-linear query depends on assertion order and term
		// numbering, which vary from run to run): ask again with the assertions in a different order; only a
		// definitive answer is taken from the retries
		for attempt := 0; attempt < 2; attempt++ {
			rr := append([]*Term(nil), retryRoots...)
			if attempt == 0 {
				for i, j := 0, len(rr)-1; i < j; i, j = i+1, j-1 {
					rr[i], rr[j] = rr[j], rr[i]
				}
			} else {
				for i := range rr {
					j := (i*7 + 3) % len(rr)
					rr[i], rr[j] = rr[j], rr[i]
				}
			}
			r2 := SolveC(SMTScript(rr), vars, timeout, solvers, cancel)
			if r2.Status == "sat" || r2.Status == "unsat" {
				res = r2
				break
			}
			if r2.Err == "cancelled" {
				res = r2
				break
			}
		}
	}
	ob.Solver = res.Solver
	if res.Err == "cancelled" {
		ob.Verdict = "skipped"
		ob.Note = "cancelled: follows a refuted assertion of the same run"
		return
	}
	switch res.Status {
	case "unsat":
		if ob.Kind == "reach" {
			ob.Verdict = "vacuous"
		} else {
			ob.Verdict = "discharged"
		}
	case "sat":
		if ob.Kind == "reach" {
			ob.Verdict = "discharged"
		} else {
			ob.Verdict = "refuted"
			ob.Model = res.Model
		}
	default:
		ob.Verdict = "inconclusive"
		ob.Note = "solver: " + res.Status + " " + res.Err
		if mode == "int" && ob.Kind != "reach" {
			// the integer encoding was not decided: the bit-vector encoding of the same obligation may still
			// produce a model (only sat is taken from it)
			bt := timeout
			if bt > 30*time.Second {
				bt = 30 * time.Second
			}
			if r2 := SolveC(SMTScript(roots), termVars(roots...), bt, solvers, cancel); r2.Status == "sat" && r2.Model != nil {
				ob.Verdict = "refuted"
				ob.Solver = r2.Solver + "(bit-vector encoding after int-mode " + res.Status + ")"
				ob.Model = r2.Model
				return
			}
		}
		refuteBySearch(ob)
	}
}

// refuteBySearch: after unknown / untranslatable, look for a concrete input that violates the obligation.
// Its only purpose is to obtain a replayable input; the native replay decides.
func refuteBySearch(ob *Oblig) {
	if ob.Kind == "reach" {
		return
	}
	if m := concreteSearch(ob, searchSamples, runSeed); m != nil {
		ob.Verdict = "refuted"
		ob.Solver = "concrete-search(after " + ob.Note + ")"
		ob.Model = m
		return
	}
	if m := structuredSearch(ob, structuredSamples, 40*time.Second, runSeed); m != nil {
		ob.Verdict = "refuted"
		ob.Solver = "structured-search(after " + ob.Note + ")"
		ob.Model = m
	}
}

// refuteWithoutContracts: when a run that relies on contracts is inconclusive (engine error, untranslatable
// operation, solver unknown), execute the harness again with every call going to the real code and search
// for a concrete violating input. Only refutations are taken from this pass, never discharges.
func (r *ObRun) refuteWithoutContracts() {
	need := r.Err != ""
	for _, ob := range r.Obs {
		if ob.Verdict == "inconclusive" {
			need = true
		}
	}
	if !need || (len(r.Uses) == 0 && r.Err == "") || r.attr("use", "") == "" || r.UsedGhost {
		return // (a ghost-parametrised harness means nothing without the contracts that maintain the ghosts)
	}
	d2 := *r.Dir
	d2.Attrs = map[string]string{}
	for k, v := range r.Dir.Attrs {
		d2.Attrs[k] = v
	}
	d2.Attrs["use"] = ""
	d2.Attrs["maxinstr"] = "3000000"
	r2 := &ObRun{Dir: &d2, Ld: r.Ld, Cases: r.Cases, Name: r.Name}
	r2.execute()
	if r2.Err != "" {
		return
	}
	for _, ob := range r2.Obs {
		if ob.Kind == "reach" {
			continue
		}
		if m := concreteSearch(ob, searchSamples, runSeed); m != nil {
			ob.Verdict = "refuted"
			ob.Solver = "concrete-search(contracts off)"
			ob.Model = m
			ob.Concrete = true
			ob.Mode = r.attr("mode", "bv")
			r.Obs = append(r.Obs, ob)
			return
		}
	}
	var cand []*Oblig
	for _, ob := range r2.Obs {
		if ob.Kind != "reach" && ob.Kind != "leak" && ob.Kind != "lock" {
			cand = append(cand, ob)
		}
	}
	if ob, m := structuredSearchMulti(cand, structuredSamples, 60*time.Second, runSeed); ob != nil {
		ob.Verdict = "refuted"
		ob.Solver = "structured-search(contracts off)"
		ob.Model = m
		ob.Concrete = true
		ob.Mode = r.attr("mode", "bv")
		r.Obs = append(r.Obs, ob)
	}
}

func flattenAnd(t *Term) []*Term {
	var out []*Term
	var rec func(t *Term)
	seen := map[*Term]bool{}
	rec = func(t *Term) {
		if seen[t] {
			return
		}
		seen[t] = true
		if t.op == OAnd {
			rec(t.args[0])
			rec(t.args[1])
			return
		}
		out = append(out, t)
	}
	rec(t)
	return out
}

// expandRuns instantiates a directive over its case-split domains.
func expandRuns(d *Directive, ld *Loaded) []*ObRun {
	type dom struct {
		name string
		vals []int
	}
	var doms []dom
	if s := d.Attrs["split"]; s != "" {
		for _, part := range strings.Split(s, ";") {
			kv := strings.SplitN(part, ":", 2)
			if len(kv) != 2 {
				continue
			}
			var vals []int
			for _, rg := range strings.Split(kv[1], "+") {
				if i := strings.Index(rg, ".."); i >= 0 {
					lo, hi := atoiDef(rg[:i], 0), atoiDef(rg[i+2:], 0)
					for v := lo; v <= hi; v++ {
						vals = append(vals, v)
					}
				} else {
					vals = append(vals, atoiDef(rg, 0))
				}
			}
			doms = append(doms, dom{kv[0], vals})
		}
	}
	base := d.Attrs["name"]
	if base == "" {
		base = d.Func
	}
	runs := []*ObRun{{Dir: d, Ld: ld, Cases: map[string]int{}, Name: base + "@" + ld.config}}
	for _, dm := range doms {
		var next []*ObRun
		for _, r := range runs {
			for _, v := range dm.vals {
				cs := map[string]int{}
				for k, x := range r.Cases {
					cs[k] = x
				}
				cs[dm.name] = v
				next = append(next, &ObRun{Dir: d, Ld: ld, Cases: cs, Name: fmt.Sprintf("%s[%s=%d]", r.Name, dm.name, v)})
			}
		}
		runs = next
	}
	return runs
}

func sortedEncoded(m map[string]int) []string {
	var ks []string
	for k := range m {
		ks = append(ks, k)
	}
	sort.Strings(ks)
	return ks
}

var _ = ssa.NewProgram

// concretiseAbstract: a solver model of an obligation that goes through contracts / loop cuts fixes the values of
// havoc'd intermediate results (hv!k ...), which the real code may never produce from the model's inputs. Here
// the harness is executed again with every call going to the real code, and the model's intermediate vectors
// are transplanted into the input vectors of the same length (an intermediate result of a limb routine is
// usually a fixed point, or close to one, of the routine that produced it). Candidates are evaluated on the
// real-code obligations; the first violated one is returned with a concrete input for native replay.
func (r *ObRun) concretiseAbstract(abs *Oblig) *Oblig {
	model, wantName := abs.Model, abs.Name
	if r.UsedGhost || len(model) == 0 || r.attr("cut", "") != "" {
		return nil
	}
	d2 := *r.Dir
	d2.Attrs = map[string]string{}
	for k, v := range r.Dir.Attrs {
		d2.Attrs[k] = v
	}
	d2.Attrs["use"] = ""
	d2.Attrs["maxinstr"] = "3000000"
	r2 := &ObRun{Dir: &d2, Ld: r.Ld, Cases: r.Cases, Name: r.Name}
	r2.execute()
	if r2.Err != "" {
		return nil
	}
	var cand []*Oblig
	var roots []*Term
	for _, ob := range r2.Obs {
		if ob.Kind != "reach" && ob.Kind != "leak" && ob.Kind != "lock" {
			cand = append(cand, ob)
			roots = append(roots, ob.Hyp, ob.Goal)
		}
	}
	if os.Getenv("VERIF_DEBUG") != "" {
		fmt.Fprintf(os.Stderr, "[concretise] run %s: err=%q %d candidate obligations, want %q\n", r.Name, r2.Err, len(cand), wantName)
	}
	if len(cand) == 0 {
		return nil
	}
	vars := termVars(roots...)
	groups, _ := groupInputs(vars)
	// runs of consecutively numbered model variables with a common prefix
	type mv struct {
		n int
		v *big.Int
	}
	byPrefix := map[string][]mv{}
	for name, v := range model {
		i := strings.LastIndex(name, "!")
		if i < 0 {
			continue
		}
		n, err := strconv.Atoi(name[i+1:])
		if err != nil {
			continue
		}
		byPrefix[name[:i]] = append(byPrefix[name[:i]], mv{n, v})
	}
	var seqs [][]*big.Int
	for _, l := range byPrefix {
		sort.Slice(l, func(i, j int) bool { return l[i].n < l[j].n })
		start := 0
		for i := 1; i <= len(l); i++ {
			if i == len(l) || l[i].n != l[i-1].n+1 {
				var s []*big.Int
				for _, x := range l[start:i] {
					s = append(s, x.v)
				}
				seqs = append(seqs, s)
				start = i
			}
		}
	}
	base := func() map[*Term]*big.Int {
		env := map[*Term]*big.Int{}
		for _, v := range vars {
			if x, ok := model[v.name]; ok {
				env[v] = x
			} else {
				env[v] = big.NewInt(0)
			}
		}
		return env
	}
	try := func(env map[*Term]*big.Int) *Oblig {
		ev := newEvaluator(env)
		for _, ob := range cand {
			ok := true
			for _, h := range flattenAnd(ob.Hyp) {
				x, err := ev.eval(h)
				if err != nil || x.Sign() == 0 {
					ok = false
					break
				}
			}
			if !ok {
				continue
			}
			g, err := ev.eval(ob.Goal)
			if err != nil || g.Sign() != 0 {
				continue
			}
			m := map[string]*big.Int{}
			for v, x := range env {
				m[v.name] = x
			}
			ob.Verdict = "refuted"
			ob.Solver = "solver model of the contract-level obligation, intermediate vector transplanted into the input (contracts off)"
			ob.Model = m
			ob.Concrete = true
			ob.Mode = r.attr("mode", "bv")
			return ob
		}
		return nil
	}
	tries := 0
	defer func() {
		// (see below) nothing to clean up; kept for symmetry with the solver pass
	}()
	for _, g := range groups {
		n := len(g.vars)
		for _, s := range seqs {
			for off := 0; off+n <= len(s) && tries < 400; off++ {
				env := base()
				fits := true
				for i, x := range g.vars {
					if x == nil {
						continue
					}
					if s[off+i].BitLen() > x.sort.W {
						fits = false
						break
					}
					env[x] = s[off+i]
				}
				if !fits {
					continue
				}
				tries++
				if ob := try(env); ob != nil {
					return ob
				}
			}
		}
	}
	// model-guided concretisation: run the harness once more with the contracts in place AND the real functions
	// executed inside them (shadow run); ask the solver for harness inputs under which the real intermediate
	// results equal the values the abstract model chose for the corresponding havoc variables
	if len(r.Uses) > 0 {
		d3 := *r.Dir
		d3.Attrs = map[string]string{}
		for k, v := range r.Dir.Attrs {
			d3.Attrs[k] = v
		}
		d3.Attrs["shadow"] = "1"
		d3.Attrs["maxinstr"] = "3000000"
		r3 := &ObRun{Dir: &d3, Ld: r.Ld, Cases: r.Cases, Name: r.Name}
		func() {
			defer func() { recover() }()
			r3.execute()
		}()
		var eqs []*Term
		for _, pr := range r3.ShadowPairs {
			if v, ok := model[pr[0].name]; ok && pr[0].sort.K == KBV && pr[1].sort == pr[0].sort {
				eqs = append(eqs, Eq(pr[1], BVC(v, pr[0].sort.W)))
			}
		}
		if os.Getenv("VERIF_DEBUG") != "" {
			fmt.Fprintf(os.Stderr, "[concretise] shadow run: err=%q pairs=%d matched=%d\n", r3.Err, len(r3.ShadowPairs), len(eqs))
		}
		if len(eqs) > 0 {
			q := AndAll(eqs...)
			if !q.IsFalse() {
				res := SolveC(SMTScript([]*Term{q}), termVars(q), 25*time.Second, []string{"z3new", "z3", "cvc5"}, nil)
				if os.Getenv("VERIF_DEBUG") != "" {
					fmt.Fprintf(os.Stderr, "[concretise] inversion query: %s (%s)\n", res.Status, res.Solver)
				}
				if res.Status == "sat" && res.Model != nil {
					env := base()
					for _, v := range vars {
						if x, ok := res.Model[v.name]; ok {
							env[v] = x
						}
					}
					if ob := try(env); ob != nil {
						ob.Solver = "abstract model concretised by solving real intermediate results = model values (" + res.Solver + "), contracts off"
						return ob
					}
				}
			}
		}
		// joint query: the abstract obligation together with "havoc variable = real intermediate result" for
		// every pair (the contract facts stay in as lemmas)
		var peqs []*Term
		for _, pr := range r3.ShadowPairs {
			if pr[1].sort == pr[0].sort {
				peqs = append(peqs, Eq(pr[0], pr[1]))
			}
		}
		if len(peqs) > 0 && abs.Hyp != nil {
			jo := &Oblig{Name: abs.Name, Kind: abs.Kind, Hyp: AndAll(append([]*Term{abs.Hyp}, peqs...)...), Goal: abs.Goal}
			func() {
				defer func() { recover() }()
				dischargeOneNoSearch(jo, r.attr("mode", "bv"), []string{"z3new", "z3", "cvc5"}, 60*time.Second)
			}()
			if os.Getenv("VERIF_DEBUG") != "" {
				fmt.Fprintf(os.Stderr, "[concretise] joint query: %q (%s)\n", jo.Verdict, jo.Solver)
			}
			if jo.Verdict == "refuted" && jo.Model != nil {
				env := base()
				for _, v := range vars {
					if x, ok := jo.Model[v.name]; ok {
						env[v] = x
					}
				}
				if ob := try(env); ob != nil {
					ob.Solver = "joint query: abstract obligation + real intermediate results (" + jo.Solver + "), validated with contracts off"
					return ob
				}
			}
		}
	}
	// the solver on the real-code obligation of the same name (both encodings, short caps; only sat is used)
	mode := r.attr("mode", "bv")
	n := 0
	for _, ob := range cand {
		if ob.Name != wantName && wantName != "" {
			continue
		}
		if n++; n > 3 {
			break
		}
		for _, m := range []string{mode, "bv"} {
			o2 := &Oblig{Name: ob.Name, Kind: ob.Kind, Pos: ob.Pos, Hyp: ob.Hyp, Goal: ob.Goal}
			func() {
				defer func() { recover() }()
				dischargeOneNoSearch(o2, m, []string{"z3new", "z3", "cvc5"}, 25*time.Second)
			}()
			if os.Getenv("VERIF_DEBUG") != "" {
				fmt.Fprintf(os.Stderr, "[concretise] %s mode=%s -> %q (%s)\n", ob.Name, m, o2.Verdict, o2.Solver)
			}
			if o2.Verdict == "refuted" && o2.Model != nil {
				ob.Verdict = "refuted"
				ob.Solver = o2.Solver + " on the real-code obligation (contracts off)"
				ob.Model = o2.Model
				ob.Concrete = true
				ob.Mode = m
				return ob
			}
			if m == "bv" {
				break
			}
		}
	}
	return nil
}

// dischargeOneNoSearch: one solver call for an obligation, without the sampling / search fallbacks.
func dischargeOneNoSearch(ob *Oblig, mode string, solvers []string, timeout time.Duration) {
	roots := []*Term{ob.Hyp, Not(ob.Goal)}
	var script string
	var vars []*Term
	if mode == "int" {
		tr := newIntTranslator()
		tr.scan(flattenAnd(ob.Hyp))
		var iroots []*Term
		for _, t := range flattenAnd(ob.Hyp) {
			iroots = append(iroots, tr.hyp(t))
		}
		tr.inGoal = true
		g := tr.boolean(ob.Goal)
		tr.inGoal = false
		iroots = append(iroots, Not(g))
		iroots = append(iroots, tr.sideConstraints(iroots)...)
		script = SMTScript(iroots)
		vars = termVars(iroots...)
	} else {
		script = SMTScript(roots)
		vars = termVars(roots...)
	}
	res := SolveC(script, vars, timeout, solvers, nil)
	ob.Solver = res.Solver
	if res.Status == "sat" {
		ob.Verdict = "refuted"
		ob.Model = res.Model
	}
}

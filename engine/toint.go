package main

// BV -> Int translation with deferred reduction ("Int mode") over normalised integer polynomials.
//
// Every bit-vector term t of width w is mapped to an integer polynomial P with  value(t) = P mod 2^w.
// Reduction is materialised only where the canonical residue is observed (>>, compare, widen, mask);
// there it is dropped when range analysis proves 0 <= P < 2^w (a no-wrap fact), otherwise it is kept
// exactly as  P - 2^w * floor(P / 2^w).  Polynomials are kept in normal form (sum of coef * monomial over
// atoms); floor divisions by constants are atoms from which exact multiples are pulled out
// (floor((m*K + R)/m) = K + floor(R/m)), which is what makes hi/lo carry chains and limb carries telescope.
// Division atoms are emitted to the solver as skolem integers with their defining inequalities.

import (
	"math/big"
	"sort"
	"strconv"
	"strings"
	"sync/atomic"
)

type ival struct{ lo, hi *big.Int } // nil fields = unknown

func (i ival) known() bool { return i.lo != nil && i.hi != nil }

func unk() ival                { return ival{} }
func kiv(lo, hi *big.Int) ival { return ival{lo, hi} }
func ivConst(v *big.Int) ival  { return ival{v, v} }

func ivAdd(a, b ival) ival {
	if !a.known() || !b.known() {
		return unk()
	}
	return ival{new(big.Int).Add(a.lo, b.lo), new(big.Int).Add(a.hi, b.hi)}
}
func ivSub(a, b ival) ival {
	if !a.known() || !b.known() {
		return unk()
	}
	return ival{new(big.Int).Sub(a.lo, b.hi), new(big.Int).Sub(a.hi, b.lo)}
}
func ivNeg(a ival) ival {
	if !a.known() {
		return unk()
	}
	return ival{new(big.Int).Neg(a.hi), new(big.Int).Neg(a.lo)}
}
func ivMul(a, b ival) ival {
	if !a.known() || !b.known() {
		return unk()
	}
	c := []*big.Int{new(big.Int).Mul(a.lo, b.lo), new(big.Int).Mul(a.lo, b.hi), new(big.Int).Mul(a.hi, b.lo), new(big.Int).Mul(a.hi, b.hi)}
	lo, hi := c[0], c[0]
	for _, x := range c[1:] {
		if x.Cmp(lo) < 0 {
			lo = x
		}
		if x.Cmp(hi) > 0 {
			hi = x
		}
	}
	return ival{lo, hi}
}
func ivUnion(a, b ival) ival {
	if !a.known() || !b.known() {
		return unk()
	}
	lo, hi := a.lo, a.hi
	if b.lo.Cmp(lo) < 0 {
		lo = b.lo
	}
	if b.hi.Cmp(hi) > 0 {
		hi = b.hi
	}
	return ival{lo, hi}
}
func ivMeet(a, b ival) ival {
	if !a.known() {
		return b
	}
	if !b.known() {
		return a
	}
	lo, hi := a.lo, a.hi
	if b.lo.Cmp(lo) > 0 {
		lo = b.lo
	}
	if b.hi.Cmp(hi) < 0 {
		hi = b.hi
	}
	if lo.Cmp(hi) > 0 { // inconsistent (dead code): keep one of them
		return a
	}
	return ival{lo, hi}
}
func floorDiv(a, m *big.Int) *big.Int {
	q, r := new(big.Int), new(big.Int)
	q.DivMod(a, m, r)
	return q
}
func ivDivC(a ival, m *big.Int) ival {
	if !a.known() {
		return unk()
	}
	return ival{floorDiv(a.lo, m), floorDiv(a.hi, m)}
}
func ivWithin(a ival, lo, hi *big.Int) bool {
	return a.known() && a.lo.Cmp(lo) >= 0 && a.hi.Cmp(hi) <= 0
}

// ---------- polynomials ----------

type pmono struct {
	coef  *big.Int
	atoms []*Term // sorted by id, repeated for powers
}

type Poly struct {
	ms        map[string]*pmono
	iv        ival // structural interval (sound over-approximation)
	ivDone    bool
	tightDone bool
}

func monoKey(atoms []*Term) string {
	if len(atoms) == 0 {
		return ""
	}
	var sb strings.Builder
	for i, a := range atoms {
		if i > 0 {
			sb.WriteByte(',')
		}
		sb.WriteString(strconv.FormatInt(a.id, 36))
	}
	return sb.String()
}

func pConst(v *big.Int) *Poly {
	p := &Poly{ms: map[string]*pmono{}, iv: ivConst(v)}
	if v.Sign() != 0 {
		p.ms[""] = &pmono{coef: new(big.Int).Set(v)}
	}
	return p
}

func pAtom(a *Term, iv ival) *Poly {
	return &Poly{ms: map[string]*pmono{monoKey([]*Term{a}): {coef: big.NewInt(1), atoms: []*Term{a}}}, iv: iv}
}

func (p *Poly) isConst() (*big.Int, bool) {
	if len(p.ms) == 0 {
		return big0, true
	}
	if len(p.ms) == 1 {
		if m, ok := p.ms[""]; ok {
			return m.coef, true
		}
	}
	return nil, false
}

func pAddScaled(a, b *Poly, k *big.Int) *Poly {
	r := &Poly{ms: make(map[string]*pmono, len(a.ms)+len(b.ms))}
	for key, m := range a.ms {
		r.ms[key] = m
	}
	for key, m := range b.ms {
		c := new(big.Int).Mul(m.coef, k)
		if old, ok := r.ms[key]; ok {
			c.Add(c, old.coef)
		}
		if c.Sign() == 0 {
			delete(r.ms, key)
		} else {
			r.ms[key] = &pmono{coef: c, atoms: m.atoms}
		}
	}
	return r
}

func pAdd(a, b *Poly) *Poly {
	r := pAddScaled(a, b, big1)
	r.iv = ivAdd(a.iv, b.iv)
	return r.fixConst()
}
func pSub(a, b *Poly) *Poly {
	r := pAddScaled(a, b, big.NewInt(-1))
	r.iv = ivSub(a.iv, b.iv)
	return r.fixConst()
}
func pNeg(a *Poly) *Poly { return pSub(pConst(big0), a) }
func pScale(a *Poly, k *big.Int) *Poly {
	r := pAddScaled(&Poly{ms: map[string]*pmono{}}, a, k)
	r.iv = ivMul(a.iv, ivConst(k))
	return r.fixConst()
}
func (p *Poly) fixConst() *Poly {
	if c, ok := p.isConst(); ok {
		p.iv = ivConst(c)
	}
	return p
}

func pMul(a, b *Poly) *Poly {
	if len(a.ms)*len(b.ms) > 20000 {
		fail("int translation: polynomial product too large (%d x %d monomials)", len(a.ms), len(b.ms))
	}
	r := &Poly{ms: map[string]*pmono{}}
	for _, x := range a.ms {
		for _, y := range b.ms {
			atoms := make([]*Term, 0, len(x.atoms)+len(y.atoms))
			atoms = append(atoms, x.atoms...)
			atoms = append(atoms, y.atoms...)
			sort.Slice(atoms, func(i, j int) bool { return atoms[i].id < atoms[j].id })
			// indicator atoms (ite c 1 0) are idempotent
			w := 0
			for i, a := range atoms {
				if i > 0 && a == atoms[w-1] && isIndicator(a) {
					continue
				}
				atoms[w] = a
				w++
			}
			atoms = atoms[:w]
			key := monoKey(atoms)
			c := new(big.Int).Mul(x.coef, y.coef)
			if old, ok := r.ms[key]; ok {
				c.Add(c, old.coef)
			}
			if c.Sign() == 0 {
				delete(r.ms, key)
			} else {
				r.ms[key] = &pmono{coef: c, atoms: atoms}
			}
		}
	}
	r.iv = ivMul(a.iv, b.iv)
	return r.fixConst()
}

func isIndicator(a *Term) bool {
	return a.op == OIte && a.sort.K == KInt && a.args[1].IsConst() && a.args[2].IsConst() &&
		a.args[1].val.Cmp(big1) == 0 && a.args[2].val.Sign() == 0
}

func (p *Poly) sortedKeys() []string {
	ks := make([]string, 0, len(p.ms))
	for k := range p.ms {
		ks = append(ks, k)
	}
	sort.Strings(ks)
	return ks
}

// polyTerm renders a polynomial as an Int term (deterministic).
func polyTerm(p *Poly) *Term {
	var r *Term
	for _, k := range p.sortedKeys() {
		m := p.ms[k]
		var t *Term
		for _, a := range m.atoms {
			if t == nil {
				t = a
			} else {
				t = IMul(t, a)
			}
		}
		if t == nil {
			t = IntC(m.coef)
		} else if m.coef.Cmp(big1) != 0 {
			t = IMul(t, IntC(m.coef))
		}
		if r == nil {
			r = t
		} else {
			r = IAdd(r, t)
		}
	}
	if r == nil {
		return IntI(0)
	}
	return r
}

// ---------- translator ----------

type hypPoly struct {
	p *Poly
	m *big.Int
}

type divDef struct {
	lin []*remFact // extra linear defining facts 0 <= f <= hi (named bits of the bitwise fallback); when present
	// they define q exactly and the (non-linear) quotient inequalities are not emitted
	q *Term // skolem variable
	r *Poly // dividend
	m *big.Int
}

type intTr struct {
	lazyMemo  map[*Term]*Poly
	canonMemo map[*Term]*Poly
	boolMemo  map[*Term]*Term
	intMemo   map[*Term]*Poly
	vbound    map[*Term]*big.Int // BV var -> inclusive upper bound from hypotheses
	atomIv    map[*Term]ival
	divSk     map[*Term]*divDef // IDiv term -> definition
	skDef     map[*Term]*divDef // skolem var -> definition
	bvVars    map[*Term]*Term   // Int var -> BV var (for range constraints)
	facts     map[*Term][]*remFact
	hypPolys  []hypPoly // assumed  p ≡ 0 (mod m)  or, with m == nil,  p = 0 ; in hypothesis order
	noElim    bool
	inGoal    bool
	skipHyp   map[*Term]bool
}

var statModsDropped, statModsKept int64

func newIntTranslator() *intTr {
	return &intTr{lazyMemo: map[*Term]*Poly{}, canonMemo: map[*Term]*Poly{}, boolMemo: map[*Term]*Term{},
		intMemo: map[*Term]*Poly{}, vbound: map[*Term]*big.Int{}, atomIv: map[*Term]ival{},
		divSk: map[*Term]*divDef{}, skDef: map[*Term]*divDef{}, bvVars: map[*Term]*Term{}, facts: map[*Term][]*remFact{}}
}

// monoIv is the monomial-wise interval of a polynomial.
func (tr *intTr) monoIv(p *Poly) ival {
	sum := ivConst(big0)
	for _, m := range p.ms {
		t := ivConst(m.coef)
		for _, a := range m.atoms {
			t = ivMul(t, tr.atomIv[a])
			if !t.known() {
				break
			}
		}
		sum = ivAdd(sum, t)
		if !sum.known() {
			break
		}
	}
	return sum
}

// ivOf tightens the structural interval with the monomial-wise one and with the remainder pattern
// p = k*(R - m*q) + rest  where q = floor(R/m), so that  R - m*q  lies in [0, m-1].
func (tr *intTr) ivOf(p *Poly) ival {
	if p.ivDone {
		return p.iv
	}
	p.ivDone = true
	p.iv = ivMeet(p.iv, tr.monoIv(p))
	return p.iv
}

// within decides lo <= p <= hi; when the cheap interval fails it tries the recorded remainder facts.
func (tr *intTr) within(p *Poly, lo, hi *big.Int) bool {
	if ivWithin(tr.ivOf(p), lo, hi) {
		return true
	}
	if p.tightDone {
		return false
	}
	p.tightDone = true
	tries := 0
	for _, key := range p.sortedKeys() {
		mo := p.ms[key]
		if len(mo.atoms) != 1 {
			continue
		}
		fs := tr.facts[mo.atoms[0]]
		for i := len(fs) - 1; i >= 0 && i >= len(fs)-6; i-- {
			if tries > 24 {
				break
			}
			tries++
			fact := fs[i]
			fm := fact.f.ms[key]
			if fm == nil {
				continue
			}
			k, rem := new(big.Int), new(big.Int)
			k.QuoRem(mo.coef, fm.coef, rem)
			if rem.Sign() != 0 || k.Sign() == 0 {
				continue
			}
			rest := pSub(p, pScale(fact.f, k))
			if len(rest.ms) >= len(p.ms) {
				continue // not a simplification
			}
			ri := tr.monoIv(rest)
			if !ri.known() {
				continue
			}
			p.iv = ivMeet(p.iv, ivAdd(ivMul(ivConst(k), kiv(big0, fact.hi)), ri))
			if ivWithin(p.iv, lo, hi) {
				return true
			}
		}
	}
	return ivWithin(p.iv, lo, hi)
}

// scan extracts variable bounds of the shapes  x <u c,  x <=u c  from hypothesis conjuncts.
func (tr *intTr) scan(hyps []*Term) {
	upd := func(v *Term, b *big.Int) {
		if b.Sign() < 0 {
			return
		}
		if old, ok := tr.vbound[v]; !ok || b.Cmp(old) < 0 {
			tr.vbound[v] = b
		}
	}
	for _, h := range hyps {
		switch h.op {
		case OBvUlt:
			if h.args[0].op == OVar && h.args[1].IsConst() {
				upd(h.args[0], new(big.Int).Sub(h.args[1].val, big1))
			}
		case OBvUle:
			if h.args[0].op == OVar && h.args[1].IsConst() {
				upd(h.args[0], h.args[1].val)
			}
		case ONot:
			x := h.args[0]
			if x.op == OBvUlt && x.args[1].op == OVar && x.args[0].IsConst() {
				upd(x.args[1], x.args[0].val)
			}
			if x.op == OBvUle && x.args[1].op == OVar && x.args[0].IsConst() {
				upd(x.args[1], new(big.Int).Sub(x.args[0].val, big1))
			}
		case OEq:
			for i := 0; i < 2; i++ {
				a, b := h.args[i], h.args[1-i]
				if b.IsConst() && b.val.Sign() == 0 && a.op == OExtract && a.args[0].op == OVar && a.p1 == a.args[0].sort.W-1 {
					upd(a.args[0], new(big.Int).Sub(pow2(a.p2), big1))
				}
			}
		}
	}
}

func (tr *intTr) bvVar(t *Term) *Poly {
	v := Var(t.name, IntSort)
	hi := maskW(t.sort.W)
	if b, ok := tr.vbound[t]; ok && b.Cmp(hi) < 0 {
		hi = b
	}
	tr.bvVars[v] = t
	iv := ival{big0, hi}
	tr.atomIv[v] = iv
	return pAtom(v, iv)
}

func trailingZeros(t *Term) int {
	switch t.op {
	case OConst:
		if t.val.Sign() == 0 {
			return t.sort.W
		}
		return int(t.val.TrailingZeroBits())
	case OBvShl:
		if t.args[1].IsConst() {
			return trailingZeros(t.args[0]) + int(t.args[1].val.Int64())
		}
	case OBvMul:
		return trailingZeros(t.args[0]) + trailingZeros(t.args[1])
	case OBvAdd, OBvSub, OBvOr, OBvXor:
		a, b := trailingZeros(t.args[0]), trailingZeros(t.args[1])
		if a < b {
			return a
		}
		return b
	case OBvAnd:
		a, b := trailingZeros(t.args[0]), trailingZeros(t.args[1])
		if a > b {
			return a
		}
		return b
	case OConcat:
		lw := t.args[1].sort.W
		z := trailingZeros(t.args[1])
		if z >= lw {
			return lw + trailingZeros(t.args[0])
		}
		return z
	case OZext:
		z := trailingZeros(t.args[0])
		if z >= t.args[0].sort.W {
			return t.sort.W
		}
		return z
	case OExtract:
		z := trailingZeros(t.args[0]) - t.p2
		if z < 0 {
			return 0
		}
		if z > t.sort.W {
			return t.sort.W
		}
		return z
	case OIte:
		a, b := trailingZeros(t.args[1]), trailingZeros(t.args[2])
		if a < b {
			return a
		}
		return b
	}
	return 0
}

// divPoly = floor(p / m) for a positive constant m; records the remainder fact  0 <= p - m*res <= m-1.
func (tr *intTr) divPoly(p *Poly, m *big.Int) *Poly {
	res := tr.divPoly0(p, m)
	f := pSub(p, pScale(res, m))
	if _, isC := f.isConst(); !isC {
		fact := &remFact{f: f, hi: new(big.Int).Sub(m, big1)}
		for _, mo := range f.ms {
			if len(mo.atoms) == 1 {
				a := mo.atoms[0]
				if len(tr.facts[a]) < 24 {
					tr.facts[a] = append(tr.facts[a], fact)
				}
			}
		}
	}
	return res
}

type remFact struct {
	f  *Poly // 0 <= f <= hi
	hi *big.Int
}

// divPoly0 does the work.
func (tr *intTr) divPoly0(p *Poly, m *big.Int) *Poly {
	if m.Cmp(big1) == 0 {
		return p
	}
	k := &Poly{ms: map[string]*pmono{}}
	r := &Poly{ms: map[string]*pmono{}}
	for key, mo := range p.ms {
		q, rem := new(big.Int), new(big.Int)
		if key == "" {
			q.DivMod(mo.coef, m, rem) // constant: Euclidean split
		} else {
			q.QuoRem(mo.coef, m, rem) // |rem| < m with the sign of the coefficient: small coefficients stay put
		}
		if q.Sign() != 0 {
			k.ms[key] = &pmono{coef: q, atoms: mo.atoms}
		}
		if rem.Sign() != 0 {
			r.ms[key] = &pmono{coef: rem, atoms: mo.atoms}
		}
	}
	k.iv, r.iv = unk(), unk()
	kiv0 := tr.ivOf(k)
	riv := tr.ivOf(r)
	piv := tr.ivOf(p)
	// r = p - m*k : a second bound on r
	if piv.known() && kiv0.known() {
		riv = ivMeet(riv, ivSub(piv, ivMul(kiv0, ivConst(m))))
		r.iv = riv
	}
	if c, ok := r.isConst(); ok {
		res := pAdd(k, pConst(floorDiv(c, m)))
		res.iv = ivMeet(res.iv, ivDivC(piv, m))
		return res
	}
	if riv.known() {
		ql, qh := floorDiv(riv.lo, m), floorDiv(riv.hi, m)
		if ql.Cmp(qh) == 0 {
			// the remainder part contributes a constant quotient
			res := pAdd(k, pConst(ql))
			res.iv = ivMeet(res.iv, ivDivC(piv, m))
			return res
		}
	}
	finish := func(d *Poly) *Poly {
		res := pAdd(k, d)
		res.iv = ivMeet(res.iv, ivDivC(piv, m))
		return res
	}
	// nested division: floor((floor(r'/m') + K) / m) = floor((r' + K*m') / (m'*m))
	for _, key := range r.sortedKeys() {
		mo := r.ms[key]
		if len(mo.atoms) != 1 || mo.coef.Cmp(big1) != 0 {
			continue
		}
		def, ok := tr.skDef[mo.atoms[0]]
		if !ok {
			continue
		}
		rest := pSub(r, pAtom(mo.atoms[0], tr.atomIv[mo.atoms[0]]))
		inner := pAdd(def.r, pScale(rest, def.m))
		inner.iv = unk()
		return finish(tr.divPoly(inner, new(big.Int).Mul(def.m, m)))
	}
	// scale reduction for m = 2^k: if R = g*A + B with 0 <= B < g and g | m then floor(R/m) = floor(A/(m/g))
	if m.BitLen() > 1 && new(big.Int).And(m, new(big.Int).Sub(m, big1)).Sign() == 0 {
		kbits := m.BitLen() - 1
		for j := kbits - 1; j >= 1; j-- {
			g := pow2(j)
			a := &Poly{ms: map[string]*pmono{}}
			b := &Poly{ms: map[string]*pmono{}}
			for key, mo := range r.ms {
				q, rem := new(big.Int), new(big.Int)
				q.QuoRem(mo.coef, g, rem)
				if rem.Sign() == 0 {
					a.ms[key] = &pmono{coef: q, atoms: mo.atoms}
				} else {
					b.ms[key] = mo
				}
			}
			if len(a.ms) == 0 {
				continue
			}
			a.iv, b.iv = unk(), unk()
			if len(b.ms) > 0 && !ivWithin(tr.ivOf(b), big0, new(big.Int).Sub(g, big1)) {
				continue
			}
			return finish(tr.divPoly(a, pow2(kbits-j)))
		}
	}
	dt := IDiv(polyTerm(r), IntC(m))
	def, ok := tr.divSk[dt]
	if !ok {
		q := Var("d!"+strconv.FormatInt(dt.id, 36), IntSort)
		def = &divDef{q: q, r: r, m: m}
		tr.divSk[dt] = def
		tr.skDef[q] = def
		tr.atomIv[q] = ivDivC(riv, m)
	}
	res := pAdd(k, pAtom(def.q, tr.atomIv[def.q]))
	res.iv = ivMeet(res.iv, ivDivC(piv, m))
	return res
}

// modPoly = p mod m = p - m*floor(p/m), in [0, m).
func (tr *intTr) modPoly(p *Poly, m *big.Int) *Poly {
	mm := new(big.Int).Sub(m, big1)
	if tr.within(p, big0, mm) {
		atomic.AddInt64(&statModsDropped, 1)
		return p
	}
	atomic.AddInt64(&statModsKept, 1)
	d := tr.divPoly(p, m)
	r := pSub(p, pScale(d, m))
	r.iv = ivMeet(kiv(big0, mm), r.iv)
	return r
}

func (tr *intTr) canon(t *Term) *Poly {
	if r, ok := tr.canonMemo[t]; ok {
		return r
	}
	r := tr.modPoly(tr.lazy(t), pow2(t.sort.W))
	tr.canonMemo[t] = r
	return r
}

func (tr *intTr) boolAtom(c *Term) *Poly {
	if c.IsConst() {
		if c.IsTrue() {
			return pConst(big1)
		}
		return pConst(big0)
	}
	if c.op == ONot {
		return pSub(pConst(big1), tr.boolAtom(c.args[0]))
	}
	a := Ite(c, IntI(1), IntI(0))
	tr.atomIv[a] = kiv(big0, big1)
	return pAtom(a, kiv(big0, big1))
}

func (tr *intTr) itePoly(c *Term, a, b *Poly) *Poly {
	// b + [c]*(a-b)
	r := pAdd(b, pMul(tr.boolAtom(c), pSub(a, b)))
	r.iv = ivMeet(r.iv, ivUnion(tr.ivOf(a), tr.ivOf(b)))
	return r
}

func (tr *intTr) signed(t *Term) *Poly {
	w := t.sort.W
	half := pow2(w - 1)
	// the deferred polynomial already is the signed value when it lies in the signed range
	if l := tr.lazy(t); tr.within(l, new(big.Int).Neg(half), new(big.Int).Sub(half, big1)) {
		return l
	}
	c := tr.canon(t)
	iv := tr.ivOf(c)
	if iv.known() && iv.hi.Cmp(half) < 0 {
		return c
	}
	// c - 2^w * [c >= 2^(w-1)], the indicator written as floor((c + 2^(w-1)) / 2^w) so that it shares
	// atoms with carries computed the same way by the code
	r := pSub(c, pScale(tr.divPoly(pAdd(c, pConst(half)), pow2(w)), pow2(w)))
	r.iv = ivMeet(r.iv, kiv(new(big.Int).Neg(half), new(big.Int).Sub(half, big1)))
	return r
}

func contiguousMask(v *big.Int) (lo, hi int, ok bool) {
	if v.Sign() == 0 {
		return 0, 0, false
	}
	lo = int(v.TrailingZeroBits())
	s := new(big.Int).Rsh(v, uint(lo))
	n := s.BitLen()
	if s.Cmp(maskW(n)) != 0 {
		return 0, 0, false
	}
	return lo, lo + n - 1, true
}

func (tr *intTr) lazy(t *Term) *Poly {
	if r, ok := tr.lazyMemo[t]; ok {
		return r
	}
	r := tr.lazy1(t)
	tr.lazyMemo[t] = r
	return r
}

func (tr *intTr) lazy1(t *Term) *Poly {
	if t.sort.K != KBV {
		fail("int translation: non-BV term in lazy: %s", t)
	}
	w := t.sort.W
	switch t.op {
	case OVar:
		return tr.bvVar(t)
	case OConst:
		return pConst(t.val)
	case OBvAdd:
		a := tr.lazy(t.args[0])
		if t.args[1].IsConst() && t.args[1].val.Bit(w-1) == 1 {
			return pAdd(a, pConst(new(big.Int).Sub(t.args[1].val, pow2(w)))) // 2^w - c  ==  -c  (mod 2^w)
		}
		return pAdd(a, tr.lazy(t.args[1]))
	case OBvSub:
		return pSub(tr.lazy(t.args[0]), tr.lazy(t.args[1]))
	case OBvMul:
		return pMul(tr.lazy(t.args[0]), tr.lazy(t.args[1]))
	case OBvNeg:
		return pNeg(tr.lazy(t.args[0]))
	case OBvNot:
		return pSub(pConst(maskW(w)), tr.canon(t.args[0]))
	case OBvShl:
		if !t.args[1].IsConst() {
			fail("int translation: shift by symbolic amount")
		}
		return pScale(tr.lazy(t.args[0]), pow2(int(t.args[1].val.Int64())))
	case OBvLshr:
		if !t.args[1].IsConst() {
			fail("int translation: shift by symbolic amount")
		}
		return tr.divPoly(tr.canon(t.args[0]), pow2(int(t.args[1].val.Int64())))
	case OBvAshr:
		if !t.args[1].IsConst() {
			fail("int translation: shift by symbolic amount")
		}
		return tr.divPoly(tr.signed(t.args[0]), pow2(int(t.args[1].val.Int64())))
	case OExtract:
		if t.p2 == 0 {
			return tr.lazy(t.args[0]) // truncation: same polynomial, smaller modulus
		}
		// the top bit of a value whose deferred polynomial lies in the signed range is the borrow indicator
		// [P < 0] = -floor(P / 2^(w-1))   (shares its division atom with the low part P mod 2^(w-1))
		if aw := t.args[0].sort.W; t.p1 == aw-1 && t.p2 == aw-1 {
			half := pow2(aw - 1)
			if l := tr.lazy(t.args[0]); tr.within(l, new(big.Int).Neg(half), new(big.Int).Sub(half, big1)) && !tr.within(l, big0, new(big.Int).Sub(half, big1)) {
				r := pNeg(tr.divPoly(l, half))
				r.iv = ivMeet(r.iv, kiv(big0, big1))
				return r
			}
		}
		return tr.divPoly(tr.canon(t.args[0]), pow2(t.p2))
	case OZext:
		return tr.canon(t.args[0])
	case OSext:
		return tr.signed(t.args[0])
	case OConcat:
		return pAdd(pScale(tr.canon(t.args[0]), pow2(t.args[1].sort.W)), tr.canon(t.args[1]))
	case OBvAnd:
		a, b := t.args[0], t.args[1]
		m1 := big.NewInt(-1)
		if !a.IsConst() || !b.IsConst() {
			// x & mask where mask is 0 or all-ones (as the polynomial -1): x * (-mask)
			if !b.IsConst() {
				if lb := tr.lazy(b); ivWithin(tr.ivOf(lb), m1, big0) && !ivWithin(tr.ivOf(lb), big0, big0) {
					ca := tr.canon(a)
					r := pMul(ca, pNeg(lb))
					r.iv = ivMeet(r.iv, ivUnion(ivConst(big0), tr.ivOf(ca)))
					return r
				}
			}
			if !a.IsConst() {
				if la := tr.lazy(a); ivWithin(tr.ivOf(la), m1, big0) && !ivWithin(tr.ivOf(la), big0, big0) {
					cb := tr.canon(b)
					r := pMul(cb, pNeg(la))
					r.iv = ivMeet(r.iv, ivUnion(ivConst(big0), tr.ivOf(cb)))
					return r
				}
			}
		}
		if a.IsConst() {
			a, b = b, a
		}
		if b.IsConst() {
			lo, hi, ok := contiguousMask(b.val)
			if !ok {
				fail("int translation: and with non-contiguous mask %s", b)
			}
			if lo == 0 {
				return tr.modPoly(tr.lazy(a), pow2(hi+1))
			}
			d := tr.divPoly(tr.canon(a), pow2(lo))
			return pScale(tr.modPoly(d, pow2(hi-lo+1)), pow2(lo))
		}
		ca, cb := tr.canon(a), tr.canon(b)
		if ivWithin(tr.ivOf(ca), big0, big1) && ivWithin(tr.ivOf(cb), big0, big1) {
			r := pMul(ca, cb)
			r.iv = kiv(big0, big1)
			return r
		}
		if r := tr.bitwise(OBvAnd, a, b); r != nil {
			return r
		}
		fail("int translation: bvand of two symbolic operands (%s & %s)", termString(a, 2), termString(b, 2))
	case OBvOr:
		a, b := t.args[0], t.args[1]
		ca, cb := tr.canon(a), tr.canon(b)
		ia, ib := tr.ivOf(ca), tr.ivOf(cb)
		if (ib.known() && ib.hi.BitLen() <= trailingZeros(a)) || (ia.known() && ia.hi.BitLen() <= trailingZeros(b)) {
			return pAdd(ca, cb)
		}
		if ivWithin(ia, big0, big1) && ivWithin(ib, big0, big1) {
			r := pSub(pAdd(ca, cb), pMul(ca, cb))
			r.iv = kiv(big0, big1)
			return r
		}
		// x | c  =  x + c - (x & c)  for a constant c
		for k := 0; k < 2; k++ {
			x, cst := a, b
			if k == 1 {
				x, cst = b, a
			}
			if cst.IsConst() {
				if _, _, ok := contiguousMask(cst.val); ok {
					and := tr.lazy(BvAnd(x, cst))
					return pSub(pAdd(tr.canon(x), pConst(cst.val)), and)
				}
			}
		}
		if r := tr.bitwise(OBvOr, a, b); r != nil {
			return r
		}
		fail("int translation: bvor of overlapping operands (%s | %s)", termString(a, 2), termString(b, 2))
	case OBvXor:
		a, b := t.args[0], t.args[1]
		if a.IsConst() {
			a, b = b, a
		}
		// x ^ mask with mask in {0, all-ones} (as the polynomial 0 / -1):  x + mask*(2x+1)  (mod 2^w)
		m1 := big.NewInt(-1)
		for k := 0; k < 2; k++ {
			x, mk := a, b
			if k == 1 {
				x, mk = b, a
			}
			if mk.IsConst() {
				continue
			}
			if lm := tr.lazy(mk); ivWithin(tr.ivOf(lm), m1, big0) {
				cx := tr.canon(x)
				return pAdd(cx, pMul(lm, pAdd(pScale(cx, big.NewInt(2)), pConst(big1))))
			}
		}
		ca := tr.canon(a)
		if b.IsConst() && b.val.Cmp(big1) == 0 && ivWithin(tr.ivOf(ca), big0, big1) {
			return pSub(pConst(big1), ca)
		}
		cb := tr.canon(b)
		if ivWithin(tr.ivOf(ca), big0, big1) && ivWithin(tr.ivOf(cb), big0, big1) {
			r := pSub(pAdd(ca, cb), pScale(pMul(ca, cb), big.NewInt(2)))
			r.iv = kiv(big0, big1)
			return r
		}
		// x ^ c for a constant with few set bits: each set bit k flips bit k of x:
		//   x ^ 2^k = x + 2^k * (1 - 2*bit_k(x)),   bit_k(x) = floor(x/2^k) - 2*floor(x/2^(k+1))
		if b.IsConst() {
			nbits := 0
			for k := 0; k < b.val.BitLen(); k++ {
				if b.val.Bit(k) == 1 {
					nbits++
				}
			}
			if nbits <= 2 {
				r := ca
				for k := 0; k < b.val.BitLen(); k++ {
					if b.val.Bit(k) == 0 {
						continue
					}
					bit := pSub(tr.divPoly(ca, pow2(k)), pScale(tr.divPoly(ca, pow2(k+1)), big.NewInt(2)))
					r = pAdd(r, pScale(pSub(pConst(big1), pScale(bit, big.NewInt(2))), pow2(k)))
				}
				return r
			}
		}
		if r := tr.bitwise(OBvXor, a, b); r != nil {
			return r
		}
		fail("int translation: bvxor of symbolic operands (%s ^ %s)", termString(a, 2), termString(b, 2))
	case OIte:
		return tr.itePoly(tr.boolean(t.args[0]), tr.lazy(t.args[1]), tr.lazy(t.args[2]))
	case OBvUdiv, OBvUrem:
		if !t.args[1].IsConst() || t.args[1].val.Sign() == 0 {
			fail("int translation: division by non-constant")
		}
		a := tr.canon(t.args[0])
		if t.op == OBvUdiv {
			return tr.divPoly(a, t.args[1].val)
		}
		return tr.modPoly(a, t.args[1].val)
	case OBvSdiv, OBvSrem:
		fail("int translation: signed division")
	case OUF:
		fail("int translation: bit-vector UF %s", t.name)
	}
	fail("int translation: unsupported op in %s", termString(t, 2))
	return nil
}


// bitwise is the general fallback for and/or/xor of two NARROW symbolic operands (both known to lie in
// [0, 2^n) with n <= 16): bit k of x is floor(x/2^k) - 2*floor(x/2^(k+1)), and the operation is applied per bit
// (and: a*b, or: a+b-a*b, xor: a+b-2*a*b). Exact; every division is by a constant.
func (tr *intTr) bitwise(op Op, a, b *Term) *Poly {
	ca, cb := tr.canon(a), tr.canon(b)
	ia, ib := tr.ivOf(ca), tr.ivOf(cb)
	if !ia.known() || !ib.known() || ia.lo.Sign() < 0 || ib.lo.Sign() < 0 {
		return nil
	}
	n := ia.hi.BitLen()
	if m := ib.hi.BitLen(); m > n {
		n = m
	}
	if n > 16 {
		return nil
	}
	bit := func(c *Poly, k int) *Poly {
		r := pSub(tr.divPoly(c, pow2(k)), pScale(tr.divPoly(c, pow2(k+1)), big.NewInt(2)))
		r.iv = ivMeet(r.iv, kiv(big0, big1))
		return r
	}
	r := pConst(big0)
	for k := 0; k < n; k++ {
		x, y := bit(ca, k), bit(cb, k)
		var z *Poly
		switch op {
		case OBvAnd:
			z = pMul(x, y)
		case OBvOr:
			z = pSub(pAdd(x, y), pMul(x, y))
		default:
			z = pSub(pAdd(x, y), pScale(pMul(x, y), big.NewInt(2)))
		}
		z.iv = kiv(big0, big1)
		if _, isC := z.isConst(); !isC && len(z.ms) > 1 {
			z = tr.nameBit(op, z, x, y)
		}
		r = pAdd(r, pScale(z, pow2(k)))
	}
	r.iv = ivMeet(r.iv, kiv(big0, new(big.Int).Sub(pow2(n), big1)))
	return r
}

// nameBit replaces the 0/1 polynomial z = x op y by a fresh atom defined by LINEAR facts (exact for 0/1 operands),
// so that chains of bitwise operations do not multiply out.
func (tr *intTr) nameBit(op Op, z, x, y *Poly) *Poly {
	dt := IDiv(polyTerm(z), IntC(big1))
	def, ok := tr.divSk[dt]
	if !ok {
		q := Var("b!"+strconv.FormatInt(dt.id, 36), IntSort)
		def = &divDef{q: q, r: z, m: big1}
		qa := pAtom(q, kiv(big0, big1))
		f := func(p *Poly, hi int64) { def.lin = append(def.lin, &remFact{f: p, hi: big.NewInt(hi)}) }
		switch op {
		case OBvAnd: // z <= x, z <= y, z >= x + y - 1
			f(pSub(x, qa), 1)
			f(pSub(y, qa), 1)
			f(pAdd(pSub(qa, pAdd(x, y)), pConst(big1)), 1)
		case OBvOr: // z >= x, z >= y, z <= x + y
			f(pSub(qa, x), 1)
			f(pSub(qa, y), 1)
			f(pSub(pAdd(x, y), qa), 1)
		default: // xor: z <= x + y, z >= x - y, z >= y - x, z <= 2 - x - y
			f(pSub(pAdd(x, y), qa), 2)
			f(pSub(qa, pSub(x, y)), 2)
			f(pSub(qa, pSub(y, x)), 2)
			f(pSub(pSub(pConst(big.NewInt(2)), pAdd(x, y)), qa), 2)
		}
		tr.divSk[dt] = def
		tr.skDef[q] = def
		tr.atomIv[q] = kiv(big0, big1)
	}
	return pAtom(def.q, kiv(big0, big1))
}

func (tr *intTr) opaque(t *Term, args []*Term) *Poly {
	// an Int-sorted term kept as an atom (arguments already translated)
	a := rebuild(t, args)
	if _, ok := tr.atomIv[a]; !ok {
		tr.atomIv[a] = unk()
	}
	return pAtom(a, unk())
}

// integer translates an Int-sorted term (expanding bv2int markers).
func (tr *intTr) integer(t *Term) *Poly {
	if r, ok := tr.intMemo[t]; ok {
		return r
	}
	var r *Poly
	switch t.op {
	case OConst:
		r = pConst(t.val)
	case OVar:
		if _, ok := tr.atomIv[t]; !ok {
			tr.atomIv[t] = unk()
		}
		r = pAtom(t, tr.atomIv[t])
	case OBv2Int:
		r = tr.canon(t.args[0])
	case OBv2IntS:
		r = tr.signed(t.args[0])
	case OIAdd:
		r = pAdd(tr.integer(t.args[0]), tr.integer(t.args[1]))
	case OISub:
		r = pSub(tr.integer(t.args[0]), tr.integer(t.args[1]))
	case OIMul:
		r = pMul(tr.integer(t.args[0]), tr.integer(t.args[1]))
	case OINeg:
		r = pNeg(tr.integer(t.args[0]))
	case OIDiv:
		a, b := tr.integer(t.args[0]), tr.integer(t.args[1])
		if c, ok := b.isConst(); ok && c.Sign() > 0 {
			r = tr.divPoly(a, c)
		} else {
			r = tr.opaque(t, []*Term{polyTerm(a), polyTerm(b)})
		}
	case OIMod:
		a, b := tr.integer(t.args[0]), tr.integer(t.args[1])
		if c, ok := b.isConst(); ok && c.Sign() > 0 {
			r = tr.modPoly(a, c)
		} else {
			r = tr.opaque(t, []*Term{polyTerm(a), polyTerm(b)})
		}
	case OIte:
		r = tr.itePoly(tr.boolean(t.args[0]), tr.integer(t.args[1]), tr.integer(t.args[2]))
	case OUF:
		r = tr.opaque(t, tr.ufArgs(t))
	default:
		fail("int translation: unsupported Int op in %s", termString(t, 2))
	}
	tr.intMemo[t] = r
	return r
}

func (tr *intTr) ufArgs(t *Term) []*Term {
	var as []*Term
	for _, a := range t.args {
		switch a.sort.K {
		case KInt:
			as = append(as, polyTerm(tr.integer(a)))
		case KBool:
			as = append(as, tr.boolean(a))
		default:
			as = append(as, polyTerm(tr.canon(a)))
		}
	}
	return as
}

// cmp0 builds  p < 0  /  p <= 0  /  p = 0  with constant and range folding.
func (tr *intTr) cmp0(p *Poly, op Op) *Term {
	if c, ok := p.isConst(); ok {
		switch op {
		case OILt:
			return BoolC(c.Sign() < 0)
		case OILe:
			return BoolC(c.Sign() <= 0)
		default:
			return BoolC(c.Sign() == 0)
		}
	}
	iv := tr.ivOf(p)
	if iv.known() {
		switch op {
		case OILt:
			if iv.hi.Sign() < 0 {
				return TrueT
			}
			if iv.lo.Sign() >= 0 {
				return FalseT
			}
		case OILe:
			if iv.hi.Sign() <= 0 {
				return TrueT
			}
			if iv.lo.Sign() > 0 {
				return FalseT
			}
		default:
			if iv.hi.Sign() < 0 || iv.lo.Sign() > 0 {
				return FalseT
			}
		}
	}
	// move negative monomials to the right-hand side for readability/solver friendliness
	l := &Poly{ms: map[string]*pmono{}}
	r := &Poly{ms: map[string]*pmono{}}
	for k, m := range p.ms {
		if m.coef.Sign() > 0 {
			l.ms[k] = m
		} else {
			r.ms[k] = &pmono{coef: new(big.Int).Neg(m.coef), atoms: m.atoms}
		}
	}
	lt, rt := polyTerm(l), polyTerm(r)
	switch op {
	case OILt:
		return ILt(lt, rt)
	case OILe:
		return ILe(lt, rt)
	}
	return Eq(lt, rt)
}

// congruent0 builds  p ≡ 0 (mod m)  after reducing coefficients modulo m.
func (tr *intTr) congruent0(p *Poly, m *big.Int) *Term {
	if !tr.noElim && tr.inGoal {
		p = tr.eliminate(p, m)
	}
	r := &Poly{ms: map[string]*pmono{}}
	half := new(big.Int).Rsh(m, 1)
	for k, mo := range p.ms {
		c := new(big.Int).Mod(mo.coef, m)
		if c.Sign() == 0 {
			continue
		}
		if c.Cmp(half) > 0 {
			c.Sub(c, m)
		}
		r.ms[k] = &pmono{coef: c, atoms: mo.atoms}
	}
	if c, ok := r.isConst(); ok {
		return BoolC(new(big.Int).Mod(c, m).Sign() == 0)
	}
	return Eq(IMod(polyTerm(r), IntC(m)), IntI(0))
}

func isModZero(t *Term) (x *Term, m *big.Int, ok bool) {
	if t.op != OEq {
		return nil, nil, false
	}
	for i := 0; i < 2; i++ {
		a, b := t.args[i], t.args[1-i]
		if a.op == OIMod && b.IsConst() && b.val.Sign() == 0 && a.args[1].IsConst() && a.args[1].val.Sign() > 0 {
			return a.args[0], a.args[1].val, true
		}
	}
	return nil, nil, false
}

func (tr *intTr) boolean(t *Term) *Term {
	if r, ok := tr.boolMemo[t]; ok {
		return r
	}
	var r *Term
	switch t.op {
	case OConst, OVar:
		r = t
	case ONot:
		r = Not(tr.boolean(t.args[0]))
	case OAnd:
		r = And(tr.boolean(t.args[0]), tr.boolean(t.args[1]))
	case OOr:
		r = Or(tr.boolean(t.args[0]), tr.boolean(t.args[1]))
	case OIte:
		r = Ite(tr.boolean(t.args[0]), tr.boolean(t.args[1]), tr.boolean(t.args[2]))
	case OEq:
		a, b := t.args[0], t.args[1]
		switch a.sort.K {
		case KBool:
			r = Eq(tr.boolean(a), tr.boolean(b))
		case KInt:
			if x, m, ok := isModZero(t); ok {
				r = tr.congruent0(tr.integer(x), m)
			} else {
				r = tr.cmp0(pSub(tr.integer(a), tr.integer(b)), OEq)
			}
		default:
			r = tr.cmp0(pSub(tr.canon(a), tr.canon(b)), OEq)
		}
	case OBvUlt:
		r = tr.cmp0(pSub(tr.canon(t.args[0]), tr.canon(t.args[1])), OILt)
	case OBvUle:
		r = tr.cmp0(pSub(tr.canon(t.args[0]), tr.canon(t.args[1])), OILe)
	case OBvSlt:
		r = tr.cmp0(pSub(tr.signed(t.args[0]), tr.signed(t.args[1])), OILt)
	case OBvSle:
		r = tr.cmp0(pSub(tr.signed(t.args[0]), tr.signed(t.args[1])), OILe)
	case OILt:
		r = tr.cmp0(pSub(tr.integer(t.args[0]), tr.integer(t.args[1])), OILt)
	case OILe:
		r = tr.cmp0(pSub(tr.integer(t.args[0]), tr.integer(t.args[1])), OILe)
	case OUF:
		r = UF(t.name, BoolSort, tr.ufArgs(t)...)
	default:
		fail("int translation: unsupported Bool op in %s", termString(t, 2))
	}
	tr.boolMemo[t] = r
	return r
}

func reduceCoefs(p *Poly, m *big.Int) *Poly {
	r := &Poly{ms: map[string]*pmono{}}
	half := new(big.Int).Rsh(m, 1)
	for k, mo := range p.ms {
		c := new(big.Int).Mod(mo.coef, m)
		if c.Sign() == 0 {
			continue
		}
		if c.Cmp(half) > 0 {
			c.Sub(c, m)
		}
		r.ms[k] = &pmono{coef: c, atoms: mo.atoms}
	}
	return r
}

// lexLess orders monomials lexicographically with the NEWEST atom (largest id) most significant.
func lexLess(a, b []*Term) bool {
	// atoms are sorted by increasing id; compare from the end
	i, j := len(a)-1, len(b)-1
	for i >= 0 && j >= 0 {
		if a[i].id != b[j].id {
			return a[i].id < b[j].id
		}
		i--
		j--
	}
	return i < j
}

// divides reports whether monomial d divides monomial m and returns the quotient.
func divides(d, m []*Term) ([]*Term, bool) {
	var q []*Term
	i := 0
	for _, a := range m {
		if i < len(d) && d[i] == a {
			i++
		} else {
			q = append(q, a)
		}
	}
	return q, i == len(d)
}

// eliminate reduces the goal polynomial g modulo m by the assumed congruences / equalities, latest first.
// Each hypothesis H ≡ 0 is used as the rewrite rule  LM(H) -> -(H - LM(H))/lc  where LM is the leading monomial
// in the lexicographic order with the newest atom most significant (so freshly havoced outputs are rewritten
// in terms of older quantities, and x^2*y^2 is rewritten by a curve equation). Sound: g ≡ g - q*H (mod m).
func (tr *intTr) eliminate(g *Poly, m *big.Int) *Poly {
	var hs []*Poly
	for _, hp := range tr.hypPolys {
		if hp.m == nil || hp.m.Cmp(m) == 0 {
			hs = append(hs, hp.p)
		}
	}
	g = reduceCoefs(g, m)
	for i := len(hs) - 1; i >= 0 && len(g.ms) > 0; i-- {
		h := reduceCoefs(hs[i], m)
		if len(h.ms) == 0 {
			continue
		}
		// leading monomial: the lexicographically largest monomial of h (newest atom first) that divides
		// some monomial of g and has an invertible coefficient
		var lm *pmono
		var inv *big.Int
		for _, mo := range h.ms {
			if len(mo.atoms) == 0 {
				continue
			}
			if lm != nil && !lexLess(lm.atoms, mo.atoms) {
				continue
			}
			occurs := false
			for _, gm := range g.ms {
				if _, ok := divides(mo.atoms, gm.atoms); ok {
					occurs = true
					break
				}
			}
			if !occurs {
				continue
			}
			iv := new(big.Int).ModInverse(new(big.Int).Mod(mo.coef, m), m)
			if iv == nil {
				continue
			}
			lm, inv = mo, iv
		}
		if lm == nil {
			continue
		}
		hn := reduceCoefs(pScale(h, inv), m) // monic in lm
		lmKey := monoKey(lm.atoms)
		repl := &Poly{ms: map[string]*pmono{}} // lm ≡ repl
		for k, mo := range hn.ms {
			if k != lmKey {
				repl.ms[k] = &pmono{coef: new(big.Int).Neg(mo.coef), atoms: mo.atoms}
			}
		}
		cur := g
		tooBig := false
		for iter := 0; iter < 64 && !tooBig; iter++ {
			ng := &Poly{ms: map[string]*pmono{}}
			changed := false
			for _, gm := range cur.ms {
				q, ok := divides(lm.atoms, gm.atoms)
				if !ok {
					ng = pAddScaled(ng, &Poly{ms: map[string]*pmono{monoKey(gm.atoms): gm}}, big1)
					continue
				}
				changed = true
				if len(repl.ms) > 3000 {
					tooBig = true
					break
				}
				term := pMul(&Poly{ms: map[string]*pmono{monoKey(q): {coef: gm.coef, atoms: q}}}, repl)
				ng = pAddScaled(ng, term, big1)
				if len(ng.ms) > 8000 {
					tooBig = true
					break
				}
			}
			if tooBig {
				break
			}
			cur = reduceCoefs(ng, m)
			if !changed {
				break
			}
		}
		if tooBig {
			continue // this rewrite would explode: leave the goal for the solver
		}
		g = cur
	}
	g.iv = unk()
	return g
}

// hyp translates a hypothesis conjunct; congruences "(x mod m) = 0" are skolemised to x = k*m.
func (tr *intTr) hyp(t *Term) *Term {
	if x, m, ok := isModZero(t); ok {
		p := tr.integer(x)
		if !tr.skipHyp[t] {
			tr.hypPolys = append(tr.hypPolys, hypPoly{p, m})
		}
		k := Var("k!"+strconv.FormatInt(t.id, 36), IntSort)
		return Eq(polyTerm(p), IMul(k, IntC(m)))
	}
	if t.op == OEq && t.args[0].sort.K == KInt && !tr.skipHyp[t] {
		tr.hypPolys = append(tr.hypPolys, hypPoly{pSub(tr.integer(t.args[0]), tr.integer(t.args[1])), nil})
	}
	return tr.boolean(t)
}

// sideConstraints returns range constraints for the variables and defining inequalities for the
// division skolems reachable from the roots (transitively).
func (tr *intTr) sideConstraints(roots []*Term) []*Term {
	var side []*Term
	done := map[*Term]bool{}
	work := roots
	for len(work) > 0 {
		var next []*Term
		for _, v := range termVars(work...) {
			if done[v] {
				continue
			}
			done[v] = true
			if _, ok := tr.bvVars[v]; ok {
				iv := tr.atomIv[v] // full width, or the tighter bound scanned from the hypotheses
				side = append(side, ILe(IntC(iv.lo), v), ILe(v, IntC(iv.hi)))
			}
			if def, ok := tr.skDef[v]; ok && len(def.lin) > 0 {
				for _, lf := range def.lin {
					ft := polyTerm(lf.f)
					c1, c2 := ILe(IntC(big0), ft), ILe(ft, IntC(lf.hi))
					side = append(side, c1, c2)
					next = append(next, c1, c2)
				}
				side = append(side, ILe(IntC(big0), v), ILe(v, IntC(big1)))
			} else if ok {
				// m*q <= r < m*q + m
				rt := polyTerm(def.r)
				mq := IMul(v, IntC(def.m))
				c1 := ILe(mq, rt)
				c2 := ILt(rt, IAdd(mq, IntC(def.m)))
				side = append(side, c1, c2)
				if iv := tr.atomIv[v]; iv.known() {
					side = append(side, ILe(IntC(iv.lo), v), ILe(v, IntC(iv.hi)))
				}
				next = append(next, c1, c2)
			}
		}
		work = next
	}
	return side
}

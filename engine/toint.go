package main

// BV -> Int translation with deferred reduction ("Int mode").
// Every bit-vector term t of width w is mapped to an integer polynomial P with  value(t) = P mod 2^w.
// Reduction is only materialised where the canonical residue is observed (>>, compare, widen, mask);
// there it is dropped when interval analysis proves 0 <= P < 2^w (a no-wrap fact), otherwise `mod` stays.

import (
	"math/big"
	"sync/atomic"
)

type ival struct{ lo, hi *big.Int } // nil pointer fields = unknown

func (i ival) known() bool { return i.lo != nil && i.hi != nil }

type lazyInt struct {
	p  *Term
	iv ival
}

type intTr struct {
	lazyMemo  map[*Term]lazyInt
	canonMemo map[*Term]lazyInt
	boolMemo  map[*Term]*Term
	intMemo   map[*Term]lazyInt
	side      []*Term
	vbound    map[*Term]*big.Int // BV var -> inclusive upper bound from hypotheses
	declared  map[*Term]bool
}

var statModsDropped, statModsKept int64

func newIntTranslator() *intTr {
	return &intTr{lazyMemo: map[*Term]lazyInt{}, canonMemo: map[*Term]lazyInt{}, boolMemo: map[*Term]*Term{},
		intMemo: map[*Term]lazyInt{}, vbound: map[*Term]*big.Int{}, declared: map[*Term]bool{}}
}

func unk() ival                { return ival{} }
func kiv(lo, hi *big.Int) ival { return ival{lo, hi} }
func ivConst(v *big.Int) ival  { return ival{v, v} }

func ivAdd(a, b ival) ival {
	if !a.known() || !b.known() {
		return unk()
	}
	return ival{new(big.Int).Add(a.lo, b.lo), new(big.Int).Add(a.hi, b.hi)}
}
func ivSub(a, b ival) ival {
	if !a.known() || !b.known() {
		return unk()
	}
	return ival{new(big.Int).Sub(a.lo, b.hi), new(big.Int).Sub(a.hi, b.lo)}
}
func ivNeg(a ival) ival {
	if !a.known() {
		return unk()
	}
	return ival{new(big.Int).Neg(a.hi), new(big.Int).Neg(a.lo)}
}
func ivMul(a, b ival) ival {
	if !a.known() || !b.known() {
		return unk()
	}
	c := []*big.Int{new(big.Int).Mul(a.lo, b.lo), new(big.Int).Mul(a.lo, b.hi), new(big.Int).Mul(a.hi, b.lo), new(big.Int).Mul(a.hi, b.hi)}
	lo, hi := c[0], c[0]
	for _, x := range c[1:] {
		if x.Cmp(lo) < 0 {
			lo = x
		}
		if x.Cmp(hi) > 0 {
			hi = x
		}
	}
	return ival{lo, hi}
}
func ivUnion(a, b ival) ival {
	if !a.known() || !b.known() {
		return unk()
	}
	lo, hi := a.lo, a.hi
	if b.lo.Cmp(lo) < 0 {
		lo = b.lo
	}
	if b.hi.Cmp(hi) > 0 {
		hi = b.hi
	}
	return ival{lo, hi}
}
func floorDiv(a, m *big.Int) *big.Int {
	q, r := new(big.Int), new(big.Int)
	q.DivMod(a, m, r)
	return q
}
func ivDivC(a ival, m *big.Int) ival {
	if !a.known() {
		return unk()
	}
	return ival{floorDiv(a.lo, m), floorDiv(a.hi, m)}
}
func ivWithin(a ival, lo, hi *big.Int) bool {
	return a.known() && a.lo.Cmp(lo) >= 0 && a.hi.Cmp(hi) <= 0
}

// scan extracts variable bounds of the shapes  x <u c,  x <=u c  from hypothesis conjuncts.
func (tr *intTr) scan(hyps []*Term) {
	upd := func(v *Term, b *big.Int) {
		if b.Sign() < 0 {
			return
		}
		if old, ok := tr.vbound[v]; !ok || b.Cmp(old) < 0 {
			tr.vbound[v] = b
		}
	}
	for _, h := range hyps {
		switch h.op {
		case OBvUlt:
			if h.args[0].op == OVar && h.args[1].IsConst() {
				upd(h.args[0], new(big.Int).Sub(h.args[1].val, big1))
			}
		case OBvUle:
			if h.args[0].op == OVar && h.args[1].IsConst() {
				upd(h.args[0], h.args[1].val)
			}
		case ONot:
			x := h.args[0]
			// not (c <u x)  ==  x <=u c ; not (c <=u x) == x <u c
			if x.op == OBvUlt && x.args[1].op == OVar && x.args[0].IsConst() {
				upd(x.args[1], x.args[0].val)
			}
			if x.op == OBvUle && x.args[1].op == OVar && x.args[0].IsConst() {
				upd(x.args[1], new(big.Int).Sub(x.args[0].val, big1))
			}
		case OEq:
			// extract(x, w-1, k) == 0  =>  x < 2^k
			for i := 0; i < 2; i++ {
				a, b := h.args[i], h.args[1-i]
				if b.IsConst() && b.val.Sign() == 0 && a.op == OExtract && a.args[0].op == OVar && a.p1 == a.args[0].sort.W-1 {
					upd(a.args[0], new(big.Int).Sub(pow2(a.p2), big1))
				}
			}
		}
	}
}

func (tr *intTr) bvVar(t *Term) lazyInt {
	v := Var(t.name, IntSort)
	hi := maskW(t.sort.W)
	if b, ok := tr.vbound[t]; ok && b.Cmp(hi) < 0 {
		hi = b
	}
	if !tr.declared[t] {
		tr.declared[t] = true
		tr.side = append(tr.side, ILe(IntI(0), v), ILe(v, IntC(maskW(t.sort.W))))
	}
	return lazyInt{v, ival{big0, hi}}
}

func trailingZeros(t *Term) int {
	switch t.op {
	case OConst:
		if t.val.Sign() == 0 {
			return t.sort.W
		}
		return int(t.val.TrailingZeroBits())
	case OBvShl:
		if t.args[1].IsConst() {
			return trailingZeros(t.args[0]) + int(t.args[1].val.Int64())
		}
	case OBvMul:
		return trailingZeros(t.args[0]) + trailingZeros(t.args[1])
	case OBvAdd, OBvSub, OBvOr, OBvXor:
		a, b := trailingZeros(t.args[0]), trailingZeros(t.args[1])
		if a < b {
			return a
		}
		return b
	case OBvAnd:
		a, b := trailingZeros(t.args[0]), trailingZeros(t.args[1])
		if a > b {
			return a
		}
		return b
	case OConcat:
		lw := t.args[1].sort.W
		z := trailingZeros(t.args[1])
		if z >= lw {
			return lw + trailingZeros(t.args[0])
		}
		return z
	case OZext:
		z := trailingZeros(t.args[0])
		if z >= t.args[0].sort.W {
			return t.sort.W
		}
		return z
	case OIte:
		a, b := trailingZeros(t.args[1]), trailingZeros(t.args[2])
		if a < b {
			return a
		}
		return b
	}
	return 0
}

// canon returns the canonical residue in [0, 2^w).
func (tr *intTr) canon(t *Term) lazyInt {
	if r, ok := tr.canonMemo[t]; ok {
		return r
	}
	l := tr.lazy(t)
	w := t.sort.W
	var r lazyInt
	if ivWithin(l.iv, big0, maskW(w)) {
		atomic.AddInt64(&statModsDropped, 1)
		r = l
	} else {
		atomic.AddInt64(&statModsKept, 1)
		r = lazyInt{IMod(l.p, IntC(pow2(w))), ival{big0, maskW(w)}}
	}
	tr.canonMemo[t] = r
	return r
}

func (tr *intTr) signed(t *Term) lazyInt {
	c := tr.canon(t)
	w := t.sort.W
	half := pow2(w - 1)
	if c.iv.hi.Cmp(half) < 0 {
		return c
	}
	p := ISub(c.p, Ite(ILe(IntC(half), c.p), IntC(pow2(w)), IntI(0)))
	return lazyInt{p, ival{new(big.Int).Neg(half), new(big.Int).Sub(half, big1)}}
}

func (tr *intTr) modK(l lazyInt, k int) lazyInt {
	if ivWithin(l.iv, big0, maskW(k)) {
		atomic.AddInt64(&statModsDropped, 1)
		return l
	}
	atomic.AddInt64(&statModsKept, 1)
	return lazyInt{IMod(l.p, IntC(pow2(k))), ival{big0, maskW(k)}}
}

func contiguousMask(v *big.Int) (lo, hi int, ok bool) {
	if v.Sign() == 0 {
		return 0, 0, false
	}
	lo = int(v.TrailingZeroBits())
	s := new(big.Int).Rsh(v, uint(lo))
	n := s.BitLen()
	if s.Cmp(maskW(n)) != 0 {
		return 0, 0, false
	}
	return lo, lo + n - 1, true
}

func (tr *intTr) lazy(t *Term) lazyInt {
	if r, ok := tr.lazyMemo[t]; ok {
		return r
	}
	r := tr.lazy1(t)
	tr.lazyMemo[t] = r
	return r
}

func (tr *intTr) lazy1(t *Term) lazyInt {
	if t.sort.K != KBV {
		fail("int translation: non-BV term in lazy: %s", t)
	}
	w := t.sort.W
	switch t.op {
	case OVar:
		return tr.bvVar(t)
	case OConst:
		return lazyInt{IntC(t.val), ivConst(t.val)}
	case OBvAdd:
		a, b := tr.lazy(t.args[0]), tr.lazy(t.args[1])
		// adding a "negative" constant: treat 2^w - c as -c when that keeps the interval non-negative
		if t.args[1].IsConst() && t.args[1].val.Bit(w-1) == 1 {
			neg := new(big.Int).Sub(t.args[1].val, pow2(w))
			b = lazyInt{IntC(neg), ivConst(neg)}
		}
		return lazyInt{IAdd(a.p, b.p), ivAdd(a.iv, b.iv)}
	case OBvSub:
		a, b := tr.lazy(t.args[0]), tr.lazy(t.args[1])
		return lazyInt{ISub(a.p, b.p), ivSub(a.iv, b.iv)}
	case OBvMul:
		a, b := tr.lazy(t.args[0]), tr.lazy(t.args[1])
		return lazyInt{IMul(a.p, b.p), ivMul(a.iv, b.iv)}
	case OBvNeg:
		a := tr.lazy(t.args[0])
		return lazyInt{INeg(a.p), ivNeg(a.iv)}
	case OBvNot:
		a := tr.canon(t.args[0])
		m := maskW(w)
		return lazyInt{ISub(IntC(m), a.p), ivSub(ivConst(m), a.iv)}
	case OBvShl:
		if !t.args[1].IsConst() {
			fail("int translation: shift by symbolic amount")
		}
		k := int(t.args[1].val.Int64())
		a := tr.lazy(t.args[0])
		m := pow2(k)
		return lazyInt{IMul(a.p, IntC(m)), ivMul(a.iv, ivConst(m))}
	case OBvLshr:
		if !t.args[1].IsConst() {
			fail("int translation: shift by symbolic amount")
		}
		k := int(t.args[1].val.Int64())
		a := tr.canon(t.args[0])
		m := pow2(k)
		return lazyInt{IDiv(a.p, IntC(m)), ivDivC(a.iv, m)}
	case OBvAshr:
		if !t.args[1].IsConst() {
			fail("int translation: shift by symbolic amount")
		}
		k := int(t.args[1].val.Int64())
		a := tr.signed(t.args[0])
		m := pow2(k)
		return lazyInt{IDiv(a.p, IntC(m)), ivDivC(a.iv, m)}
	case OExtract:
		a := t.args[0]
		if t.p2 == 0 {
			return tr.lazy(a) // truncation: same polynomial, smaller modulus
		}
		c := tr.canon(a)
		m := pow2(t.p2)
		return lazyInt{IDiv(c.p, IntC(m)), ivDivC(c.iv, m)}
	case OZext:
		return tr.canon(t.args[0])
	case OSext:
		return tr.signed(t.args[0])
	case OConcat:
		hi, lo := tr.canon(t.args[0]), tr.canon(t.args[1])
		m := pow2(t.args[1].sort.W)
		return lazyInt{IAdd(IMul(hi.p, IntC(m)), lo.p), ivAdd(ivMul(hi.iv, ivConst(m)), lo.iv)}
	case OBvAnd:
		a, b := t.args[0], t.args[1]
		if a.IsConst() {
			a, b = b, a
		}
		if b.IsConst() {
			lo, hi, ok := contiguousMask(b.val)
			if !ok {
				fail("int translation: and with non-contiguous mask %s", b)
			}
			if lo == 0 {
				return tr.modK(tr.lazy(a), hi+1)
			}
			c := tr.canon(a)
			m := pow2(lo)
			d := lazyInt{IDiv(c.p, IntC(m)), ivDivC(c.iv, m)}
			d = tr.modK(d, hi-lo+1)
			return lazyInt{IMul(d.p, IntC(m)), ivMul(d.iv, ivConst(m))}
		}
		la, lb := tr.lazy(a), tr.lazy(b)
		m1 := big.NewInt(-1)
		if ivWithin(lb.iv, m1, big0) { // b is 0 or all-ones (as -1)
			c := tr.canon(a)
			return lazyInt{IMul(c.p, INeg(lb.p)), ivUnion(ivConst(big0), c.iv)}
		}
		if ivWithin(la.iv, m1, big0) {
			c := tr.canon(b)
			return lazyInt{IMul(c.p, INeg(la.p)), ivUnion(ivConst(big0), c.iv)}
		}
		ca, cb := tr.canon(a), tr.canon(b)
		if ivWithin(ca.iv, big0, big1) && ivWithin(cb.iv, big0, big1) {
			return lazyInt{IMul(ca.p, cb.p), kiv(big0, big1)}
		}
		fail("int translation: bvand of two symbolic operands")
	case OBvOr:
		a, b := t.args[0], t.args[1]
		ca, cb := tr.canon(a), tr.canon(b)
		if cb.iv.hi.BitLen() <= trailingZeros(a) || ca.iv.hi.BitLen() <= trailingZeros(b) {
			return lazyInt{IAdd(ca.p, cb.p), ivAdd(ca.iv, cb.iv)}
		}
		if ivWithin(ca.iv, big0, big1) && ivWithin(cb.iv, big0, big1) {
			return lazyInt{ISub(IAdd(ca.p, cb.p), IMul(ca.p, cb.p)), kiv(big0, big1)}
		}
		fail("int translation: bvor of overlapping operands (%s | %s)", termString(a, 2), termString(b, 2))
	case OBvXor:
		a, b := t.args[0], t.args[1]
		if a.IsConst() {
			a, b = b, a
		}
		ca := tr.canon(a)
		if b.IsConst() && b.val.Cmp(big1) == 0 && ivWithin(ca.iv, big0, big1) {
			return lazyInt{ISub(IntI(1), ca.p), kiv(big0, big1)}
		}
		cb := tr.canon(b)
		if ivWithin(ca.iv, big0, big1) && ivWithin(cb.iv, big0, big1) {
			return lazyInt{ISub(IAdd(ca.p, cb.p), IMul(IntI(2), IMul(ca.p, cb.p))), kiv(big0, big1)}
		}
		fail("int translation: bvxor of symbolic operands")
	case OIte:
		c := tr.boolean(t.args[0])
		a, b := tr.lazy(t.args[1]), tr.lazy(t.args[2])
		return lazyInt{Ite(c, a.p, b.p), ivUnion(a.iv, b.iv)}
	case OBvUdiv, OBvUrem:
		if !t.args[1].IsConst() || t.args[1].val.Sign() == 0 {
			fail("int translation: division by non-constant")
		}
		a := tr.canon(t.args[0])
		m := t.args[1].val
		if t.op == OBvUdiv {
			return lazyInt{IDiv(a.p, IntC(m)), ivDivC(a.iv, m)}
		}
		return lazyInt{IMod(a.p, IntC(m)), kiv(big0, new(big.Int).Sub(m, big1))}
	case OBvSdiv, OBvSrem:
		fail("int translation: signed division")
	case OUF:
		fail("int translation: bit-vector UF %s", t.name)
	}
	fail("int translation: unsupported op in %s", termString(t, 2))
	return lazyInt{}
}

// integer translates an Int-sorted term (expanding bv2int markers).
func (tr *intTr) integer(t *Term) lazyInt {
	if r, ok := tr.intMemo[t]; ok {
		return r
	}
	var r lazyInt
	switch t.op {
	case OConst:
		r = lazyInt{t, ivConst(t.val)}
	case OVar:
		r = lazyInt{t, unk()}
	case OBv2Int:
		r = tr.canon(t.args[0])
	case OIAdd:
		a, b := tr.integer(t.args[0]), tr.integer(t.args[1])
		r = lazyInt{IAdd(a.p, b.p), ivAdd(a.iv, b.iv)}
	case OISub:
		a, b := tr.integer(t.args[0]), tr.integer(t.args[1])
		r = lazyInt{ISub(a.p, b.p), ivSub(a.iv, b.iv)}
	case OIMul:
		a, b := tr.integer(t.args[0]), tr.integer(t.args[1])
		r = lazyInt{IMul(a.p, b.p), ivMul(a.iv, b.iv)}
	case OINeg:
		a := tr.integer(t.args[0])
		r = lazyInt{INeg(a.p), ivNeg(a.iv)}
	case OIDiv:
		a, b := tr.integer(t.args[0]), tr.integer(t.args[1])
		iv := unk()
		if b.p.IsConst() && b.p.val.Sign() > 0 {
			iv = ivDivC(a.iv, b.p.val)
		}
		r = lazyInt{IDiv(a.p, b.p), iv}
	case OIMod:
		a, b := tr.integer(t.args[0]), tr.integer(t.args[1])
		iv := unk()
		if b.p.IsConst() && b.p.val.Sign() > 0 {
			iv = kiv(big0, new(big.Int).Sub(b.p.val, big1))
			if ivWithin(a.iv, big0, iv.hi) {
				r = a
				break
			}
		}
		r = lazyInt{IMod(a.p, b.p), iv}
	case OIte:
		c := tr.boolean(t.args[0])
		a, b := tr.integer(t.args[1]), tr.integer(t.args[2])
		r = lazyInt{Ite(c, a.p, b.p), ivUnion(a.iv, b.iv)}
	case OUF:
		var as []*Term
		for _, a := range t.args {
			if a.sort.K == KInt {
				as = append(as, tr.integer(a).p)
			} else if a.sort.K == KBool {
				as = append(as, tr.boolean(a))
			} else {
				as = append(as, tr.canon(a).p)
			}
		}
		nm := t.name
		r = lazyInt{UF(nm, IntSort, as...), unk()}
	default:
		fail("int translation: unsupported Int op in %s", termString(t, 2))
	}
	tr.intMemo[t] = r
	return r
}

func (tr *intTr) boolean(t *Term) *Term {
	if r, ok := tr.boolMemo[t]; ok {
		return r
	}
	var r *Term
	switch t.op {
	case OConst:
		r = t
	case OVar:
		r = t
	case ONot:
		r = Not(tr.boolean(t.args[0]))
	case OAnd:
		r = And(tr.boolean(t.args[0]), tr.boolean(t.args[1]))
	case OOr:
		r = Or(tr.boolean(t.args[0]), tr.boolean(t.args[1]))
	case OIte:
		r = Ite(tr.boolean(t.args[0]), tr.boolean(t.args[1]), tr.boolean(t.args[2]))
	case OEq:
		a, b := t.args[0], t.args[1]
		switch a.sort.K {
		case KBool:
			r = Eq(tr.boolean(a), tr.boolean(b))
		case KInt:
			r = Eq(tr.integer(a).p, tr.integer(b).p)
		default:
			r = Eq(tr.canon(a).p, tr.canon(b).p)
		}
	case OBvUlt:
		r = ILt(tr.canon(t.args[0]).p, tr.canon(t.args[1]).p)
	case OBvUle:
		r = ILe(tr.canon(t.args[0]).p, tr.canon(t.args[1]).p)
	case OBvSlt:
		r = ILt(tr.signed(t.args[0]).p, tr.signed(t.args[1]).p)
	case OBvSle:
		r = ILe(tr.signed(t.args[0]).p, tr.signed(t.args[1]).p)
	case OILt:
		r = ILt(tr.integer(t.args[0]).p, tr.integer(t.args[1]).p)
	case OILe:
		r = ILe(tr.integer(t.args[0]).p, tr.integer(t.args[1]).p)
	case OUF:
		var as []*Term
		for _, a := range t.args {
			if a.sort.K == KInt {
				as = append(as, tr.integer(a).p)
			} else if a.sort.K == KBool {
				as = append(as, tr.boolean(a))
			} else {
				as = append(as, tr.canon(a).p)
			}
		}
		r = UF(t.name, BoolSort, as...)
	default:
		fail("int translation: unsupported Bool op in %s", termString(t, 2))
	}
	tr.boolMemo[t] = r
	return r
}

// hyp translates a hypothesis conjunct; congruences "(x mod m) = 0" are skolemised to x = k*m.
func (tr *intTr) hyp(t *Term) *Term {
	if t.op == OEq {
		for i := 0; i < 2; i++ {
			a, b := t.args[i], t.args[1-i]
			if a.op == OIMod && b.IsConst() && b.val.Sign() == 0 && a.args[1].IsConst() {
				x := tr.integer(a.args[0]).p
				k := Var("k!"+itoa(int(a.id)), IntSort)
				return Eq(x, IMul(k, a.args[1]))
			}
		}
	}
	return tr.boolean(t)
}

func itoa(i int) string { return big.NewInt(int64(i)).String() }

package main

// Concrete evaluation of term DAGs (independent of the simplifier): used to validate the Int translation
// on sample points and to search for replayable counterexamples when a solver answers unknown.

import (
	"fmt"
	"math/big"
	"math/rand"
	"strconv"
	"strings"
	"time"
)

type evaluator struct {
	env     map[*Term]*big.Int
	memo    map[*Term]*big.Int
	resolve func(v *Term, ev *evaluator) (*big.Int, bool)
}

func newEvaluator(env map[*Term]*big.Int) *evaluator {
	return &evaluator{env: env, memo: map[*Term]*big.Int{}}
}

func b2i(b bool) *big.Int {
	if b {
		return big.NewInt(1)
	}
	return big.NewInt(0)
}

func (ev *evaluator) eval(root *Term) (res *big.Int, err error) {
	defer func() {
		if r := recover(); r != nil {
			if ee, ok := r.(execError); ok {
				err = fmt.Errorf("%s", ee.msg)
				return
			}
			panic(r)
		}
	}()
	for _, t := range topo(root) {
		if _, ok := ev.memo[t]; ok {
			continue
		}
		ev.memo[t] = ev.eval1(t)
	}
	return ev.memo[root], nil
}

func (ev *evaluator) eval1(t *Term) *big.Int {
	a := func(i int) *big.Int { return ev.memo[t.args[i]] }
	w := t.sort.W
	aw := 0
	if len(t.args) > 0 {
		aw = t.args[0].sort.W
	}
	switch t.op {
	case OConst:
		return t.val
	case OVar:
		if v, ok := ev.env[t]; ok {
			return v
		}
		if ev.resolve != nil {
			if v, ok := ev.resolve(t, ev); ok {
				return v
			}
		}
		fail("eval: unbound variable %s", t.name)
	case ONot:
		return b2i(a(0).Sign() == 0)
	case OAnd:
		return b2i(a(0).Sign() != 0 && a(1).Sign() != 0)
	case OOr:
		return b2i(a(0).Sign() != 0 || a(1).Sign() != 0)
	case OEq:
		return b2i(a(0).Cmp(a(1)) == 0)
	case OIte:
		if a(0).Sign() != 0 {
			return a(1)
		}
		return a(2)
	case OBvAdd:
		return normW(new(big.Int).Add(a(0), a(1)), w)
	case OBvSub:
		return normW(new(big.Int).Sub(a(0), a(1)), w)
	case OBvMul:
		return normW(new(big.Int).Mul(a(0), a(1)), w)
	case OBvNeg:
		return normW(new(big.Int).Neg(a(0)), w)
	case OBvNot:
		return new(big.Int).Xor(a(0), maskW(w))
	case OBvAnd:
		return new(big.Int).And(a(0), a(1))
	case OBvOr:
		return new(big.Int).Or(a(0), a(1))
	case OBvXor:
		return new(big.Int).Xor(a(0), a(1))
	case OBvShl:
		if a(1).Cmp(big.NewInt(int64(w))) >= 0 {
			return big.NewInt(0)
		}
		return normW(new(big.Int).Lsh(a(0), uint(a(1).Uint64())), w)
	case OBvLshr:
		if a(1).Cmp(big.NewInt(int64(w))) >= 0 {
			return big.NewInt(0)
		}
		return new(big.Int).Rsh(a(0), uint(a(1).Uint64()))
	case OBvAshr:
		k := uint(w - 1)
		if a(1).Cmp(big.NewInt(int64(w))) < 0 {
			k = uint(a(1).Uint64())
		}
		return normW(new(big.Int).Rsh(toSigned(a(0), w), k), w)
	case OBvUdiv:
		if a(1).Sign() == 0 {
			return maskW(w)
		}
		return new(big.Int).Quo(a(0), a(1))
	case OBvUrem:
		if a(1).Sign() == 0 {
			return a(0)
		}
		return new(big.Int).Rem(a(0), a(1))
	case OBvSdiv:
		if a(1).Sign() == 0 {
			fail("eval: sdiv by zero")
		}
		return normW(new(big.Int).Quo(toSigned(a(0), w), toSigned(a(1), w)), w)
	case OBvSrem:
		if a(1).Sign() == 0 {
			fail("eval: srem by zero")
		}
		return normW(new(big.Int).Rem(toSigned(a(0), w), toSigned(a(1), w)), w)
	case OBvUlt:
		return b2i(a(0).Cmp(a(1)) < 0)
	case OBvUle:
		return b2i(a(0).Cmp(a(1)) <= 0)
	case OBvSlt:
		return b2i(toSigned(a(0), aw).Cmp(toSigned(a(1), aw)) < 0)
	case OBvSle:
		return b2i(toSigned(a(0), aw).Cmp(toSigned(a(1), aw)) <= 0)
	case OExtract:
		return normW(new(big.Int).Rsh(a(0), uint(t.p2)), w)
	case OConcat:
		r := new(big.Int).Lsh(a(0), uint(t.args[1].sort.W))
		return r.Or(r, a(1))
	case OZext:
		return a(0)
	case OSext:
		return normW(toSigned(a(0), aw), w)
	case OIAdd:
		return new(big.Int).Add(a(0), a(1))
	case OISub:
		return new(big.Int).Sub(a(0), a(1))
	case OIMul:
		return new(big.Int).Mul(a(0), a(1))
	case OINeg:
		return new(big.Int).Neg(a(0))
	case OIDiv:
		if a(1).Sign() == 0 {
			fail("eval: div by zero")
		}
		q, m := new(big.Int), new(big.Int)
		q.DivMod(a(0), a(1), m)
		return q
	case OIMod:
		if a(1).Sign() == 0 {
			fail("eval: mod by zero")
		}
		return new(big.Int).Mod(a(0), new(big.Int).Abs(a(1)))
	case OILt:
		return b2i(a(0).Cmp(a(1)) < 0)
	case OILe:
		return b2i(a(0).Cmp(a(1)) <= 0)
	case OBv2Int:
		return a(0)
	case OBv2IntS:
		return toSigned(a(0), aw)
	case OUF:
		fail("eval: uninterpreted function %s", t.name)
	}
	fail("eval: unsupported op")
	return nil
}

// candidate draws a value for a variable: boundary patterns and uniform values below the bound.
func candidateValue(rng *rand.Rand, v *Term, bound *big.Int) *big.Int {
	switch v.sort.K {
	case KBool:
		return big.NewInt(int64(rng.Intn(2)))
	case KInt:
		// ghost integers: small, or a few hundred bits
		switch rng.Intn(4) {
		case 0:
			return big.NewInt(int64(rng.Intn(5) - 2))
		default:
			r := new(big.Int).Rand(rng, pow2(8+rng.Intn(300)))
			if rng.Intn(4) == 0 {
				r.Neg(r)
			}
			return r
		}
	}
	hi := maskW(v.sort.W)
	if bound != nil && bound.Cmp(hi) < 0 {
		hi = bound
	}
	lim := new(big.Int).Add(hi, big1)
	switch rng.Intn(8) {
	case 0:
		return big.NewInt(0)
	case 1:
		return new(big.Int).Set(hi)
	case 2:
		if hi.Sign() > 0 {
			return new(big.Int).Sub(hi, big1)
		}
		return big.NewInt(0)
	case 3:
		// 2^k - 1 or 2^k below the bound
		k := rng.Intn(hi.BitLen() + 1)
		x := pow2(k)
		if rng.Intn(2) == 0 {
			x.Sub(x, big1)
		}
		if x.Cmp(hi) > 0 {
			return new(big.Int).Set(hi)
		}
		return x
	case 4:
		return big.NewInt(1)
	default:
		return new(big.Int).Rand(rng, lim)
	}
}

// concreteSearch looks for an assignment with all hypotheses true and the goal false.
func concreteSearch(ob *Oblig, n int, seed int64) map[string]*big.Int {
	hyps := flattenAnd(ob.Hyp)
	tr := newIntTranslator()
	tr.scan(hyps)
	vars := termVars(ob.Hyp, ob.Goal)
	rng := rand.New(rand.NewSource(seed ^ ob.Hyp.id ^ (ob.Goal.id << 20)))
	for i := 0; i < n; i++ {
		env := map[*Term]*big.Int{}
		for _, v := range vars {
			env[v] = candidateValue(rng, v, tr.vbound[v])
		}
		ev := newEvaluator(env)
		ok := true
		for _, h := range hyps {
			r, err := ev.eval(h)
			if err != nil {
				return nil
			}
			if r.Sign() == 0 {
				ok = false
				break
			}
		}
		if !ok {
			continue
		}
		g, err := ev.eval(ob.Goal)
		if err != nil {
			return nil
		}
		if g.Sign() == 0 {
			m := map[string]*big.Int{}
			for v, x := range env {
				m[v.name] = x
			}
			return m
		}
	}
	return nil
}

// selfCheckInt compares the BV-level meaning of every conjunct with its Int translation on sample points.
func selfCheckInt(ob *Oblig, _ *intTr, n int, seed int64) error {
	conj := append(flattenAnd(ob.Hyp), ob.Goal)
	// a fresh translator without hypothesis-based elimination: each conjunct is compared on its own
	tr := newIntTranslator()
	tr.noElim = true
	tr.scan(flattenAnd(ob.Hyp))
	vars := termVars(conj...)
	rng := rand.New(rand.NewSource(seed ^ 0x5eed ^ ob.Hyp.id))
	for i := 0; i < n; i++ {
		env := map[*Term]*big.Int{}
		ienv := map[*Term]*big.Int{}
		for _, v := range vars {
			x := candidateValue(rng, v, tr.vbound[v])
			env[v] = x
			if v.sort.K == KBV {
				ienv[Var(v.name, IntSort)] = x
			} else {
				ienv[v] = x
			}
		}
		ev := newEvaluator(env)
		iev := newEvaluator(ienv)
		iev.resolve = func(v *Term, e *evaluator) (*big.Int, bool) {
			def, ok := tr.skDef[v]
			if !ok {
				return nil, false
			}
			r, err := e.eval(polyTerm(def.r))
			if err != nil {
				return nil, false
			}
			return floorDiv(r, def.m), true
		}
		for _, h := range conj {
			a, err := ev.eval(h)
			if err != nil {
				return nil // not evaluable (UF): nothing to compare
			}
			b, err := iev.eval(tr.boolean(h))
			if err != nil {
				return nil
			}
			if (a.Sign() != 0) != (b.Sign() != 0) {
				return fmt.Errorf("Int translation disagrees with bit-vector semantics on a sample point for %s", termString(h, 3))
			}
		}
	}
	return nil
}

// ---------- structured special-value search ----------
//
// Random per-variable candidates almost never hit the inputs on which arithmetic code goes wrong (exact
// multiples of the group order, a limb equal to the complement of a constant the code adds, a run of zero
// limbs...). structuredSearch treats every input vector (variables named x[0], x[1], ...) as the digits of ONE
// integer and draws that integer from (a) a dictionary of the curve's boundary values and small multiples of
// them and (b) concatenations of word-sized chunks taken from a dictionary harvested from the constants of
// the obligation itself (c, ^c, c+-1, -c). As every other search here it can only produce a refutation
// candidate; the native replay decides.

var (
	bigL, _ = new(big.Int).SetString("7237005577332262213973186563042994240857116359379907606001950938285454250989", 10)
	bigP    = new(big.Int).Sub(pow2(255), big.NewInt(19))
)

func specialIntegers() []*big.Int {
	var s []*big.Int
	add := func(v *big.Int) {
		if v.Sign() >= 0 {
			s = append(s, v)
		}
	}
	for _, base := range []*big.Int{bigL, bigP} {
		for _, k := range []int64{1, 2, 3, 4, 7, 8, 9, 15, 16, 17} {
			m := new(big.Int).Mul(base, big.NewInt(k))
			for d := int64(-2); d <= 2; d++ {
				add(new(big.Int).Add(m, big.NewInt(d)))
			}
		}
		// large multiples for double-width inputs
		for _, sh := range []uint{200, 252, 255, 256, 259, 260, 261} {
			m := new(big.Int).Lsh(base, sh)
			add(m)
			add(new(big.Int).Sub(m, base))
			add(new(big.Int).Add(m, big1))
			add(new(big.Int).Sub(m, big1))
		}
	}
	for _, k := range []uint{0, 1, 8, 63, 64, 127, 128, 191, 192, 251, 252, 253, 254, 255, 256, 260, 261, 511, 512} {
		add(pow2(int(k)))
		add(new(big.Int).Sub(pow2(int(k)), big1))
		add(new(big.Int).Add(pow2(int(k)), big1))
		add(new(big.Int).Add(pow2(int(k)), big.NewInt(12345)))
	}
	add(new(big.Int).Sub(pow2(255), big.NewInt(20)))
	add(new(big.Int).Sub(pow2(255), big.NewInt(18)))
	return s
}

type inputGroup struct {
	name string
	vars []*Term // by index
}

func groupInputs(vars []*Term) (groups []*inputGroup, singles []*Term) {
	byName := map[string]map[int]*Term{}
	var order []string
	for _, v := range vars {
		if v.sort.K != KBV {
			singles = append(singles, v)
			continue
		}
		i := strings.LastIndex(v.name, "[")
		if i < 0 || !strings.HasSuffix(v.name, "]") {
			singles = append(singles, v)
			continue
		}
		idx, err := strconv.Atoi(v.name[i+1 : len(v.name)-1])
		if err != nil {
			singles = append(singles, v)
			continue
		}
		n := v.name[:i]
		if byName[n] == nil {
			byName[n] = map[int]*Term{}
			order = append(order, n)
		}
		byName[n][idx] = v
	}
	for _, n := range order {
		m := byName[n]
		max := -1
		for i := range m {
			if i > max {
				max = i
			}
		}
		g := &inputGroup{name: n, vars: make([]*Term, max+1)}
		for i, v := range m {
			g.vars[i] = v
		}
		groups = append(groups, g)
	}
	return
}

// harvestConsts collects bit-vector constants of the obligation as a dictionary.
func harvestConsts(roots ...*Term) []*big.Int {
	seen := map[string]bool{}
	var out []*big.Int
	add := func(v *big.Int) {
		k := v.String()
		if !seen[k] && len(out) < 400 {
			seen[k] = true
			out = append(out, v)
		}
	}
	for _, r := range roots {
		for _, t := range topo(r) {
			if t.op != OConst || t.sort.K != KBV || t.sort.W < 8 {
				continue
			}
			w := t.sort.W
			c := t.val
			add(c)
			add(new(big.Int).Xor(c, maskW(w)))
			add(normW(new(big.Int).Add(c, big1), w))
			add(normW(new(big.Int).Sub(c, big1), w))
			add(normW(new(big.Int).Neg(c), w))
		}
	}
	return out
}

func structuredSearch(ob *Oblig, budget int, maxTime time.Duration, seed int64) map[string]*big.Int {
	_, m := structuredSearchMulti([]*Oblig{ob}, budget, maxTime, seed)
	return m
}

// structuredSearchMulti: one candidate stream evaluated against several obligations of the same run (the
// term DAG and the evaluator memo are shared); returns the first obligation violated and the input.
func structuredSearchMulti(obs []*Oblig, budget int, maxTime time.Duration, seed int64) (*Oblig, map[string]*big.Int) {
	if len(obs) == 0 {
		return nil, nil
	}
	tr := newIntTranslator()
	var allRoots []*Term
	hypsOf := make([][]*Term, len(obs))
	for i, ob := range obs {
		hypsOf[i] = flattenAnd(ob.Hyp)
		tr.scan(hypsOf[i])
		allRoots = append(allRoots, ob.Hyp, ob.Goal)
	}
	ob := obs[0]
	vars := termVars(allRoots...)
	groups, singles := groupInputs(vars)
	if len(groups) == 0 {
		return nil, nil
	}
	rng := rand.New(rand.NewSource(seed ^ 0x57a7 ^ ob.Goal.id))
	specials := specialIntegers()
	dict := harvestConsts(allRoots...)
	dict = append(dict, big.NewInt(0), big.NewInt(1))
	deadline := time.Now().Add(maxTime)
	// radix candidates of a group: the bit length of the assumed bound, the variable width, and the limb
	// radices of this library
	radices := func(g *inputGroup) []int {
		w := 0
		var rs []int
		for _, v := range g.vars {
			if v == nil {
				continue
			}
			w = v.sort.W
			if b := tr.vbound[v]; b != nil {
				bl := b.BitLen()
				if bl > 0 && bl <= w {
					rs = append(rs, bl)
				}
			}
			break
		}
		rs = append(rs, w)
		for _, r := range []int{52, 51, 29, 26, -1} { // -1: alternating 26/25 (32-bit field limbs)
			if r <= w {
				rs = append(rs, r)
			}
		}
		return rs
	}
	split := func(v *big.Int, g *inputGroup, radix int, stride2 bool, env map[*Term]*big.Int) {
		rest := new(big.Int).Set(v)
		for i, x := range g.vars {
			if stride2 {
				// (low word, high word) pairs per digit: the digit goes to the low word
				if i%2 == 1 {
					if x != nil {
						env[x] = big.NewInt(0)
					}
					continue
				}
			}
			r := radix
			if radix == -1 {
				r = 26 - i%2
			}
			d := new(big.Int).And(rest, maskW(r))
			rest.Rsh(rest, uint(r))
			if i == len(g.vars)-1 && rest.Sign() > 0 && !stride2 {
				// top digit takes what is left when it fits the variable
				d.Or(d, new(big.Int).Lsh(rest, uint(r)))
			}
			if x == nil {
				continue
			}
			d.And(d, maskW(x.sort.W))
			env[x] = d
		}
	}
	chunked := func(total int) *big.Int {
		cw := []int{64, 64, 64, 52, 51, 32, 29}[rng.Intn(7)]
		v := new(big.Int)
		for off := 0; off < total; off += cw {
			var c *big.Int
			switch rng.Intn(6) {
			case 0:
				c = big.NewInt(0)
			case 1:
				c = maskW(cw)
			case 2:
				c = new(big.Int).Rand(rng, pow2(cw))
			default:
				c = new(big.Int).And(dict[rng.Intn(len(dict))], maskW(cw))
			}
			v.Or(v, new(big.Int).Lsh(c, uint(off)))
		}
		return v
	}
	for it := 0; it < budget; it++ {
		if it%16 == 0 && time.Now().After(deadline) {
			break
		}
		env := map[*Term]*big.Int{}
		for _, v := range singles {
			env[v] = candidateValue(rng, v, tr.vbound[v])
		}
		for _, g := range groups {
			rs := radices(g)
			radix := rs[rng.Intn(len(rs))]
			stride2 := len(g.vars) >= 4 && len(g.vars)%2 == 0 && rng.Intn(4) == 0
			bits := 0
			for i := range g.vars {
				if stride2 && i%2 == 1 {
					continue
				}
				if radix == -1 {
					bits += 26 - i%2
				} else {
					bits += radix
				}
			}
			var v *big.Int
			switch rng.Intn(5) {
			case 0, 1:
				v = specials[rng.Intn(len(specials))]
			case 2, 3:
				v = chunked(bits)
			default:
				// all variables random (keeps the other group's special value company)
				for _, x := range g.vars {
					if x != nil {
						env[x] = candidateValue(rng, x, tr.vbound[x])
					}
				}
				continue
			}
			split(v, g, radix, stride2, env)
		}
		ev := newEvaluator(env)
		for oi, o := range obs {
			ok := true
			bad := false
			for _, h := range hypsOf[oi] {
				r, err := ev.eval(h)
				if err != nil {
					bad = true
					break
				}
				if r.Sign() == 0 {
					ok = false
					break
				}
			}
			if bad || !ok {
				continue
			}
			gv, err := ev.eval(o.Goal)
			if err != nil {
				continue
			}
			if gv.Sign() == 0 {
				m := map[string]*big.Int{}
				for v, x := range env {
					m[v.name] = x
				}
				return o, m
			}
		}
	}
	return nil, nil
}

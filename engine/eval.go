package main

// Concrete evaluation of term DAGs (independent of the simplifier): used to validate the Int translation
// on sample points and to search for replayable counterexamples when a solver answers unknown.

import (
	"fmt"
	"math/big"
	"math/rand"
)

type evaluator struct {
	env     map[*Term]*big.Int
	memo    map[*Term]*big.Int
	resolve func(v *Term, ev *evaluator) (*big.Int, bool)
}

func newEvaluator(env map[*Term]*big.Int) *evaluator {
	return &evaluator{env: env, memo: map[*Term]*big.Int{}}
}

func b2i(b bool) *big.Int {
	if b {
		return big.NewInt(1)
	}
	return big.NewInt(0)
}

func (ev *evaluator) eval(root *Term) (res *big.Int, err error) {
	defer func() {
		if r := recover(); r != nil {
			if ee, ok := r.(execError); ok {
				err = fmt.Errorf("%s", ee.msg)
				return
			}
			panic(r)
		}
	}()
	for _, t := range topo(root) {
		if _, ok := ev.memo[t]; ok {
			continue
		}
		ev.memo[t] = ev.eval1(t)
	}
	return ev.memo[root], nil
}

func (ev *evaluator) eval1(t *Term) *big.Int {
	a := func(i int) *big.Int { return ev.memo[t.args[i]] }
	w := t.sort.W
	aw := 0
	if len(t.args) > 0 {
		aw = t.args[0].sort.W
	}
	switch t.op {
	case OConst:
		return t.val
	case OVar:
		if v, ok := ev.env[t]; ok {
			return v
		}
		if ev.resolve != nil {
			if v, ok := ev.resolve(t, ev); ok {
				return v
			}
		}
		fail("eval: unbound variable %s", t.name)
	case ONot:
		return b2i(a(0).Sign() == 0)
	case OAnd:
		return b2i(a(0).Sign() != 0 && a(1).Sign() != 0)
	case OOr:
		return b2i(a(0).Sign() != 0 || a(1).Sign() != 0)
	case OEq:
		return b2i(a(0).Cmp(a(1)) == 0)
	case OIte:
		if a(0).Sign() != 0 {
			return a(1)
		}
		return a(2)
	case OBvAdd:
		return normW(new(big.Int).Add(a(0), a(1)), w)
	case OBvSub:
		return normW(new(big.Int).Sub(a(0), a(1)), w)
	case OBvMul:
		return normW(new(big.Int).Mul(a(0), a(1)), w)
	case OBvNeg:
		return normW(new(big.Int).Neg(a(0)), w)
	case OBvNot:
		return new(big.Int).Xor(a(0), maskW(w))
	case OBvAnd:
		return new(big.Int).And(a(0), a(1))
	case OBvOr:
		return new(big.Int).Or(a(0), a(1))
	case OBvXor:
		return new(big.Int).Xor(a(0), a(1))
	case OBvShl:
		if a(1).Cmp(big.NewInt(int64(w))) >= 0 {
			return big.NewInt(0)
		}
		return normW(new(big.Int).Lsh(a(0), uint(a(1).Uint64())), w)
	case OBvLshr:
		if a(1).Cmp(big.NewInt(int64(w))) >= 0 {
			return big.NewInt(0)
		}
		return new(big.Int).Rsh(a(0), uint(a(1).Uint64()))
	case OBvAshr:
		k := uint(w - 1)
		if a(1).Cmp(big.NewInt(int64(w))) < 0 {
			k = uint(a(1).Uint64())
		}
		return normW(new(big.Int).Rsh(toSigned(a(0), w), k), w)
	case OBvUdiv:
		if a(1).Sign() == 0 {
			return maskW(w)
		}
		return new(big.Int).Quo(a(0), a(1))
	case OBvUrem:
		if a(1).Sign() == 0 {
			return a(0)
		}
		return new(big.Int).Rem(a(0), a(1))
	case OBvSdiv:
		if a(1).Sign() == 0 {
			fail("eval: sdiv by zero")
		}
		return normW(new(big.Int).Quo(toSigned(a(0), w), toSigned(a(1), w)), w)
	case OBvSrem:
		if a(1).Sign() == 0 {
			fail("eval: srem by zero")
		}
		return normW(new(big.Int).Rem(toSigned(a(0), w), toSigned(a(1), w)), w)
	case OBvUlt:
		return b2i(a(0).Cmp(a(1)) < 0)
	case OBvUle:
		return b2i(a(0).Cmp(a(1)) <= 0)
	case OBvSlt:
		return b2i(toSigned(a(0), aw).Cmp(toSigned(a(1), aw)) < 0)
	case OBvSle:
		return b2i(toSigned(a(0), aw).Cmp(toSigned(a(1), aw)) <= 0)
	case OExtract:
		return normW(new(big.Int).Rsh(a(0), uint(t.p2)), w)
	case OConcat:
		r := new(big.Int).Lsh(a(0), uint(t.args[1].sort.W))
		return r.Or(r, a(1))
	case OZext:
		return a(0)
	case OSext:
		return normW(toSigned(a(0), aw), w)
	case OIAdd:
		return new(big.Int).Add(a(0), a(1))
	case OISub:
		return new(big.Int).Sub(a(0), a(1))
	case OIMul:
		return new(big.Int).Mul(a(0), a(1))
	case OINeg:
		return new(big.Int).Neg(a(0))
	case OIDiv:
		if a(1).Sign() == 0 {
			fail("eval: div by zero")
		}
		q, m := new(big.Int), new(big.Int)
		q.DivMod(a(0), a(1), m)
		return q
	case OIMod:
		if a(1).Sign() == 0 {
			fail("eval: mod by zero")
		}
		return new(big.Int).Mod(a(0), new(big.Int).Abs(a(1)))
	case OILt:
		return b2i(a(0).Cmp(a(1)) < 0)
	case OILe:
		return b2i(a(0).Cmp(a(1)) <= 0)
	case OBv2Int:
		return a(0)
	case OBv2IntS:
		return toSigned(a(0), aw)
	case OUF:
		fail("eval: uninterpreted function %s", t.name)
	}
	fail("eval: unsupported op")
	return nil
}

// candidate draws a value for a variable: boundary patterns and uniform values below the bound.
func candidateValue(rng *rand.Rand, v *Term, bound *big.Int) *big.Int {
	switch v.sort.K {
	case KBool:
		return big.NewInt(int64(rng.Intn(2)))
	case KInt:
		// ghost integers: small, or a few hundred bits
		switch rng.Intn(4) {
		case 0:
			return big.NewInt(int64(rng.Intn(5) - 2))
		default:
			r := new(big.Int).Rand(rng, pow2(8+rng.Intn(300)))
			if rng.Intn(4) == 0 {
				r.Neg(r)
			}
			return r
		}
	}
	hi := maskW(v.sort.W)
	if bound != nil && bound.Cmp(hi) < 0 {
		hi = bound
	}
	lim := new(big.Int).Add(hi, big1)
	switch rng.Intn(8) {
	case 0:
		return big.NewInt(0)
	case 1:
		return new(big.Int).Set(hi)
	case 2:
		if hi.Sign() > 0 {
			return new(big.Int).Sub(hi, big1)
		}
		return big.NewInt(0)
	case 3:
		// 2^k - 1 or 2^k below the bound
		k := rng.Intn(hi.BitLen() + 1)
		x := pow2(k)
		if rng.Intn(2) == 0 {
			x.Sub(x, big1)
		}
		if x.Cmp(hi) > 0 {
			return new(big.Int).Set(hi)
		}
		return x
	case 4:
		return big.NewInt(1)
	default:
		return new(big.Int).Rand(rng, lim)
	}
}

// concreteSearch looks for an assignment with all hypotheses true and the goal false.
func concreteSearch(ob *Oblig, n int, seed int64) map[string]*big.Int {
	hyps := flattenAnd(ob.Hyp)
	tr := newIntTranslator()
	tr.scan(hyps)
	vars := termVars(ob.Hyp, ob.Goal)
	rng := rand.New(rand.NewSource(seed ^ ob.Hyp.id ^ (ob.Goal.id << 20)))
	for i := 0; i < n; i++ {
		env := map[*Term]*big.Int{}
		for _, v := range vars {
			env[v] = candidateValue(rng, v, tr.vbound[v])
		}
		ev := newEvaluator(env)
		ok := true
		for _, h := range hyps {
			r, err := ev.eval(h)
			if err != nil {
				return nil
			}
			if r.Sign() == 0 {
				ok = false
				break
			}
		}
		if !ok {
			continue
		}
		g, err := ev.eval(ob.Goal)
		if err != nil {
			return nil
		}
		if g.Sign() == 0 {
			m := map[string]*big.Int{}
			for v, x := range env {
				m[v.name] = x
			}
			return m
		}
	}
	return nil
}

// selfCheckInt compares the BV-level meaning of every conjunct with its Int translation on sample points.
func selfCheckInt(ob *Oblig, _ *intTr, n int, seed int64) error {
	conj := append(flattenAnd(ob.Hyp), ob.Goal)
	// a fresh translator without hypothesis-based elimination: each conjunct is compared on its own
	tr := newIntTranslator()
	tr.noElim = true
	tr.scan(flattenAnd(ob.Hyp))
	vars := termVars(conj...)
	rng := rand.New(rand.NewSource(seed ^ 0x5eed ^ ob.Hyp.id))
	for i := 0; i < n; i++ {
		env := map[*Term]*big.Int{}
		ienv := map[*Term]*big.Int{}
		for _, v := range vars {
			x := candidateValue(rng, v, tr.vbound[v])
			env[v] = x
			if v.sort.K == KBV {
				ienv[Var(v.name, IntSort)] = x
			} else {
				ienv[v] = x
			}
		}
		ev := newEvaluator(env)
		iev := newEvaluator(ienv)
		iev.resolve = func(v *Term, e *evaluator) (*big.Int, bool) {
			def, ok := tr.skDef[v]
			if !ok {
				return nil, false
			}
			r, err := e.eval(polyTerm(def.r))
			if err != nil {
				return nil, false
			}
			return floorDiv(r, def.m), true
		}
		for _, h := range conj {
			a, err := ev.eval(h)
			if err != nil {
				return nil // not evaluable (UF): nothing to compare
			}
			b, err := iev.eval(tr.boolean(h))
			if err != nil {
				return nil
			}
			if (a.Sign() != 0) != (b.Sign() != 0) {
				return fmt.Errorf("Int translation disagrees with bit-vector semantics on a sample point for %s", termString(h, 3))
			}
		}
	}
	return nil
}

package main

// Loading /repo (current working tree) with the harness overlay; directive parsing; package initialisation.

import (
	"fmt"
	"go/ast"
	"go/types"
	"os"
	"path/filepath"
	"regexp"
	"sort"
	"strconv"
	"strings"
	"sync"

	"golang.org/x/tools/go/packages"
	"golang.org/x/tools/go/ssa"
	"golang.org/x/tools/go/ssa/ssautil"
)

const modPath = "github.com/oasisprotocol/curve25519-voi"

var repoDir = "/repo"
var verifDir = func() string {
	if d := os.Getenv("VERIF_DIR"); d != "" {
		return d // (development only: an alternative harness tree)
	}
	return "/verif"
}()

type droppedFile struct{ config, file, err, src string }

var droppedHarness []droppedFile
var droppedMu sync.Mutex

type Directive struct {
	Kind  string // ob | contract | stub
	Attrs map[string]string
	Func  string // harness function name
	Pkg   string // package path
	File  string
}

type Loaded struct {
	config   string // default | purego | force32bit
	tags     string
	prog     *ssa.Program
	pkgs     map[string]*ssa.Package
	fnInfo   map[*ssa.Function]*FnInfo
	infoMu   sync.Mutex
	globals  map[*ssa.Global]*Object
	baseMem  Mem
	baseObjN int
	dirs     []*Directive
	funcs    map[string]*ssa.Function // short name -> function
	errT     *types.Pointer
	fset     interface{}
	initSecs float64
	asm      map[string]*AsmFunc
	loadSecs float64
}

var configTags = map[string]string{
	"default":    "verif",
	"purego":     "verif,purego",
	"force32bit": "verif,force32bit",
}

func shortName(full string) string { return strings.ReplaceAll(full, modPath+"/", "") }

// harnessOverlay maps /verif/harness/<pkg_dir_with__>/file.go to /repo/<pkg dir>/zz_verif_file.go
func harnessOverlay() (map[string][]byte, error) {
	ov := map[string][]byte{}
	root := filepath.Join(verifDir, "harness")
	ents, err := os.ReadDir(root)
	if err != nil {
		return nil, err
	}
	for _, e := range ents {
		if !e.IsDir() {
			continue
		}
		pkgDir := strings.ReplaceAll(e.Name(), "__", "/")
		files, _ := os.ReadDir(filepath.Join(root, e.Name()))
		for _, f := range files {
			if !strings.HasSuffix(f.Name(), ".go") {
				continue
			}
			b, err := os.ReadFile(filepath.Join(root, e.Name(), f.Name()))
			if err != nil {
				return nil, err
			}
			name := f.Name()
			if pkgDir != "internal/verif" {
				name = "zz_verif_" + name
			}
			ov[filepath.Join(repoDir, pkgDir, name)] = b
		}
	}
	return ov, nil
}

var directiveRe = regexp.MustCompile(`^//verif:(ob|contract|stub)\s*(.*)$`)

func parseAttrs(s string) map[string]string {
	m := map[string]string{}
	for _, f := range strings.Fields(s) {
		if i := strings.Index(f, "="); i > 0 {
			m[f[:i]] = f[i+1:]
		} else {
			m[f] = "true"
		}
	}
	return m
}

func loadConfig(config string) (*Loaded, error) {
	ov, err := harnessOverlay()
	if err != nil {
		return nil, err
	}
	cfg := &packages.Config{
		Mode:       packages.LoadAllSyntax,
		Dir:        repoDir,
		BuildFlags: []string{"-tags=" + configTags[config]},
		Overlay:    ov,
		Env:        append(os.Environ(), "GOFLAGS=-mod=mod", "GOPROXY=off", "GOSUMDB=off", "GOTOOLCHAIN=local", "GOARCH=amd64", "GOOS=linux"),
	}
	var pkgs []*packages.Package
	for round := 0; ; round++ {
		pkgs, err = packages.Load(cfg, "./...")
		if err != nil {
			return nil, err
		}
		var errs []string
		badHarness := map[string]string{}
		packages.Visit(pkgs, nil, func(p *packages.Package) {
			for _, e := range p.Errors {
				errs = append(errs, e.Error())
				file := e.Pos
				if i := strings.Index(file, ":"); i >= 0 {
					file = file[:i]
				}
				if strings.HasPrefix(filepath.Base(file), "zz_verif_") {
					if _, ok := badHarness[file]; !ok {
						badHarness[file] = e.Error()
					}
				}
			}
		})
		if len(errs) == 0 {
			break
		}
		if len(badHarness) == 0 || round >= 3 {
			return nil, fmt.Errorf("package errors (%s): %s", config, strings.Join(errs, "\n"))
		}
		// a harness file that no longer compiles against the current tree (the code it looks into was restructured)
		// is dropped: its obligations are reported inconclusive, the harnesses in the other files still run
		for file, msg := range badHarness {
			found := false
			for k, src := range ov {
				if k == file || filepath.Base(k) == filepath.Base(file) && filepath.Dir(k) == filepath.Dir(file) {
					droppedMu.Lock()
					droppedHarness = append(droppedHarness, droppedFile{config: config, file: k, err: msg, src: string(src)})
					droppedMu.Unlock()
					delete(ov, k)
					found = true
				}
			}
			if !found {
				return nil, fmt.Errorf("package errors (%s): %s", config, strings.Join(errs, "\n"))
			}
		}
	}
	prog, spkgs := ssautil.AllPackages(pkgs, ssa.InstantiateGenerics)
	prog.Build()
	ld := &Loaded{config: config, tags: configTags[config], prog: prog, pkgs: map[string]*ssa.Package{},
		fnInfo: map[*ssa.Function]*FnInfo{}, globals: map[*ssa.Global]*Object{}, baseMem: Mem{}, funcs: map[string]*ssa.Function{}}
	for _, sp := range prog.AllPackages() {
		ld.pkgs[sp.Pkg.Path()] = sp
	}
	_ = spkgs
	for fn := range ssautil.AllFunctions(prog) {
		ld.funcs[shortName(fn.String())] = fn
	}
	// directives
	for _, p := range pkgs {
		for _, f := range p.Syntax {
			fname := prog.Fset.Position(f.Pos()).Filename
			if !strings.Contains(filepath.Base(fname), "zz_verif_") && p.PkgPath != verifPkgPath {
				continue
			}
			for _, d := range f.Decls {
				fd, ok := d.(*ast.FuncDecl)
				if !ok || fd.Doc == nil {
					continue
				}
				for _, cm := range fd.Doc.List {
					m := directiveRe.FindStringSubmatch(cm.Text)
					if m == nil {
						continue
					}
					ld.dirs = append(ld.dirs, &Directive{Kind: m[1], Attrs: parseAttrs(m[2]), Func: fd.Name.Name, Pkg: p.PkgPath, File: fname})
				}
			}
		}
	}
	sort.Slice(ld.dirs, func(i, j int) bool {
		if ld.dirs[i].Pkg != ld.dirs[j].Pkg {
			return ld.dirs[i].Pkg < ld.dirs[j].Pkg
		}
		return ld.dirs[i].Func < ld.dirs[j].Func
	})
	if ep := prog.ImportedPackage("errors"); ep != nil {
		if t := ep.Type("errorString"); t != nil {
			ld.errT = types.NewPointer(t.Type())
		}
	}
	// global objects
	n := 0
	for _, sp := range prog.AllPackages() {
		var names []string
		for name := range sp.Members {
			names = append(names, name)
		}
		sort.Strings(names)
		for _, name := range names {
			if g, ok := sp.Members[name].(*ssa.Global); ok {
				n++
				et := g.Type().Underlying().(*types.Pointer).Elem()
				o := &Object{id: n, name: sp.Pkg.Path() + "." + name, typ: et}
				if fn := prog.Fset.Position(g.Pos()).Filename; strings.Contains(filepath.Base(fn), "zz_verif_") || sp.Pkg.Path() == verifPkgPath {
					o.spec = true
				}
				ld.globals[g] = o
				ld.baseMem[o] = safeZero(et)
			}
		}
	}
	ld.baseObjN = n
	if err := ld.loadAsm(); err != nil {
		return nil, err
	}
	return ld, nil
}

func safeZero(t types.Type) (v Value) {
	defer func() {
		if r := recover(); r != nil {
			v = nil
		}
	}()
	return zeroValue(t)
}

func (ld *Loaded) globalObj(g *ssa.Global) *Object {
	o, ok := ld.globals[g]
	if !ok {
		fail("unknown global %s", g)
	}
	return o
}

func (ld *Loaded) errorStringType() *types.Pointer { return ld.errT }

// runInits executes the init functions of the module's packages on the base memory.
func (ld *Loaded) runInits() error {
	var paths []string
	for p := range ld.pkgs {
		if strings.HasPrefix(p, modPath) {
			paths = append(paths, p)
		}
	}
	sort.Strings(paths)
	c := newCtx(ld)
	c.noPanicObs = false
	st := &State{mem: ld.baseMem, pc: nil, ghost: map[string]Value{}}
	var rerr error
	func() {
		defer func() {
			if r := recover(); r != nil {
				if ee, ok := r.(execError); ok {
					rerr = fmt.Errorf("init: %s (stack: %s)", ee.msg, strings.Join(c.stack, " > "))
					return
				}
				panic(r)
			}
		}()
		for _, p := range paths {
			initFn := ld.pkgs[p].Func("init")
			if initFn == nil {
				continue
			}
			outs := c.callFunction(initFn, nil, nil, st, nil)
			if len(outs) != 1 {
				rerr = fmt.Errorf("init of %s produced %d outcomes", p, len(outs))
				return
			}
			st = outs[0].st
		}
	}()
	if rerr != nil {
		return rerr
	}
	if len(c.obs) > 0 {
		return fmt.Errorf("init produced obligations: %s", c.obs[0].Name)
	}
	// crypto/rand.Reader: an opaque non-nil entropy source (io.ReadFull on it is a stub: arbitrary bytes or an error)
	if rp := ld.prog.ImportedPackage("crypto/rand"); rp != nil {
		if g, ok := rp.Members["Reader"].(*ssa.Global); ok && ld.errT != nil {
			st.mem[ld.globals[g]] = IfaceV{T: ld.errT, V: Pointer{}}
		}
	}
	ld.baseMem = st.mem
	ld.baseObjN = c.objCounter
	return nil
}

func newCtx(ld *Loaded) *Ctx {
	return &Ctx{ld: ld, objCounter: ld.baseObjN + 1000, replace: map[string]*ssa.Function{}, maxUnroll: 5000,
		encoded: map[string]int{}, secret: map[string]bool{}, contractUse: map[string]int{}, asmFuncs: ld.asmFuncsOrNil(), asserted: map[*Term]bool{}, tainted: map[string]bool{}, secretMemo: map[*Term]bool{}}
}

func atoiDef(s string, d int) int {
	if s == "" {
		return d
	}
	n, err := strconv.Atoi(s)
	if err != nil {
		return d
	}
	return n
}

#!/bin/bash
python3-vt - <<'PY'
import json,jsonschema,glob
jsonschema.validate(json.load(open('/verif/MANIFEST.json')), json.load(open('/root/.vp/MANIFEST.schema.json')))
print('manifest ok')
for f in sorted(glob.glob('/verif/evidence/*.json')):
    jsonschema.validate(json.load(open(f)), json.load(open('/root/.vp/EVIDENCE.schema.json')))
    print('evidence ok', f)
PY

//go:build verif

package cache

import (
	"github.com/oasisprotocol/curve25519-voi/curve"
	"github.com/oasisprotocol/curve25519-voi/internal/verif"
	"github.com/oasisprotocol/curve25519-voi/primitives/ed25519"
)

// Harnesses that use only the exported interface of this package (they keep compiling when the internals of the
// LRU are restructured; the harness that inspects the internals is in c18.go).

var keyUniverse = [3]curve.CompressedEdwardsY{{1}, {2}, {3}}

type refLRU struct {
	keys []int
	vals []*ed25519.ExpandedPublicKey
	capa int
}

func (r *refLRU) find(k int) int {
	for i, x := range r.keys {
		if x == k {
			return i
		}
	}
	return -1
}

func (r *refLRU) touch(i int) {
	k, v := r.keys[i], r.vals[i]
	r.keys = append(r.keys[:i], r.keys[i+1:]...)
	r.vals = append(r.vals[:i], r.vals[i+1:]...)
	r.keys = append([]int{k}, r.keys...)
	r.vals = append([]*ed25519.ExpandedPublicKey{v}, r.vals...)
}

func (r *refLRU) get(k int) *ed25519.ExpandedPublicKey {
	i := r.find(k)
	if i < 0 {
		return nil
	}
	r.touch(i)
	return r.vals[0]
}

func (r *refLRU) put(k int, v *ed25519.ExpandedPublicKey) {
	if i := r.find(k); i >= 0 {
		r.touch(i)
		return
	}
	if len(r.keys) == r.capa {
		r.keys = r.keys[:len(r.keys)-1]
		r.vals = r.vals[:len(r.vals)-1]
	}
	r.keys = append([]int{k}, r.keys...)
	r.vals = append([]*ed25519.ExpandedPublicKey{v}, r.vals...)
}

// ---- the LRU through its public interface only (independent of how entries are stored) ----
// Every history of Get/Put: a hit returns an expanded key FOR THAT KEY, a miss nil, exactly as the sequential
// model says; and every pointer the cache ever handed out keeps denoting the key it was handed out for, whatever
// happens afterwards (a caller uses it after the lock is released, concurrently with evictions by other callers).
//
//verif:ob prop=C18,C09 name=lruCache_public_interface_histories mode=bv tags=purego split=capa:1..2;n:1..3;h:0..215 tsplit=capa:1..2;n:1..4;h:0..1295
func vh_C18_lru_public() {
	capa, n, h := verif.Case("capa"), verif.Case("n"), verif.Case("h")
	lim := 1
	for i := 0; i < n; i++ {
		lim *= 6
	}
	if h >= lim {
		verif.SkipRun()
		return
	}
	var c Cache = NewLRUCache(capa)
	ref := &refLRU{capa: capa}
	var exp [3]*ed25519.ExpandedPublicKey
	for k := 0; k < 3; k++ {
		exp[k] = ed25519.VerifExpandedRaw(keyUniverse[k][:])
	}
	var handed []*ed25519.ExpandedPublicKey
	var handedKey []int
	for i := 0; i < n; i++ {
		d := h % 6
		h /= 6
		k, kind := d/2, d%2
		if kind == 0 {
			got := c.Get(&keyUniverse[k])
			want := ref.get(k)
			verif.Assert((got == nil) == (want == nil), "Get: hit or miss as in the sequential LRU model")
			if got != nil {
				ck := got.CompressedY()
				verif.Assert(ck == keyUniverse[k], "Get: the expanded key returned belongs to the key asked for")
				handed, handedKey = append(handed, got), append(handedKey, k)
			}
		} else {
			c.Put(&keyUniverse[k], exp[k])
			ref.put(k, exp[k])
		}
		for j := range handed {
			ck := handed[j].CompressedY()
			verif.Assert(ck == keyUniverse[handedKey[j]], "an expanded key handed out earlier still denotes its own key after later operations (no recycled storage behind a returned pointer)")
		}
		for k := 0; k < 3; k++ {
			ck := exp[k].CompressedY()
			verif.Assert(ck == keyUniverse[k], "the caller's expanded keys are never written to")
		}
	}
}

// ---- the caching verifier over an ARBITRARY Cache satisfying "Get(k) is nil or the expansion of k" ----

type symCache struct{ hit bool }

func (s *symCache) Get(k *curve.CompressedEdwardsY) *ed25519.ExpandedPublicKey {
	if s.hit && curve.GDecodes(k[:]) {
		return ed25519.VerifExpandedFor(k[:])
	}
	return nil
}
func (s *symCache) Put(k *curve.CompressedEdwardsY, e *ed25519.ExpandedPublicKey) {}

//verif:ob prop=C09,C18,C19 name=cache_Verifier_eq_plain_verification mode=bv tags=purego use=gapi split=nk:0+31..33;ns:63..64 sharedro=1
func vh_C09_cacheVerifier() {
	nk, ns := verif.Case("nk"), verif.Case("ns")
	pk := make([]byte, nk)
	verif.AnyBytes("pk", pk)
	sig := make([]byte, ns)
	verif.AnyBytes("sig", sig)
	msg := make([]byte, 1)
	verif.AnyBytes("msg", msg)
	v := NewVerifier(&symCache{hit: verif.AnyBool("hit")})
	verif.SharedRO(v) // a Verifier is meant to be shared between goroutines: its only mutable state is the Cache
	got := v.Verify(pk, msg, sig)
	if nk != 32 {
		verif.Assert(!got, "bad key length: false, no panic")
		return
	}
	want := ed25519.VerifPredicateDefault(pk, msg, sig)
	verif.Assert(got == want, "cached verification (hit or miss) = plain verification")
}

// Verifier.Add* never loses an entry: a key that cannot even be expanded still occupies its position in the
// batch (and makes it fail), exactly as with the plain BatchVerifier.
//
//verif:ob prop=C09,C19 name=cache_Verifier_Add_keeps_malformed_entries mode=bv tags=purego use=gapi split=nk:0+31..33;which:0..1
func vh_C09_cacheAdd() {
	nk := verif.Case("nk")
	pk := make([]byte, nk)
	verif.AnyBytes("pk", pk)
	sig := make([]byte, 64)
	verif.AnyBytes("sig", sig)
	msg := make([]byte, 1)
	verif.AnyBytes("msg", msg)
	v := NewVerifier(&symCache{hit: verif.AnyBool("hit")})
	bv := ed25519.NewBatchVerifier()
	if verif.Case("which") == 0 {
		v.Add(bv, pk, msg, sig)
	} else {
		v.AddWithOptions(bv, pk, msg, sig, &ed25519.Options{Verify: ed25519.VerifyOptionsStdLib})
	}
	verif.Assert(ed25519.VerifBatchLen(bv) == 1, "the entry is in the batch")
	if nk != 32 || !curve.GDecodes(pk) {
		verif.Assert(ed25519.VerifBatchAnyInvalid(bv), "an entry whose key cannot be expanded is recorded as invalid")
	}
}

// ---- the caching verifier over the REAL LRU cache, short histories with arbitrary keys ----
// Every call agrees with plain verification whatever was verified before (malformed keys included), and nothing
// panics - in particular not when an earlier key that could not be expanded is evicted.
//
// Key equalities are case-split (pat: which calls use the same key); distinct keys differ in their first byte
// (fixed to 0, 1, 2), the other 31 bytes, signatures and messages are arbitrary.
var cachePatterns = [][3]int{{0, 0, 0}, {0, 0, 1}, {0, 1, 0}, {0, 1, 1}, {0, 1, 2}}

//verif:ob prop=C09,C18,C19 name=cache_Verifier_over_real_LRU_histories mode=bv tags=purego use=gapi split=capa:1..2;n:2..3;pat:0..4
func vh_C19_cacheHistories() {
	capa, n := verif.Case("capa"), verif.Case("n")
	pat := cachePatterns[verif.Case("pat")]
	if n == 2 && verif.Case("pat") != 0 && verif.Case("pat") != 2 {
		verif.SkipRun()
		return
	}
	var keys [3][]byte
	for j := 0; j < 3; j++ {
		keys[j] = make([]byte, 32)
		verif.AnyBytes("key"+string(rune('0'+j)), keys[j])
		keys[j][0] = byte(j)
	}
	v := NewVerifier(NewLRUCache(capa))
	for i := 0; i < n; i++ {
		nm := string(rune('a' + i))
		pk := append([]byte{}, keys[pat[i]]...)
		sig := make([]byte, 64)
		verif.AnyBytes("sig"+nm, sig)
		msg := make([]byte, 1)
		verif.AnyBytes("msg"+nm, msg)
		got := v.Verify(pk, msg, sig)
		verif.Assert(got == ed25519.VerifPredicateDefault(pk, msg, sig), "cached verification = plain verification, whatever the cache has seen before")
	}
}

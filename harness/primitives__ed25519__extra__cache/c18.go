//go:build verif

package cache

import (
	"github.com/oasisprotocol/curve25519-voi/curve"
	"github.com/oasisprotocol/curve25519-voi/internal/verif"
	"github.com/oasisprotocol/curve25519-voi/primitives/ed25519"
)

// C18 (reduced): (a) lock discipline of lruCache: every access to store/list/capacity in its methods happens
// with the embedded mutex held, Lock is never re-entered, Unlock only when held, and the mutex is free on
// return; (b) sequential LRU specification on every history of Get/Put over a key universe larger than the
// capacity. From (a) the operations are atomic sections of one mutex, so every interleaving is some order of
// them; (b) covers all orders. The Go memory model and sync.Mutex are assumed, not modelled.

var keyUniverse = [3]curve.CompressedEdwardsY{{1}, {2}, {3}}

type refLRU struct {
	keys []int
	vals []*ed25519.ExpandedPublicKey
	capa int
}

func (r *refLRU) find(k int) int {
	for i, x := range r.keys {
		if x == k {
			return i
		}
	}
	return -1
}

func (r *refLRU) touch(i int) {
	k, v := r.keys[i], r.vals[i]
	r.keys = append(r.keys[:i], r.keys[i+1:]...)
	r.vals = append(r.vals[:i], r.vals[i+1:]...)
	r.keys = append([]int{k}, r.keys...)
	r.vals = append([]*ed25519.ExpandedPublicKey{v}, r.vals...)
}

func (r *refLRU) get(k int) *ed25519.ExpandedPublicKey {
	i := r.find(k)
	if i < 0 {
		return nil
	}
	r.touch(i)
	return r.vals[0]
}

func (r *refLRU) put(k int, v *ed25519.ExpandedPublicKey) {
	if i := r.find(k); i >= 0 {
		r.touch(i)
		return
	}
	if len(r.keys) == r.capa {
		r.keys = r.keys[:len(r.keys)-1]
		r.vals = r.vals[:len(r.vals)-1]
	}
	r.keys = append([]int{k}, r.keys...)
	r.vals = append([]*ed25519.ExpandedPublicKey{v}, r.vals...)
}

// history encoded in base 6: digit = 2*key + kind (kind 0 = Get, 1 = Put)
//
//verif:ob prop=C18,C09 name=lruCache_histories_and_lock_discipline mode=bv tags=purego guarded=lruCache split=capa:1..2;n:1..3;h:0..215 tsplit=capa:1..2;n:1..4;h:0..1295
func vh_C18_lru() {
	capa, n, h := verif.Case("capa"), verif.Case("n"), verif.Case("h")
	lim := 1
	for i := 0; i < n; i++ {
		lim *= 6
	}
	if h >= lim {
		return
	}
	c := NewLRUCache(capa).(*lruCache)
	ref := &refLRU{capa: capa}
	// one expanded key per universe element (the cache stores what it is given for that key)
	var exp [3]*ed25519.ExpandedPublicKey
	for k := 0; k < 3; k++ {
		exp[k] = ed25519.VerifExpandedRaw(keyUniverse[k][:])
	}
	for i := 0; i < n; i++ {
		d := h % 6
		h /= 6
		k, kind := d/2, d%2
		acq := verif.MutexAcquisitions(&c.Mutex)
		if kind == 0 {
			got := c.Get(&keyUniverse[k])
			want := ref.get(k)
			verif.Assert(got == want, "Get returns exactly what the sequential LRU model returns (hit: the value put for that key; miss: nil)")
		} else {
			c.Put(&keyUniverse[k], exp[k])
			ref.put(k, exp[k])
		}
		verif.Assert(verif.MutexAcquisitions(&c.Mutex) == acq+1, "each Get/Put is ONE critical section (the mutex is acquired exactly once per operation)")
		verif.Assert(len(c.store) == len(ref.keys) && c.list.Len() == len(ref.keys) && len(ref.keys) <= capa, "size: index and recency list agree and never exceed the capacity")
		// recency order and index/list consistency
		e := c.list.Front()
		okOrder := true
		for j := 0; j < len(ref.keys); j++ {
			ent := e.Value.(*lruEntry)
			okOrder = okOrder && ent.publicKey == ref.vals[j] && ent.element == e && c.store[keyUniverse[ref.keys[j]]] == ent
			e = e.Next()
		}
		verif.Assert(okOrder && e == nil, "recency list is in LRU order and mirrors the index")
	}
	verif.Assert(!verif.MutexHeld(&c.Mutex), "mutex released on return")
}

//verif:ob prop=C18,C19 name=NewLRUCache_bad_capacity_panics mode=bv tags=purego split=c:0+1 allowpanic=capacity noreach
func vh_C18_capacity() {
	_ = NewLRUCache(-verif.Case("c"))
	verif.Unreachable("capacity <= 0 must panic (documented)")
}

// ---- the caching verifier over an ARBITRARY Cache satisfying "Get(k) is nil or the expansion of k" ----

type symCache struct{ hit bool }

func (s *symCache) Get(k *curve.CompressedEdwardsY) *ed25519.ExpandedPublicKey {
	if s.hit && curve.GDecodes(k[:]) {
		return ed25519.VerifExpandedFor(k[:])
	}
	return nil
}
func (s *symCache) Put(k *curve.CompressedEdwardsY, e *ed25519.ExpandedPublicKey) {}

//verif:ob prop=C09,C18,C19 name=cache_Verifier_eq_plain_verification mode=bv tags=purego use=gapi split=nk:0+31..33;ns:63..64 sharedro=1
func vh_C09_cacheVerifier() {
	nk, ns := verif.Case("nk"), verif.Case("ns")
	pk := make([]byte, nk)
	verif.AnyBytes("pk", pk)
	sig := make([]byte, ns)
	verif.AnyBytes("sig", sig)
	msg := make([]byte, 1)
	verif.AnyBytes("msg", msg)
	v := NewVerifier(&symCache{hit: verif.AnyBool("hit")})
	verif.SharedRO(v) // a Verifier is meant to be shared between goroutines: its only mutable state is the Cache
	got := v.Verify(pk, msg, sig)
	if nk != 32 {
		verif.Assert(!got, "bad key length: false, no panic")
		return
	}
	want := ed25519.VerifPredicateDefault(pk, msg, sig)
	verif.Assert(got == want, "cached verification (hit or miss) = plain verification")
}

// Verifier.Add* never loses an entry: a key that cannot even be expanded still occupies its position in the
// batch (and makes it fail), exactly as with the plain BatchVerifier.
//
//verif:ob prop=C09,C19 name=cache_Verifier_Add_keeps_malformed_entries mode=bv tags=purego use=gapi split=nk:0+31..33;which:0..1
func vh_C09_cacheAdd() {
	nk := verif.Case("nk")
	pk := make([]byte, nk)
	verif.AnyBytes("pk", pk)
	sig := make([]byte, 64)
	verif.AnyBytes("sig", sig)
	msg := make([]byte, 1)
	verif.AnyBytes("msg", msg)
	v := NewVerifier(&symCache{hit: verif.AnyBool("hit")})
	bv := ed25519.NewBatchVerifier()
	if verif.Case("which") == 0 {
		v.Add(bv, pk, msg, sig)
	} else {
		v.AddWithOptions(bv, pk, msg, sig, &ed25519.Options{Verify: ed25519.VerifyOptionsStdLib})
	}
	verif.Assert(ed25519.VerifBatchLen(bv) == 1, "the entry is in the batch")
	if nk != 32 || !curve.GDecodes(pk) {
		verif.Assert(ed25519.VerifBatchAnyInvalid(bv), "an entry whose key cannot be expanded is recorded as invalid")
	}
}

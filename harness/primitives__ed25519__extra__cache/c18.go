//go:build verif

package cache

import (
	"github.com/oasisprotocol/curve25519-voi/internal/verif"
	"github.com/oasisprotocol/curve25519-voi/primitives/ed25519"
)

// C18 (reduced): (a) lock discipline of lruCache: every access to store/list/capacity in its methods happens
// with the embedded mutex held, Lock is never re-entered, Unlock only when held, and the mutex is free on
// return; (b) sequential LRU specification on every history of Get/Put over a key universe larger than the
// capacity. From (a) the operations are atomic sections of one mutex, so every interleaving is some order of
// them; (b) covers all orders. The Go memory model and sync.Mutex are assumed, not modelled.

// history encoded in base 6: digit = 2*key + kind (kind 0 = Get, 1 = Put)
//
//verif:ob prop=C18,C09 name=lruCache_histories_and_lock_discipline mode=bv tags=purego guarded=lruCache split=capa:1..2;n:1..3;h:0..215 tsplit=capa:1..2;n:1..4;h:0..1295
func vh_C18_lru() {
	capa, n, h := verif.Case("capa"), verif.Case("n"), verif.Case("h")
	lim := 1
	for i := 0; i < n; i++ {
		lim *= 6
	}
	if h >= lim {
		return
	}
	c := NewLRUCache(capa).(*lruCache)
	ref := &refLRU{capa: capa}
	// one expanded key per universe element (the cache stores what it is given for that key)
	var exp [3]*ed25519.ExpandedPublicKey
	for k := 0; k < 3; k++ {
		exp[k] = ed25519.VerifExpandedRaw(keyUniverse[k][:])
	}
	for i := 0; i < n; i++ {
		d := h % 6
		h /= 6
		k, kind := d/2, d%2
		acq := verif.MutexAcquisitions(&c.Mutex)
		if kind == 0 {
			got := c.Get(&keyUniverse[k])
			want := ref.get(k)
			verif.Assert(got == want, "Get returns exactly what the sequential LRU model returns (hit: the value put for that key; miss: nil)")
		} else {
			c.Put(&keyUniverse[k], exp[k])
			ref.put(k, exp[k])
		}
		verif.Assert(verif.MutexAcquisitions(&c.Mutex) == acq+1, "each Get/Put is ONE critical section (the mutex is acquired exactly once per operation)")
		verif.Assert(len(c.store) == len(ref.keys) && c.list.Len() == len(ref.keys) && len(ref.keys) <= capa, "size: index and recency list agree and never exceed the capacity")
		// recency order and index/list consistency
		e := c.list.Front()
		okOrder := true
		for j := 0; j < len(ref.keys); j++ {
			ent := e.Value.(*lruEntry)
			okOrder = okOrder && ent.publicKey == ref.vals[j] && ent.element == e && c.store[keyUniverse[ref.keys[j]]] == ent
			e = e.Next()
		}
		verif.Assert(okOrder && e == nil, "recency list is in LRU order and mirrors the index")
	}
	verif.Assert(!verif.MutexHeld(&c.Mutex), "mutex released on return")
}

//verif:ob prop=C18,C19 name=NewLRUCache_bad_capacity_panics mode=bv tags=purego split=c:0+1 allowpanic=capacity noreach
func vh_C18_capacity() {
	_ = NewLRUCache(-verif.Case("c"))
	verif.Unreachable("capacity <= 0 must panic (documented)")
}


//go:build verif

package h2c

import (
	"github.com/oasisprotocol/curve25519-voi/internal/field"
	"github.com/oasisprotocol/curve25519-voi/internal/verif"
)

func fieldVal(e *field.Element) verif.Int { return field.VerifVal(e) }
func fieldP() verif.Int                   { return field.VerifP() }

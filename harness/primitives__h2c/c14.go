//go:build verif

package h2c

import (
	"crypto"

	"github.com/oasisprotocol/curve25519-voi/internal/verif"
)

var refOversize = []byte("H2C-OVERSIZE-DST-")

func hashByID(id int) (crypto.Hash, string, int, int) {
	switch id {
	case 0:
		return crypto.SHA256, "sha256", 32, 64
	case 1:
		return crypto.SHA512, "sha512", 64, 128
	case 2:
		return crypto.SHA384, "sha384", 48, 128
	}
	return crypto.SHA224, "sha224", 28, 64
}

// RFC 9380 section 5.3.1 expand_message_xmd (with 5.3.3 for oversize DSTs)
func xmdRef(name string, b, r int, dst, msg []byte, n int) []byte {
	if len(dst) > 255 {
		var in []byte
		in = append(in, refOversize...)
		in = append(in, dst...)
		dst = verif.HashOf(name, b, in)
	}
	dstPrime := append(append([]byte{}, dst...), byte(len(dst)))
	ell := (n + b - 1) / b
	var in0 []byte
	in0 = append(in0, make([]byte, r)...)
	in0 = append(in0, msg...)
	in0 = append(in0, byte(n>>8), byte(n), 0)
	in0 = append(in0, dstPrime...)
	b0 := verif.HashOf(name, b, in0)
	var in1 []byte
	in1 = append(in1, b0...)
	in1 = append(in1, 1)
	in1 = append(in1, dstPrime...)
	bi := verif.HashOf(name, b, in1)
	var uniform []byte
	uniform = append(uniform, bi...)
	for i := 2; i <= ell; i++ {
		x := make([]byte, b)
		for j := range x {
			x[j] = b0[j] ^ bi[j]
		}
		var in []byte
		in = append(in, x...)
		in = append(in, byte(i))
		in = append(in, dstPrime...)
		bi = verif.HashOf(name, b, in)
		uniform = append(uniform, bi...)
	}
	return uniform[:n]
}

func outLen(b, k int) int {
	switch k {
	case 0:
		return 1
	case 1:
		return b - 1
	case 2:
		return b
	case 3:
		return b + 1
	case 4:
		return 2 * b
	case 5:
		return 2*b + 1
	case 6:
		return 3*b + 5
	}
	return 4 * b
}

//verif:ob prop=C14,C18 name=ExpandMessageXMD_vs_RFC9380 mode=bv tags=purego split=h:0..2;nd:0..1+255..256;nm:0..2;k:0..7 sharedro=1
func vh_C14_xmd() {
	hid, nd, nm, k := verif.Case("h"), verif.Case("nd"), verif.Case("nm"), verif.Case("k")
	hf, name, b, r := hashByID(hid)
	dst := make([]byte, nd)
	verif.AnyBytes("dst", dst)
	msg := make([]byte, nm)
	verif.AnyBytes("msg", msg)
	n := outLen(b, k)
	out := make([]byte, n)
	err := ExpandMessageXMD(out, hf, dst, msg)
	verif.Assert(err == nil, "no abort for 1 <= len <= 65535, ell <= 255")
	want := xmdRef(name, b, r, dst, msg, n)
	same := true
	for i := 0; i < n; i++ {
		same = same && out[i] == want[i]
	}
	verif.Assert(same, "uniform_bytes equal RFC 9380 expand_message_xmd")
}

// abort conditions: zero length (documented refusal), > 65535, ell > 255, digest below the security bound
//
//verif:ob prop=C14,C19 name=ExpandMessage_aborts mode=bv tags=purego split=c:0..5
func vh_C14_aborts() {
	c := verif.Case("c")
	dst := []byte("QUUX-V01-CS02")
	msg := make([]byte, 1)
	verif.AnyBytes("msg", msg)
	var err error
	switch c {
	case 0:
		err = ExpandMessageXMD(make([]byte, 0), crypto.SHA512, dst, msg)
	case 1:
		err = ExpandMessageXMD(make([]byte, 65536), crypto.SHA512, dst, msg)
	case 2:
		err = ExpandMessageXMD(make([]byte, 255*32+1), crypto.SHA256, dst, msg) // ell = 256
	case 3:
		err = ExpandMessageXMD(make([]byte, 32), crypto.SHA224, dst, msg) // b_in_bytes < 2k/8
	case 4:
		err = ExpandMessageXOF(make([]byte, 0), verif.NewShakeStub("shake128"), dst, msg)
	case 5:
		err = ExpandMessageXOF(make([]byte, 65536), verif.NewShakeStub("shake128"), dst, msg)
	}
	verif.Assert(err != nil, "abort condition yields an error")
}

//verif:ob prop=C14 name=ExpandMessageXMD_largest_ell mode=bv tags=purego tier=thorough
func vh_C14_xmd_255() {
	dst := []byte("D")
	out := make([]byte, 255*32)
	err := ExpandMessageXMD(out, crypto.SHA256, dst, nil)
	verif.Assert(err == nil, "ell = 255 is accepted")
	want := xmdRef("sha256", 32, 64, dst, nil, 255*32)
	same := true
	for i := range out {
		same = same && out[i] == want[i]
	}
	verif.Assert(same, "uniform_bytes equal the reference at ell = 255")
}

// RFC 9380 section 5.3.2 expand_message_xof
//
//verif:ob prop=C14 name=ExpandMessageXOF_vs_RFC9380 mode=bv tags=purego split=nd:0..1+255..256;nm:0..2;n:1+32+96+300
func vh_C14_xof() {
	nd, nm, n := verif.Case("nd"), verif.Case("nm"), verif.Case("n")
	dst := make([]byte, nd)
	verif.AnyBytes("dst", dst)
	msg := make([]byte, nm)
	verif.AnyBytes("msg", msg)
	out := make([]byte, n)
	err := ExpandMessageXOF(out, verif.NewShakeStub("shake128"), dst, msg)
	verif.Assert(err == nil, "no abort")
	d := dst
	if len(d) > 255 {
		var in []byte
		in = append(in, refOversize...)
		in = append(in, d...)
		d = verif.XofOf("shake128", 32, in) // ceil(2k/8) bytes, k = 128
	}
	var in []byte
	in = append(in, msg...)
	in = append(in, byte(n>>8), byte(n))
	in = append(in, d...)
	in = append(in, byte(len(d)))
	want := verif.XofOf("shake128", n, in)
	same := true
	for i := 0; i < n; i++ {
		same = same && out[i] == want[i]
	}
	verif.Assert(same, "uniform_bytes equal RFC 9380 expand_message_xof")
}

// hash_to_field for edwards25519 (m = 1, L = 48): OS2IP(48 big-endian bytes) mod p
//
//verif:ob prop=C14 name=uniformToField25519 mode=int tags=purego,force32bit
func vh_C14_h2f() {
	b := make([]byte, 48)
	verif.AnyBytes("b", b)
	fe := uniformToField25519(b)
	verif.Assert(verif.ModEq(fieldVal(fe), verif.IntBE(b), fieldP()), "element = OS2IP(b) mod p")
}

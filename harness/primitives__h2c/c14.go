//go:build verif

package h2c

import (
	"crypto"

	"github.com/oasisprotocol/curve25519-voi/curve"
	"github.com/oasisprotocol/curve25519-voi/internal/verif"
)

var refOversize = []byte("H2C-OVERSIZE-DST-")

func hashByID(id int) (crypto.Hash, string, int, int) {
	switch id {
	case 0:
		return crypto.SHA256, "sha256", 32, 64
	case 1:
		return crypto.SHA512, "sha512", 64, 128
	case 2:
		return crypto.SHA384, "sha384", 48, 128
	}
	return crypto.SHA224, "sha224", 28, 64
}

// RFC 9380 section 5.3.1 expand_message_xmd (with 5.3.3 for oversize DSTs)
func xmdRef(name string, b, r int, dst, msg []byte, n int) []byte {
	if len(dst) > 255 {
		var in []byte
		in = append(in, refOversize...)
		in = append(in, dst...)
		dst = verif.HashOf(name, b, in)
	}
	dstPrime := append(append([]byte{}, dst...), byte(len(dst)))
	ell := (n + b - 1) / b
	var in0 []byte
	in0 = append(in0, make([]byte, r)...)
	in0 = append(in0, msg...)
	in0 = append(in0, byte(n>>8), byte(n), 0)
	in0 = append(in0, dstPrime...)
	b0 := verif.HashOf(name, b, in0)
	var in1 []byte
	in1 = append(in1, b0...)
	in1 = append(in1, 1)
	in1 = append(in1, dstPrime...)
	bi := verif.HashOf(name, b, in1)
	var uniform []byte
	uniform = append(uniform, bi...)
	for i := 2; i <= ell; i++ {
		x := make([]byte, b)
		for j := range x {
			x[j] = b0[j] ^ bi[j]
		}
		var in []byte
		in = append(in, x...)
		in = append(in, byte(i))
		in = append(in, dstPrime...)
		bi = verif.HashOf(name, b, in)
		uniform = append(uniform, bi...)
	}
	return uniform[:n]
}

// caller-side memory layouts: lay = 0 separate allocations; lay = 1 DST and message are adjacent sub-slices of ONE
// buffer with spare capacity behind them (frame[:nd], frame[nd:nd+nm]) - an append to either slice would write into
// the caller's memory. The whole frame is compared with a snapshot afterwards: the inputs are read-only.
func c14Inputs(nd, nm, lay int) (dst, msg, frame, snap []byte) {
	if lay == 0 {
		frame = make([]byte, nd+nm)
	} else {
		frame = make([]byte, nd+nm+4)
	}
	verif.AnyBytes("frame", frame)
	snap = append([]byte{}, frame...)
	if lay == 0 {
		dst = append([]byte{}, frame[:nd]...)
		msg = append([]byte{}, frame[nd:nd+nm]...)
		return dst[:nd:nd], msg[:nm:nm], frame, snap
	}
	return frame[:nd], frame[nd : nd+nm], frame, snap
}

func c14Unchanged(dst, msg, frame, snap []byte, nd, nm int) bool {
	ok := len(dst) == nd && len(msg) == nm
	for i := range frame {
		ok = ok && frame[i] == snap[i]
	}
	for i := 0; i < nd; i++ {
		ok = ok && dst[i] == snap[i]
	}
	for i := 0; i < nm; i++ {
		ok = ok && msg[i] == snap[nd+i]
	}
	return ok
}

// a SHAKE instance the caller has already used (absorbed data): the expander must work on a fresh state
func c14Shake(used int) *verif.ShakeStub {
	x := verif.NewShakeStub("shake128")
	if used == 1 {
		junk := make([]byte, 3)
		verif.AnyBytes("junk", junk)
		_, _ = x.Write(junk)
	}
	return x
}

func outLen(b, k int) int {
	switch k {
	case 0:
		return 1
	case 1:
		return b - 1
	case 2:
		return b
	case 3:
		return b + 1
	case 4:
		return 2 * b
	case 5:
		return 2*b + 1
	case 6:
		return 3*b + 5
	}
	return 4 * b
}

//verif:ob prop=C14,C18 name=ExpandMessageXMD_vs_RFC9380 mode=bv tags=purego split=h:0..2;nd:0..1+255..256;nm:0..2;k:0..7;lay:0..1 sharedro=1
func vh_C14_xmd() {
	hid, nd, nm, k := verif.Case("h"), verif.Case("nd"), verif.Case("nm"), verif.Case("k")
	hf, name, b, r := hashByID(hid)
	dst, msg, frame, snap := c14Inputs(nd, nm, verif.Case("lay"))
	defer func() {
		verif.Assert(c14Unchanged(dst, msg, frame, snap, nd, nm), "the caller's DST / message memory is not modified")
	}()
	n := outLen(b, k)
	out := make([]byte, n)
	err := ExpandMessageXMD(out, hf, dst, msg)
	verif.Assert(err == nil, "no abort for 1 <= len <= 65535, ell <= 255")
	want := xmdRef(name, b, r, dst, msg, n)
	same := true
	for i := 0; i < n; i++ {
		same = same && out[i] == want[i]
	}
	verif.Assert(same, "uniform_bytes equal RFC 9380 expand_message_xmd")
}

// abort conditions: zero length (documented refusal), > 65535, ell > 255, digest below the security bound
//
//verif:ob prop=C14,C19 name=ExpandMessage_aborts mode=bv tags=purego split=c:0..5
func vh_C14_aborts() {
	c := verif.Case("c")
	dst := []byte("QUUX-V01-CS02")
	msg := make([]byte, 1)
	verif.AnyBytes("msg", msg)
	var err error
	switch c {
	case 0:
		err = ExpandMessageXMD(make([]byte, 0), crypto.SHA512, dst, msg)
	case 1:
		err = ExpandMessageXMD(make([]byte, 65536), crypto.SHA512, dst, msg)
	case 2:
		err = ExpandMessageXMD(make([]byte, 255*32+1), crypto.SHA256, dst, msg) // ell = 256
	case 3:
		err = ExpandMessageXMD(make([]byte, 32), crypto.SHA224, dst, msg) // b_in_bytes < 2k/8
	case 4:
		err = ExpandMessageXOF(make([]byte, 0), verif.NewShakeStub("shake128"), dst, msg)
	case 5:
		err = ExpandMessageXOF(make([]byte, 65536), verif.NewShakeStub("shake128"), dst, msg)
	}
	verif.Assert(err != nil, "abort condition yields an error")
}

//verif:ob prop=C14 name=ExpandMessageXMD_largest_ell mode=bv tags=purego tier=thorough maxunroll=20000
func vh_C14_xmd_255() {
	dst := []byte("D")
	out := make([]byte, 255*32)
	err := ExpandMessageXMD(out, crypto.SHA256, dst, nil)
	verif.Assert(err == nil, "ell = 255 is accepted")
	want := xmdRef("sha256", 32, 64, dst, nil, 255*32)
	same := true
	for i := range out {
		same = same && out[i] == want[i]
	}
	verif.Assert(same, "uniform_bytes equal the reference at ell = 255")
}

// RFC 9380 section 5.3.2 expand_message_xof
//
//verif:ob prop=C14 name=ExpandMessageXOF_vs_RFC9380 mode=bv tags=purego split=nd:0..1+255..256;nm:0..2;n:1+32+96+300;lay:0..1;used:0..1
func vh_C14_xof() {
	nd, nm, n := verif.Case("nd"), verif.Case("nm"), verif.Case("n")
	dst, msg, frame, snap := c14Inputs(nd, nm, verif.Case("lay"))
	out := make([]byte, n)
	xofIn := c14Shake(verif.Case("used"))
	err := ExpandMessageXOF(out, xofIn, dst, msg)
	verif.Assert(err == nil, "no abort")
	verif.Assert(c14Unchanged(dst, msg, frame, snap, nd, nm), "the caller's DST / message memory is not modified")
	d := dst
	if len(d) > 255 {
		var in []byte
		in = append(in, refOversize...)
		in = append(in, d...)
		d = verif.XofOf("shake128", 32, in) // ceil(2k/8) bytes, k = 128
	}
	var in []byte
	in = append(in, msg...)
	in = append(in, byte(n>>8), byte(n))
	in = append(in, d...)
	in = append(in, byte(len(d)))
	want := verif.XofOf("shake128", n, in)
	same := true
	for i := 0; i < n; i++ {
		same = same && out[i] == want[i]
	}
	verif.Assert(same, "uniform_bytes equal RFC 9380 expand_message_xof")
}

// hash_to_field for edwards25519 (m = 1, L = 48): OS2IP(48 big-endian bytes) mod p
//
//verif:ob prop=C14 name=uniformToField25519 mode=int tags=purego,force32bit
func vh_C14_h2f() {
	b := make([]byte, 48)
	verif.AnyBytes("b", b)
	fe := uniformToField25519(b)
	verif.Assert(verif.ModEq(fieldVal(fe), verif.IntBE(b), fieldP()), "element = OS2IP(b) mod p")
}

func xofRef(name string, k int, dst, msg []byte, n int) []byte {
	d := dst
	if len(d) > 255 {
		var in []byte
		in = append(in, refOversize...)
		in = append(in, d...)
		d = verif.XofOf(name, 2*k/8, in)
	}
	var in []byte
	in = append(in, msg...)
	in = append(in, byte(n>>8), byte(n))
	in = append(in, d...)
	in = append(in, byte(len(d)))
	return verif.XofOf(name, n, in)
}

// The six suites (RFC 9380 section 8.5 and appendix B): which expander, how many uniform bytes (L = 48 per field
// element: 96 for hash_to_curve, 48 for encode_to_curve, 64 for ristretto255), how they are cut into field
// elements, and map / add / clear_cofactor applied in the RFC's order. The maps themselves are uninterpreted
// (Elligator 2 and the ristretto255 one-way map are NOT verified here; see DESIGN.md).
//
//verif:ob prop=C14 name=suites_vs_RFC9380 mode=bv tags=purego use=gapi nouse=ga_NU split=s:0..5;nd:1+255..256;nm:0..1;lay:0..1;used:0..1
func vh_C14_suites() {
	s, nd, nm := verif.Case("s"), verif.Case("nd"), verif.Case("nm")
	used := verif.Case("used")
	if used == 1 && s != 2 && s != 3 && s != 5 {
		verif.SkipRun() // (only the XOF suites take a caller-supplied instance)
		return
	}
	dst, msg, frame, snap := c14Inputs(nd, nm, verif.Case("lay"))
	defer func() {
		verif.Assert(c14Unchanged(dst, msg, frame, snap, nd, nm), "the caller's DST / message memory is not modified")
	}()
	ro := func(p *curve.EdwardsPoint, u []byte) bool {
		q0 := GEll2(uniformToField25519(u[:48]))
		q1 := GEll2(uniformToField25519(u[48:96]))
		// (addition is commutative: either operand order is the RFC's sum)
		return curve.Pid(p).Eq(curve.GCofactor(curve.GAdd(q0, q1))) || curve.Pid(p).Eq(curve.GCofactor(curve.GAdd(q1, q0)))
	}
	nu := func(u []byte) verif.BV { return curve.GCofactor(GEll2(uniformToField25519(u[:48]))) }
	switch s {
	case 0:
		p, err := Edwards25519_XMD_SHA512_ELL2_RO(dst, msg)
		verif.Assert(err == nil && ro(p, xmdRef("sha512", 64, 128, dst, msg, 96)), "edwards25519_XMD:SHA-512_ELL2_RO_ = clear_cofactor(map(u0) + map(u1)), u = hash_to_field(msg, 2)")
	case 1:
		p, err := Edwards25519_XMD_SHA512_ELL2_NU(dst, msg)
		verif.Assert(err == nil && curve.Pid(p).Eq(nu(xmdRef("sha512", 64, 128, dst, msg, 48))), "edwards25519_XMD:SHA-512_ELL2_NU_ = clear_cofactor(map(u)), u = hash_to_field(msg, 1)")
	case 2:
		p, err := Edwards25519_XOF_ELL2_RO(c14Shake(used), dst, msg)
		verif.Assert(err == nil && ro(p, xofRef("shake128", 128, dst, msg, 96)), "edwards25519_XOF:SHAKE128_ELL2_RO_")
	case 3:
		p, err := Edwards25519_XOF_ELL2_NU(c14Shake(used), dst, msg)
		verif.Assert(err == nil && curve.Pid(p).Eq(nu(xofRef("shake128", 128, dst, msg, 48))), "edwards25519_XOF:SHAKE128_ELL2_NU_")
	case 4:
		p, err := Ristretto255_XMD_R255MAP_RO(crypto.SHA512, dst, msg)
		verif.Assert(err == nil && curve.Rid(p).Eq(curve.RFromUniform(xmdRef("sha512", 64, 128, dst, msg, 64))), "ristretto255_XMD:SHA-512_R255MAP_RO_ = one_way_map(expand_message_xmd(msg, DST, 64))")
	case 5:
		p, err := Ristretto255_XOF_R255MAP_RO(c14Shake(used), dst, msg)
		verif.Assert(err == nil && curve.Rid(p).Eq(curve.RFromUniform(xofRef("shake128", 128, dst, msg, 64))), "ristretto255_XOF:SHAKE128_R255MAP_RO_ = one_way_map(expand_message_xof(msg, DST, 64))")
	}
}

//go:build verif

package h2c

import (
	"github.com/oasisprotocol/curve25519-voi/curve"
	"github.com/oasisprotocol/curve25519-voi/internal/field"
	"github.com/oasisprotocol/curve25519-voi/internal/verif"
)

// protocol-level abstraction (group "gapi"): the non-uniform encoding is a function of (DST, message)

func GEncodeToCurveNU(dst, msg []byte) verif.BV {
	if len(msg) == 0 {
		return verif.UFBV("h2c_edwards25519_nu", 256, verif.BVLE(dst))
	}
	return verif.UFBV("h2c_edwards25519_nu", 256, verif.BVLE(dst), verif.BVLE(msg))
}

//verif:contract for=primitives/h2c.Edwards25519_XMD_SHA512_ELL2_NU group=gapi
func ga_NU(domainSeparator, message []byte) (*curve.EdwardsPoint, error) {
	var p curve.EdwardsPoint
	verif.Havoc(&p)
	curve.SetPid(&p, GEncodeToCurveNU(domainSeparator, message))
	return &p, nil
}

// Elligator 2 (edwards flavour) as an uninterpreted function of the canonical field value
func GEll2(fe *field.Element) verif.BV {
	var b [32]byte
	_ = fe.ToBytes(b[:])
	return verif.UFBV("elligator2_edwards", 256, verif.BVLE(b[:]))
}

//verif:contract for=internal/elligator.EdwardsFlavor group=gapi
func ga_Ell2(r *field.Element) *curve.EdwardsPoint {
	var p curve.EdwardsPoint
	verif.Havoc(&p)
	curve.SetPid(&p, GEll2(r))
	return &p
}

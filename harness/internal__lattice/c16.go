//go:build verif

package lattice

import (
	"github.com/oasisprotocol/curve25519-voi/curve/scalar"
	"github.com/oasisprotocol/curve25519-voi/internal/verif"
)

const hexL = "1000000000000000000000000000000014def9dea2f79cd65812631a5cf5d3ed"

func v128(x Int128) verif.BV { return verif.BVOf(uint64(x.hi)).Concat(verif.BVOf(x.lo)) }
func any128(name string) Int128 {
	return Int128{hi: verif.AnyI64(name + ".hi"), lo: verif.AnyU64(name + ".lo")}
}
func v512(x *int512) verif.BV { return verif.BVLE64(x[:]) }
func v384(x *int384) verif.BV { return verif.BVLE64(x[:]) }
func any512(name string) *int512 {
	var x int512
	verif.AnyU64s(name, x[:])
	return &x
}
func any384(name string) *int384 {
	var x int384
	verif.AnyU64s(name, x[:])
	return &x
}

// ---- Int128: two's-complement ring operations mod 2^128 ----

//verif:ob prop=C16 name=Int128_ring_ops mode=bv tags=purego
func vh_C16_int128() {
	x, y := any128("x"), any128("y")
	verif.Assert(v128(x.add(y)).Eq(v128(x).Add(v128(y))), "add")
	verif.Assert(v128(x.sub(y)).Eq(v128(x).Sub(v128(y))), "sub")
	verif.Assert(v128(x.neg()).Eq(v128(x).Neg()), "neg")
	verif.Assert(x.IsNegative() == v128(x).SLT(verif.BVHex("0", 128)), "IsNegative = sign bit")
	verif.Assert(x.isZero() == v128(x).Eq(verif.BVHex("0", 128)), "isZero")
	abs := v128(x)
	if x.IsNegative() {
		abs = abs.Neg()
	}
	verif.Assert(v128(x.Abs()).Eq(abs), "Abs")
}

//verif:ob prop=C16 name=Int128_shl mode=bv tags=purego split=n:0..130 
func vh_C16_shl() {
	n := verif.Case("n")
	x := any128("x")
	verif.Assert(v128(x.shl(uint(n))).Eq(v128(x).Shl(n)), "shl(n) = x * 2^n mod 2^128 (0 for n >= 128)")
}

//verif:ob prop=C16 name=Int128_scalar_conversions mode=bv tags=purego use=gapi
func vh_C16_conv() {
	var b [32]byte
	verif.AnyBytes("s", b[:])
	s, _ := scalar.NewFromBits(b[:])
	x := newInt128FromScalar(s)
	verif.Assert(v128(x).Eq(verif.BVLE(b[:16])), "newInt128FromScalar takes the low 128 bits")
	y := any128("y")
	var out scalar.Scalar
	y.ToScalar(&out)
	var ob [32]byte
	_ = out.ToBytes(ob[:])
	abs := v128(y.Abs()).Zext(256)
	if y.IsNegative() {
		verif.Assert(verif.BVLE(ob[:]).Eq(verif.UFBV("sc_neg", 256, abs)), "ToScalar(negative) = -|x| mod L")
	} else {
		verif.Assert(verif.BVLE(ob[:]).Eq(abs), "ToScalar(non-negative) = x")
	}
}

// ---- 512-bit and 384-bit integers ----

func shiftCases(k int) int {
	return []int{0, 1, 2, 63, 64, 65, 127, 128, 129, 191, 192, 255, 256, 257, 319, 320, 383, 384, 385, 447, 448, 449, 511, 512, 513, 575, 576, 1022, 1023, 1099}[k]
}

//verif:ob prop=C16 name=int512_AddShifted_SubShifted mode=int tags=purego split=k:0..29 tsplit=s:0..1099
func vh_C16_shifted512() {
	s := shiftOf()
	a, b := any512("a"), any512("b")
	var x int512
	x.AddShifted(a, b, uint(s))
	verif.Assert(v512(&x).Eq(v512(a).Add(v512(b).Shl(s))), "AddShifted(a, b, s) = a + b*2^s mod 2^512")
	x.SubShifted(a, b, uint(s))
	verif.Assert(v512(&x).Eq(v512(a).Sub(v512(b).Shl(s))), "SubShifted(a, b, s) = a - b*2^s mod 2^512")
	y := *a
	y.AddShifted(&y, b, uint(s))
	verif.Assert(v512(&y).Eq(v512(a).Add(v512(b).Shl(s))), "AddShifted aliased (x = a)")
}

//verif:ob prop=C16 name=int384_AddShifted_SubShifted mode=int tags=purego split=k:0..29 tsplit=s:0..1099
func vh_C16_shifted384() {
	s := shiftOf()
	a, b := any384("a"), any384("b")
	var x int384
	x.AddShifted(a, b, uint(s))
	verif.Assert(v384(&x).Eq(v384(a).Add(v384(b).Shl(s))), "AddShifted(a, b, s) = a + b*2^s mod 2^384")
	x.SubShifted(a, b, uint(s))
	verif.Assert(v384(&x).Eq(v384(a).Sub(v384(b).Shl(s))), "SubShifted(a, b, s) = a - b*2^s mod 2^384")
}

//verif:ob prop=C16 name=bigint_predicates mode=bv tags=purego
func vh_C16_pred() {
	a, b := any512("a"), any512("b")
	zero := verif.BVHex("0", 512)
	verif.Assert(a.IsNegative() == v512(a).SLT(zero), "IsNegative = sign bit")
	verif.Assert(a.PositiveLt(b) == v512(a).ULT(v512(b)), "PositiveLt = unsigned comparison (both operands non-negative in use)")
	verif.Assert(a.SafeToShrink() == v512(a).ULT(verif.BVHex("1", 512).Shl(383)), "SafeToShrink iff 0 <= x < 2^383")
	var sum int512
	sum.Add(a, b)
	verif.Assert(v512(&sum).Eq(v512(a).Add(v512(b))), "Add")
	var sh int384
	sh.FromInt512(a)
	verif.Assert(v384(&sh).Eq(v512(a).Extract(383, 0)), "FromInt512 keeps the low 384 bits")
	c, d := any384("c"), any384("d")
	verif.Assert(c.IsNegative() == v384(c).SLT(verif.BVHex("0", 384)), "int384 IsNegative")
	verif.Assert(c.PositiveLt(d) == v384(c).ULT(v384(d)), "int384 PositiveLt")
}

// BitLen(x) = number of bits of x after removing the sign extension: 2^(len-1) <= x' < 2^len where x' = x for
// x >= 0 and x' = -x - 1 (bitwise complement) for x < 0; 0 for 0 and -1.
//
//verif:ob prop=C16 name=int512_BitLen mode=bv tags=purego
func vh_C16_bitlen() {
	a := any512("a")
	n := a.BitLen()
	v := v512(a)
	if a.IsNegative() {
		v = v.Not()
	}
	verif.Assert(n <= 511, "BitLen <= 511")
	one := verif.BVHex("1", 512)
	nn := verif.BVOf(uint64(n)).Zext(512)
	hi := shlSym(one, nn)
	verif.Assert(v.ULT(hi), "x' < 2^BitLen")
	verif.Assert(n == 0 || !v.ULT(shlSym(one, nn.Sub(one))), "x' >= 2^(BitLen-1) when BitLen > 0")
}

// ---- constants and the 256x256 product ----

//verif:ob prop=C16,C20 name=lattice_constants mode=int tags=purego
func vh_C16_consts() {
	L := verif.IntLit("0x" + hexL)
	verif.Assert(verif.Pin(v512(ellSquared()).Int()).Eq(L.Mul(L)), "ellSquared() = L^2")
	verif.Assert(verif.Pin(v128(constELL_LOWER_HALF).Int()).Eq(L.Mod(verif.Pow2(128))), "constELL_LOWER_HALF = L mod 2^128")
	verif.Assert(verif.Pin(v128(i128One).Int()).Eq(verif.IntK(1)) && verif.Pin(v512(i512One).Int()).Eq(verif.IntK(1)), "one constants")
}

//verif:ob prop=C16 name=int512_Mul_exact mode=int tags=purego
func vh_C16_mul() {
	var ab, bb [32]byte
	verif.AnyBytes("a", ab[:])
	verif.AnyBytes("b", bb[:])
	a, _ := scalar.NewFromBits(ab[:])
	b, _ := scalar.NewFromBits(bb[:])
	var x int512
	x.Mul(a, b)
	var ax, bx [32]byte
	_ = a.ToBytes(ax[:])
	_ = b.ToBytes(bx[:])
	verif.Assert(v512(&x).Int().Eq(verif.IntLE(ax[:]).Mul(verif.IntLE(bx[:]))), "Mul(a, b) = a*b exactly (512 bits)")
}

// ---- the delta-scaling identity behind TripleScalarMulBasepointVartime ----
// With d0 = d1*k (mod L), a = k: the result  d0*A' + (d1*b)*B - d1*C  has prime-order part
// d1*(a*alpha + b - gamma)*B  for A' = alpha*B, C' = gamma*B; since d1 is invertible mod L the result is in
// the 8-torsion exactly when [a]A + [b]B - C is.
//
//verif:ob prop=C16 name=delta_scaling_identity mode=int tags=purego
func vh_C16_delta() {
	L := verif.IntLit("0x" + hexL)
	d0, d1, k, al, b, ga := verif.AnyIntG("d0"), verif.AnyIntG("d1"), verif.AnyIntG("k"), verif.AnyIntG("alpha"), verif.AnyIntG("b"), verif.AnyIntG("gamma")
	verif.Assume(verif.ModEq(d0, d1.Mul(k), L))
	lhs := d0.Mul(al).Add(d1.Mul(b)).Sub(d1.Mul(ga))
	rhs := d1.Mul(k.Mul(al).Add(b).Sub(ga))
	verif.Assert(verif.ModEq(lhs, rhs, L), "coefficient of B:  d0*alpha + d1*b - d1*gamma  =  d1*(k*alpha + b - gamma)  (mod L)")
}

// shiftOf: the shift amount of this run: quick tier = boundary list (case k), thorough tier = every s.
func shiftOf() int {
	if verif.HasCase("s") {
		return verif.Case("s")
	}
	return shiftCases(verif.Case("k"))
}

func shlSym(x, n verif.BV) verif.BV { return verif.BVShlSym(x, n) }

// For the front ends in package curve (group "abg"): FindShortVector returns an ARBITRARY pair of 128-bit signed
// integers (the inputs fsv.*), so that the sign handling of the callers is checked for every pair.
//
//verif:contract for=internal/lattice.FindShortVector group=abg
func abg_FindShortVector(k *scalar.Scalar) (Int128, Int128) {
	return Int128{hi: verif.AnyI64("fsv.d0hi"), lo: verif.AnyU64("fsv.d0lo")}, Int128{hi: verif.AnyI64("fsv.d1hi"), lo: verif.AnyU64("fsv.d1lo")}
}

//go:build verif

package scalar

import "github.com/oasisprotocol/curve25519-voi/internal/verif"

// ---------------- Bits ----------------

//verif:ob prop=C17 name=Bits mode=int tags=purego
func vh_Bits() {
	s := anyScalar("s")
	bits := s.Bits()
	acc := verif.IntK(0)
	for i := 255; i >= 0; i-- {
		verif.Assert(bits[i] <= 1, "each entry is a bit")
		acc = acc.Shl(1).Add(verif.IntOf8(bits[i]))
	}
	verif.Assert(acc.Eq(sval(s)), "sum bits[i]*2^i == le(s)")
}

// ---------------- signed radix 16 ----------------

//verif:ob prop=C17,C03 name=ToRadix16 mode=int tags=purego
func vh_ToRadix16() {
	s := anyScalar("s")
	verif.Assume(s.inner[31] < 128) // 255-bit scalars
	d := s.ToRadix16()
	acc := verif.IntK(0)
	for i := 63; i >= 0; i-- {
		if i < 63 {
			verif.Assert(d[i] >= -8 && d[i] < 8, "digits 0..62 in [-8, 8)")
		} else {
			verif.Assert(d[i] >= -8 && d[i] <= 8, "digit 63 in [-8, 8]")
		}
		acc = acc.Shl(4).Add(verif.IntOfI8(d[i]))
	}
	verif.Assert(acc.Eq(sval(s)), "sum d[i]*16^i == le(s)")
}

// ---------------- signed radix 2^w, w = 6, 7, 8 ----------------

//verif:ob prop=C17,C03 name=ToRadix2w mode=int tags=purego split=w:6..8
func vh_ToRadix2w() {
	w := verif.Case("w")
	s := anyScalar("s")
	verif.Assume(s.inner[31] < 128)
	d := s.ToRadix2w(uint(w))
	hint := int(ToRadix2wSizeHint(uint(w)))
	half := int8(-128)
	if w < 8 {
		half = -(1 << uint(w-1))
	}
	acc := verif.IntK(0)
	for i := 42; i >= 0; i-- {
		if i >= hint {
			verif.Assert(d[i] == 0, "nothing at or beyond the size hint")
			continue
		}
		switch {
		case w == 8 && i == hint-1:
			verif.Assert(d[i] == 0 || d[i] == 1, "w=8: the terminal carry sits alone in the extra digit")
		case w < 8 && i == hint-1:
			verif.Assert(d[i] >= half, "last digit: lower bound (the carry is folded in without leaving int8)")
		default:
			verif.Assert(d[i] >= half && (w == 8 || d[i] < -half), "digit in [-2^(w-1), 2^(w-1))")
		}
		acc = acc.Shl(w).Add(verif.IntOfI8(d[i]))
	}
	verif.Assert(acc.Eq(sval(s)), "sum d[i]*2^(w*i) == le(s)")
}

//verif:ob prop=C17,C19 name=ToRadix2w_bad_width mode=bv tags=purego split=w:0..5+9..10 allowpanic=invalid_radix|invalid.radix noreach
func vh_ToRadix2w_badw() {
	s := anyScalar("s")
	_ = s.ToRadix2w(uint(verif.Case("w")))
	verif.Unreachable("ToRadix2w with w outside 6..8 must panic (documented)")
}

// ---------------- width-w NAF, w = 2..8: one inductive step of the real loop ----------------

func nafX(x *[5]uint64) verif.Int {
	v := verif.IntOf(x[4])
	for i := 3; i >= 0; i-- {
		v = v.Shl(64).Add(verif.IntOf(x[i]))
	}
	return v
}

// value invariant:  sum_{i<pos} naf[i]*2^i + carry*2^pos == X mod 2^pos,  naf[i] == 0 for i >= pos,  X < 2^255.
func inv_naf_value(pos uint, carry uint64, naf *[256]int8, x *[5]uint64, w uint) bool {
	if pos > 256+8 {
		return false
	}
	ok := carry <= 1 && x[4] == 0 && x[3] < 1<<63
	acc := verif.IntK(0)
	for i := 255; i >= 0; i-- {
		if uint(i) >= pos {
			ok = ok && naf[i] == 0
		} else {
			acc = acc.Add(verif.IntOfI8(naf[i]).Shl(i))
		}
	}
	X := nafX(x)
	lhs := acc.Add(verif.IntOf(carry).Shl(int(pos)))
	rhs := X.Sub(X.Div(verif.Pow2(int(pos))).Shl(int(pos)))
	// beyond the top of the scalar there is nothing left to carry
	if pos >= 256 {
		ok = ok && carry == 0
	}
	return ok && lhs.Eq(rhs)
}

func post_naf_value(pos uint, carry uint64, naf *[256]int8, x *[5]uint64) bool {
	acc := verif.IntK(0)
	for i := 255; i >= 0; i-- {
		acc = acc.Add(verif.IntOfI8(naf[i]).Shl(i))
	}
	return acc.Eq(nafX(x))
}

//verif:ob prop=C17,C03 name=NAF_value_step mode=int tags=purego cut=(*curve/scalar.Scalar).NonAdjacentForm:1 inv=inv_naf_value post=post_naf_value cutfix=pos split=w:2..8;pos:0..3+60..66+124..130+188..194+245..263 tsplit=w:2..8;pos:0..263
func vh_naf_value() {
	s := anyScalar("s")
	verif.Assume(s.inner[31] < 128)
	w := verif.Case("w")
	naf := s.NonAdjacentForm(uint(w))
	// not reached by the engine (the run stops at the cut); this is the end-to-end statement that a
	// natively replayed counterexample must violate
	nafEndToEnd(s, &naf, w)
}

func nafEndToEnd(s *Scalar, naf *[256]int8, w int) {
	acc := verif.IntK(0)
	last := -1000
	for i := 0; i < 256; i++ {
		d := int(naf[i])
		if d == 0 {
			continue
		}
		verif.Assert(d&1 == 1 && d < 1<<uint(w-1) && d > -(1<<uint(w-1)), "non-zero NAF digits are odd and below 2^(w-1) in magnitude")
		verif.Assert(i-last >= w, "non-zero NAF digits are at least w positions apart")
		last = i
		acc = acc.Add(verif.IntOfI8(naf[i]).Shl(i))
	}
	verif.Assert(acc.Eq(sval(s)), "sum naf[i]*2^i == le(s)")
}

// shape invariant: every non-zero digit written so far is odd, below 2^(w-1) in magnitude, followed by w-1 zeros;
// nothing at or beyond pos.
func inv_naf_shape(pos uint, carry uint64, naf *[256]int8, w uint) bool {
	if pos > 256+8 {
		return false
	}
	ok := carry <= 1
	lim := int8(127)
	if w < 8 {
		lim = 1<<(w-1) - 1
	}
	for i := 0; i < 256; i++ {
		if uint(i) >= pos {
			ok = ok && naf[i] == 0
			continue
		}
		if pos-uint(i) < w {
			ok = ok && naf[i] == 0 // a digit is followed by w-1 zeros before the cursor moves on
			continue
		}
		good := naf[i]&1 == 1 && naf[i] <= lim && naf[i] >= -lim
		for j := 1; j < int(w) && i+j < 256; j++ {
			good = good && naf[i+j] == 0
		}
		ok = ok && (naf[i] == 0 || good)
	}
	return ok
}

//verif:ob prop=C17,C03 name=NAF_shape_step mode=bv tags=purego cut=(*curve/scalar.Scalar).NonAdjacentForm:1 inv=inv_naf_shape post=inv_naf_shape cutfix=pos split=w:2..8;pos:0..3+60..66+124..130+188..194+245..263 tsplit=w:2..8;pos:0..263
func vh_naf_shape() {
	s := anyScalar("s")
	verif.Assume(s.inner[31] < 128)
	w := verif.Case("w")
	naf := s.NonAdjacentForm(uint(w))
	nafEndToEnd(s, &naf, w)
}

//verif:ob prop=C17,C19 name=NAF_bad_width mode=bv tags=purego split=w:0..1+9..10 allowpanic=invalid_width|invalid.width noreach
func vh_naf_badw() {
	s := anyScalar("s")
	_ = s.NonAdjacentForm(uint(verif.Case("w")))
	verif.Unreachable("NonAdjacentForm with w outside 2..8 must panic (documented)")
}

//go:build verif

package scalar

import "github.com/oasisprotocol/curve25519-voi/internal/verif"

// API level: every 32-byte string (all 256 bits) is a legal operand; results are the canonical representative.

func anyScalar(name string) *Scalar {
	var s Scalar
	verif.AnyBytes(name, s.inner[:])
	return &s
}

func sval(s *Scalar) verif.Int { return verif.IntLE(s.inner[:]) }

func canonicalResult(s *Scalar, want verif.Int, what string) {
	verif.Assert(sval(s).Lt(fL()), what+": result < L")
	verif.Assert(verif.ModEq(sval(s), want, fL()), what+": result ≡ expected (mod L)")
}

//verif:ob prop=C05 name=Scalar_Mul mode=int tags=purego,force32bit use=sc
func vh_ScalarMul() {
	a, b := anyScalar("a"), anyScalar("b")
	var s Scalar
	s.Mul(a, b)
	canonicalResult(&s, sval(a).Mul(sval(b)), "Mul")
}

//verif:ob prop=C05 name=Scalar_Add mode=int tags=purego,force32bit use=sc
func vh_ScalarAdd() {
	a, b := anyScalar("a"), anyScalar("b")
	verif.Assume(a.inner[31] < 128 && b.inner[31] < 128) // 255-bit operands, as the property states
	var s Scalar
	s.Add(a, b)
	canonicalResult(&s, sval(a).Add(sval(b)), "Add")
}

//verif:ob prop=C05 name=Scalar_Sub mode=int tags=purego,force32bit use=sc
func vh_ScalarSub() {
	a, b := anyScalar("a"), anyScalar("b")
	var s Scalar
	s.Sub(a, b)
	canonicalResult(&s, sval(a).Sub(sval(b)), "Sub")
}

//verif:ob prop=C05 name=Scalar_Neg mode=int tags=purego,force32bit use=sc
func vh_ScalarNeg() {
	a := anyScalar("a")
	var s Scalar
	s.Neg(a)
	canonicalResult(&s, sval(a).Neg(), "Neg")
}

//verif:ob prop=C05 name=Scalar_Reduce mode=int tags=purego,force32bit use=sc
func vh_ScalarReduce() {
	a := anyScalar("a")
	var s Scalar
	s.Reduce(a)
	canonicalResult(&s, sval(a), "Reduce")
}

//verif:ob prop=C05,C02 name=SetBytesModOrderWide mode=int tags=purego,force32bit use=sc
func vh_SetBytesModOrderWide() {
	var in [64]byte
	verif.AnyBytes("in", in[:])
	var s Scalar
	_, err := s.SetBytesModOrderWide(in[:])
	verif.Assert(err == nil, "no error on 64 bytes")
	canonicalResult(&s, verif.IntLE(in[:]), "SetBytesModOrderWide")
}

//verif:ob prop=C05 name=SetBytesModOrder mode=int tags=purego,force32bit use=sc
func vh_SetBytesModOrder() {
	var in [32]byte
	verif.AnyBytes("in", in[:])
	var s Scalar
	_, err := s.SetBytesModOrder(in[:])
	verif.Assert(err == nil, "no error on 32 bytes")
	canonicalResult(&s, verif.IntLE(in[:]), "SetBytesModOrder")
}

// IsCanonical / SetCanonicalBytes accept exactly the strings whose value is below L.
//
//verif:contract for=(*curve/scalar.Scalar).IsCanonical group=scapi
func ct_IsCanonical(s *Scalar) bool {
	v := sval(s)
	var r bool
	if verif.Real() {
		r = s.IsCanonical()
	} else {
		r = verif.FreshBool()
	}
	verif.Ensures(r == v.Lt(fL()), "IsCanonical(s) == (le(s) < L)")
	return r
}

//verif:ob prop=C05 name=IsCanonical mode=int tags=purego,force32bit use=sc prove=ct_IsCanonical
func vh_IsCanonical() {
	a := anyScalar("a")
	ct_IsCanonical(a)
}

//verif:ob prop=C05,C12,C15 name=SetCanonicalBytes mode=int tags=purego,force32bit use=ct_IsCanonical
func vh_SetCanonicalBytes() {
	var in [32]byte
	verif.AnyBytes("in", in[:])
	var s Scalar
	verif.AnyBytes("old", s.inner[:])
	old := s
	r, err := s.SetCanonicalBytes(in[:])
	ok := verif.IntLE(in[:]).Lt(fL())
	verif.Assert((err == nil) == ok, "accepted iff le(in) < L")
	if err == nil {
		verif.Assert(r == &s && sval(&s).Eq(verif.IntLE(in[:])), "value stored")
	} else {
		verif.Assert(r == nil && s.inner == old.inner, "receiver untouched on rejection")
	}
}

//go:build verif

package scalar

import "github.com/oasisprotocol/curve25519-voi/internal/verif"

// C19: byte-taking scalar entry points on every length 0..66: error (never a panic) for the wrong length,
// receiver untouched on rejection.

//verif:ob prop=C19,C05 name=scalar_decoders_all_lengths mode=bv tags=purego use=gapi split=n:0..66
func vh_C19_scalar() {
	n := verif.Case("n")
	in := make([]byte, n)
	verif.AnyBytes("in", in)
	var s Scalar
	verif.AnyBytes("old", s.inner[:])
	old := s

	r1, e1 := s.SetBytesModOrder(in)
	verif.Assert((e1 == nil) == (n == 32) && (r1 == nil) == (e1 != nil), "SetBytesModOrder: error iff len != 32")
	if e1 != nil {
		verif.Assert(s.inner == old.inner, "receiver untouched")
	}
	s = old
	r2, e2 := s.SetBytesModOrderWide(in)
	verif.Assert((e2 == nil) == (n == 64) && (r2 == nil) == (e2 != nil), "SetBytesModOrderWide: error iff len != 64")
	if e2 != nil {
		verif.Assert(s.inner == old.inner, "receiver untouched")
	}
	s = old
	r3, e3 := s.SetBits(in)
	verif.Assert((e3 == nil) == (n == 32) && (r3 == nil) == (e3 != nil), "SetBits: error iff len != 32")
	if e3 != nil {
		verif.Assert(s.inner == old.inner, "receiver untouched")
	}
	s = old
	r4, e4 := s.SetCanonicalBytes(in)
	if n != 32 {
		verif.Assert(e4 != nil && r4 == nil && s.inner == old.inner, "SetCanonicalBytes: wrong length is an error, receiver untouched")
	}
	s = old
	e5 := s.UnmarshalBinary(in)
	if n != 32 {
		verif.Assert(e5 != nil && s.inner == old.inner, "UnmarshalBinary: wrong length is an error, receiver untouched")
	}
	var out Scalar
	e6 := out.ToBytes(in)
	verif.Assert((e6 == nil) == (n == 32), "ToBytes: error iff len(out) != 32")
}

// ScMinimalVartime is exported and takes a slice: inputs shorter than 32 bytes.
//
//verif:ob prop=C19 name=ScMinimalVartime_short_input mode=bv tags=purego split=n:0..33
func vh_C19_scminimal() {
	in := make([]byte, verif.Case("n"))
	verif.AnyBytes("in", in)
	_ = ScMinimalVartime(in)
}

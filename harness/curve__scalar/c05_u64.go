//go:build verif && (amd64 || arm64 || ppc64le || ppc64 || s390x || force64bit) && !force32bit

package scalar

import "github.com/oasisprotocol/curve25519-voi/internal/verif"

func val52(s *unpackedScalar) verif.Int {
	v := verif.IntOf(s[4])
	for i := 3; i >= 0; i-- {
		v = v.Shl(52).Add(verif.IntOf(s[i]))
	}
	return v
}

// value of the 9 (hi,lo) column pairs of the schoolbook product
func valCols(z *[18]uint64) verif.Int {
	v := verif.IntK(0)
	for k := 8; k >= 0; k-- {
		col := verif.IntOf(z[2*k+1]).Shl(64).Add(verif.IntOf(z[2*k]))
		v = v.Shl(52).Add(col)
	}
	return v
}

func limbs52(s *unpackedScalar) bool {
	ok := true
	for i := 0; i < 5; i++ {
		ok = ok && s[i] < 1<<52
	}
	return ok
}

func anyUnpacked(name string) *unpackedScalar {
	var s unpackedScalar
	verif.AnyU64s(name, s[:])
	return &s
}

const montBits = 260 // R = 2^260

//verif:contract for=(*curve/scalar.unpackedScalar).SetBytes group=sc
func ct_unpack(s *unpackedScalar, in []byte) *unpackedScalar {
	verif.Requires(len(in) == 32, "len(in) == 32")
	v := verif.IntLE(in)
	if verif.Real() {
		s.SetBytes(in)
	}
	verif.Havoc(s)
	verif.Ensures(limbs52(s) && s[4] < 1<<48, "limbs < 2^52, top limb < 2^48")
	verif.Ensures(val52(s).Eq(v), "value = le(in) (all 256 bits)")
	return s
}

//verif:ob prop=C05,C06 name=unpack mode=int tags=purego prove=ct_unpack
func vh_unpack() {
	var in [32]byte
	verif.AnyBytes("in", in[:])
	var s unpackedScalar
	ct_unpack(&s, in[:])
}

//verif:contract for=(*curve/scalar.unpackedScalar).ToBytes group=sc
func ct_pack(s *unpackedScalar, out []byte) {
	verif.Requires(len(out) == 32, "len(out) == 32")
	verif.Requires(limbs52(s) && s[4] < 1<<48, "limbs < 2^52, top limb < 2^48")
	v := val52(s)
	if verif.Real() {
		s.ToBytes(out)
	}
	verif.Havoc(out)
	verif.Ensures(verif.IntLE(out).Eq(v), "le(out) = value")
}

//verif:ob prop=C05,C06 name=pack mode=int tags=purego prove=ct_pack
func vh_pack() {
	s := anyUnpacked("s")
	var out [32]byte
	ct_pack(s, out[:])
}

// Sub: a - b, plus L when a < b (the borrow mask trick), modulo 2^260.
//
//verif:contract for=(*curve/scalar.unpackedScalar).Sub group=sc
func ct_Sub(s, a, b *unpackedScalar) *unpackedScalar {
	verif.Requires(limbs52(a) && limbs52(b), "limbs < 2^52")
	va, vb := val52(a), val52(b)
	if verif.Real() {
		s.Sub(a, b)
	}
	verif.Havoc(s)
	verif.Ensures(limbs52(s), "limbs < 2^52")
	d := va.Sub(vb).Add(verif.IteInt(va.Lt(vb), fL(), verif.IntK(0)))
	verif.Ensures(val52(s).Eq(d.Mod(verif.Pow2(260))), "value = a - b + [a<b]*L (mod 2^260)")
	return s
}

func fL() verif.Int {
	return verif.IntLit("0x1000000000000000000000000000000014def9dea2f79cd65812631a5cf5d3ed")
}

//verif:ob prop=C05,C06 name=unpacked_Sub mode=int tags=purego prove=ct_Sub
func vh_Sub() {
	a, b := anyUnpacked("a"), anyUnpacked("b")
	var s unpackedScalar
	ct_Sub(&s, a, b)
}

//verif:ob prop=C05,C06 name=unpacked_Sub_aliased mode=int tags=purego prove=ct_Sub
func vh_Sub_alias() {
	a, b := anyUnpacked("a"), anyUnpacked("b")
	ct_Sub(a, a, b)
}

//verif:contract for=(*curve/scalar.unpackedScalar).Add group=sc
func ct_Add(s, a, b *unpackedScalar) *unpackedScalar {
	verif.Requires(limbs52(a) && limbs52(b), "limbs < 2^52")
	va, vb := val52(a), val52(b)
	verif.Requires(va.Add(vb).Lt(verif.Pow2(260)), "a + b < 2^260")
	if verif.Real() {
		s.Add(a, b)
	}
	verif.Havoc(s)
	verif.Ensures(limbs52(s), "limbs < 2^52")
	sum := va.Add(vb)
	verif.Ensures(val52(s).Eq(sum.Sub(verif.IteInt(sum.Lt(fL()), verif.IntK(0), fL()))), "value = a + b - [a+b>=L]*L")
	return s
}

//verif:ob prop=C05,C06 name=unpacked_Add mode=int tags=purego prove=ct_Add use=ct_Sub
func vh_Add() {
	a, b := anyUnpacked("a"), anyUnpacked("b")
	var s unpackedScalar
	ct_Add(&s, a, b)
}


//verif:contract for=curve/scalar.scalarMulInternal group=sc
func ct_mulInternal(a, b *unpackedScalar) [18]uint64 {
	verif.Requires(limbs52(a) && limbs52(b), "limbs < 2^52")
	va, vb := val52(a), val52(b)
	var z [18]uint64
	if verif.Real() {
		z = scalarMulInternal(a, b)
	} else {
		verif.Havoc(&z)
	}
	colsOK(&z)
	verif.Ensures(valCols(&z).Eq(va.Mul(vb)), "columns sum to a*b exactly")
	return z
}

// every column is below 5 * 2^104 (so that Montgomery reduction's 128-bit accumulators do not wrap)
func colsOK(z *[18]uint64) {
	ok := true
	for k := 0; k < 9; k++ {
		ok = ok && z[2*k+1] < 5<<40
	}
	verif.Ensures(ok, "column high words < 5*2^40")
}

//verif:ob prop=C05,C06 name=scalarMulInternal mode=int tags=purego prove=ct_mulInternal
func vh_mulInternal() {
	a, b := anyUnpacked("a"), anyUnpacked("b")
	ct_mulInternal(a, b)
}

//verif:contract for=(*curve/scalar.unpackedScalar).squareInternal group=sc
func ct_squareInternal(s *unpackedScalar) [18]uint64 {
	verif.Requires(limbs52(s), "limbs < 2^52")
	v := val52(s)
	var z [18]uint64
	if verif.Real() {
		z = s.squareInternal()
	} else {
		verif.Havoc(&z)
	}
	colsOK(&z)
	verif.Ensures(valCols(&z).Eq(v.Mul(v)), "columns sum to s^2 exactly")
	return z
}

//verif:ob prop=C05,C06 name=squareInternal mode=int tags=purego prove=ct_squareInternal
func vh_squareInternal() {
	s := anyUnpacked("s")
	ct_squareInternal(s)
}

// Montgomery reduction: out * 2^260 ≡ Z (mod L), out canonical, for every column vector with Z < 2^260 * L.
//
//verif:contract for=(*curve/scalar.unpackedScalar).MontgomeryReduce group=sc
func ct_MontgomeryReduce(s *unpackedScalar, limbs *[18]uint64) *unpackedScalar {
	ok := true
	for k := 0; k < 9; k++ {
		ok = ok && limbs[2*k+1] < 5<<40
	}
	verif.Requires(ok, "column high words < 5*2^40")
	z := valCols(limbs)
	verif.Requires(z.Lt(fL().Shl(montBits)), "Z < R*L")
	if verif.Real() {
		s.MontgomeryReduce(limbs)
	}
	verif.Havoc(s)
	verif.Ensures(limbs52(s), "limbs < 2^52")
	verif.Ensures(val52(s).Lt(fL()), "result < L (canonical)")
	verif.Ensures(verif.ModEq(val52(s).Shl(montBits), z, fL()), "result * R ≡ Z (mod L)")
	return s
}

//verif:ob prop=C05,C06 name=MontgomeryReduce mode=int tags=purego prove=ct_MontgomeryReduce use=ct_Sub timeout=300
func vh_MontgomeryReduce() {
	var limbs [18]uint64
	verif.AnyU64s("z", limbs[:])
	var s unpackedScalar
	ct_MontgomeryReduce(&s, &limbs)
}

func unpackedOK(s *unpackedScalar) bool { return limbs52(s) && s[4] < 1<<48 }

func valU(s *unpackedScalar) verif.Int { return val52(s) }

//verif:contract for=(*curve/scalar.unpackedScalar).MontgomeryMul group=scmul
func ct_MontgomeryMul(s, a, b *unpackedScalar) *unpackedScalar {
	verif.Requires(unpackedOK(a) && unpackedOK(b), "operands are 256-bit values in 52-bit limbs")
	va, vb := val52(a), val52(b)
	if verif.Real() {
		s.MontgomeryMul(a, b)
	}
	verif.Havoc(s)
	verif.Ensures(limbs52(s) && val52(s).Lt(fL()), "result canonical (< L)")
	verif.Ensures(verif.ModEq(val52(s).Shl(montBits), va.Mul(vb), fL()), "result * R ≡ a*b (mod L)")
	return s
}

//verif:ob prop=C05,C06 name=MontgomeryMul mode=int tags=purego prove=ct_MontgomeryMul use=ct_mulInternal,ct_MontgomeryReduce
func vh_MontgomeryMul() {
	a, b := anyUnpacked("a"), anyUnpacked("b")
	ct_MontgomeryMul(a, a, b)
}

//verif:contract for=(*curve/scalar.unpackedScalar).MontgomerySquare group=scmul
func ct_MontgomerySquare(s, a *unpackedScalar) *unpackedScalar {
	verif.Requires(unpackedOK(a), "operand is a 256-bit value in 52-bit limbs")
	va := val52(a)
	if verif.Real() {
		s.MontgomerySquare(a)
	}
	verif.Havoc(s)
	verif.Ensures(limbs52(s) && val52(s).Lt(fL()), "result canonical (< L)")
	verif.Ensures(verif.ModEq(val52(s).Shl(montBits), va.Mul(va), fL()), "result * R ≡ a^2 (mod L)")
	return s
}

//verif:ob prop=C05,C06 name=MontgomerySquare mode=int tags=purego prove=ct_MontgomerySquare use=ct_squareInternal,ct_MontgomeryReduce
func vh_MontgomerySquare() {
	a := anyUnpacked("a")
	ct_MontgomerySquare(a, a)
}

//verif:contract for=(*curve/scalar.unpackedScalar).Mul group=scmul
func ct_unpackedMul(s, a, b *unpackedScalar) *unpackedScalar {
	verif.Requires(unpackedOK(a) && unpackedOK(b), "operands are 256-bit values in 52-bit limbs")
	va, vb := val52(a), val52(b)
	if verif.Real() {
		s.Mul(a, b)
	}
	verif.Havoc(s)
	verif.Ensures(limbs52(s) && val52(s).Lt(fL()), "result canonical (< L)")
	verif.Ensures(verif.ModEq(val52(s), va.Mul(vb), fL()), "result ≡ a*b (mod L)")
	return s
}

//verif:ob prop=C05,C06 name=unpacked_Mul mode=int tags=purego prove=ct_unpackedMul use=ct_mulInternal,ct_MontgomeryReduce
func vh_unpackedMul() {
	a, b := anyUnpacked("a"), anyUnpacked("b")
	ct_unpackedMul(a, a, b)
}

//verif:ob prop=C05,C06 name=unpacked_Square mode=int tags=purego use=ct_mulInternal,ct_squareInternal,ct_MontgomeryReduce
func vh_unpackedSquare() {
	a := anyUnpacked("a")
	verif.Assume(unpackedOK(a))
	va := val52(a)
	var s unpackedScalar
	s.Square(a)
	verif.Assert(limbs52(&s) && val52(&s).Lt(fL()), "result canonical (< L)")
	verif.Assert(verif.ModEq(val52(&s), va.Mul(va), fL()), "result ≡ a^2 (mod L)")
}

//verif:ob prop=C05,C06 name=To_From_Montgomery mode=int tags=purego use=ct_mulInternal,ct_MontgomeryReduce
func vh_toFromMontgomery() {
	a := anyUnpacked("a")
	verif.Assume(unpackedOK(a))
	va := val52(a)
	var m, r unpackedScalar
	m.ToMontgomery(a)
	verif.Assert(val52(&m).Lt(fL()) && verif.ModEq(val52(&m), va.Shl(montBits), fL()), "ToMontgomery(a) = a*R mod L")
	r.FromMontgomery(&m)
	verif.Assert(val52(&r).Lt(fL()) && verif.ModEq(val52(&r), va, fL()), "FromMontgomery(ToMontgomery(a)) = a mod L")
}

// exponent arithmetic for the addition-chain obligation (c05_more.go): the limbs hold an EXPONENT in radix 2^52
func expAdd(s, a, b *unpackedScalar) {
	var carry uint64
	for i := 0; i < 5; i++ {
		t := a[i] + b[i] + carry
		s[i] = t & (1<<52 - 1)
		carry = t >> 52
	}
}

// ---- "log domain" helpers (c05_more.go): every limb holds one coordinate of an exponent vector mod 2^48 ----
const lgN = 5 // limbs; limb 0 is not read (the constant One lands there), limbs 1..3 are generators, limb 4 counts R
const lgMask = 1<<48 - 1

func lgLin(s, a, b *unpackedScalar, ca, cb, dR int64) {
	var r unpackedScalar
	for i := 0; i < lgN; i++ {
		var bi uint64
		if b != nil {
			bi = b[i]
		}
		r[i] = (uint64(ca)*a[i] + uint64(cb)*bi) & lgMask
	}
	r[lgN-1] = (r[lgN-1] + uint64(dR)) & lgMask
	*s = r
}

func lgCoord(s *unpackedScalar, i int) int64 {
	v := s[i] & lgMask
	if v >= 1<<47 {
		return int64(v) - 1<<48
	}
	return int64(v)
}

//go:build verif

package scalar

import "github.com/oasisprotocol/curve25519-voi/internal/verif"

//verif:ob prop=C08,C18 name=ct_scalar_arithmetic mode=bv tags=purego,force32bit ct=1 sharedro=1
func vh_C08_scalar() {
	verif.Secret("a")
	verif.Secret("b")
	verif.Secret("w")
	a, b := anyScalar("a"), anyScalar("b")
	var r Scalar
	r.Mul(a, b)
	r.Add(a, b)
	r.Sub(a, b)
	r.Neg(a)
	r.Reduce(a)
	_ = a.Equal(b)
	_ = a.ToRadix16()
	_ = a.Bits()
	var w [64]byte
	verif.AnyBytes("w", w[:])
	_, _ = r.SetBytesModOrderWide(w[:])
	_, _ = r.SetBytesModOrder(w[:32])
	_, _ = r.SetBits(w[:32])
	choice := verif.AnyInt("choice")
	verif.Assume(choice == 0 || choice == 1)
	r.ConditionalSelect(a, b, choice)
}

//go:build verif

package scalar

import "github.com/oasisprotocol/curve25519-voi/internal/verif"

const hexL = "1000000000000000000000000000000014def9dea2f79cd65812631a5cf5d3ed"

// ScMinimalVartime accepts a 32-byte string exactly when its little-endian value is below L.
//
//verif:ob prop=C05,C01,C12,C15 name=ScMinimalVartime_iff_below_L mode=bv tags=purego,force32bit
func vh_ScMinimal() {
	var s [32]byte
	verif.AnyBytes("s", s[:])
	got := ScMinimalVartime(s[:])
	want := verif.BVLE(s[:]).ULT(verif.BVHex(hexL, 256))
	verif.Assert(got == want, "ScMinimalVartime(s) == (le(s) < L)")
}

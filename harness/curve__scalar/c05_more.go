//go:build verif

package scalar

import "github.com/oasisprotocol/curve25519-voi/internal/verif"

// ---- inversion: the addition chain of MontgomeryInvert, read in the exponent ----
//
// In the Montgomery domain x = a^e * R. MontgomeryMul(x, y) = x*y/R = a^(e+f) * R and MontgomerySquare doubles
// (contracts ct_MontgomeryMul / ct_MontgomerySquare, proved against the real code). For this obligation the
// two operations are therefore replaced by ADDITION OF EXPONENTS, the exponent being held in the limbs; the chain
// starts from exponent 1 and must end at L - 2 (Fermat: a^(L-2) = 1/a for a != 0, L prime - trusted).

//verif:contract for=(*curve/scalar.unpackedScalar).MontgomeryMul group=sx
func sx_MontgomeryMul(s, a, b *unpackedScalar) *unpackedScalar {
	var r unpackedScalar
	expAdd(&r, a, b)
	*s = r
	return s
}

//verif:contract for=(*curve/scalar.unpackedScalar).MontgomerySquare group=sx
func sx_MontgomerySquare(s, a *unpackedScalar) *unpackedScalar {
	var r unpackedScalar
	expAdd(&r, a, a)
	*s = r
	return s
}

//verif:ob prop=C05,C06 name=MontgomeryInvert_addition_chain mode=int tags=purego,force32bit use=sx
func vh_MontgomeryInvert_chain() {
	var s unpackedScalar
	s[0] = 1
	s.MontgomeryInvert()
	verif.Assert(valU(&s).Eq(fL().Sub(verif.IntK(2))), "MontgomeryInvert raises to the power L - 2 (the exponent of the whole chain)")
}

// ---- Sum / Product ----

//verif:contract for=(*curve/scalar.Scalar).Mul group=scop
func ct_ScalarMul(s, a, b *Scalar) *Scalar {
	va, vb := sval(a), sval(b)
	if verif.Real() {
		s.Mul(a, b)
	}
	verif.Havoc(s)
	verif.Ensures(sval(s).Lt(fL()) && verif.ModEq(sval(s), va.Mul(vb), fL()), "Mul: canonical a*b mod L")
	return s
}

//verif:contract for=(*curve/scalar.Scalar).Add group=scop
func ct_ScalarAdd(s, a, b *Scalar) *Scalar {
	va, vb := sval(a), sval(b)
	if verif.Real() {
		s.Add(a, b)
	}
	verif.Havoc(s)
	verif.Ensures(sval(s).Lt(fL()) && verif.ModEq(sval(s), va.Add(vb), fL()), "Add: canonical a+b mod L")
	return s
}

//verif:ob prop=C05 name=Scalar_Mul_Add_contracts mode=int tags=purego,force32bit use=sc split=op:0..2
func vh_ScalarMulAdd_contracts() {
	a, b := anyScalar("a"), anyScalar("b")
	switch verif.Case("op") {
	case 0:
		var s Scalar
		va, vb := sval(a), sval(b)
		r := s.Mul(a, b)
		verif.Assert(r == &s && sval(&s).Lt(fL()) && verif.ModEq(sval(&s), va.Mul(vb), fL()), "Mul: canonical a*b mod L (all 256-bit operands)")
	case 1:
		var s Scalar
		va, vb := sval(a), sval(b)
		r := s.Add(a, b)
		verif.Assert(r == &s && sval(&s).Lt(fL()) && verif.ModEq(sval(&s), va.Add(vb), fL()), "Add: canonical a+b mod L (all 256-bit operands)")
	default:
		va, vb := sval(a), sval(b)
		a.Add(a, b) // receiver = first operand, as Sum uses it
		verif.Assert(sval(a).Lt(fL()) && verif.ModEq(sval(a), va.Add(vb), fL()), "Add (aliased receiver): canonical a+b mod L")
	}
}

//verif:ob prop=C05 name=Scalar_Sum mode=int tags=purego,force32bit use=scop split=n:0..3+40;al:0..1
func vh_ScalarSum() {
	n := verif.Case("n")
	vals := make([]*Scalar, n)
	want := verif.IntK(0)
	for i := 0; i < n; i++ {
		vals[i] = anyScalar("v" + string(rune('A'+i)))
		want = want.Add(sval(vals[i]))
	}
	s := anyScalar("s")
	if verif.Case("al") == 1 {
		if n > 0 {
			s = vals[n-1]
		}
	}
	r := s.Sum(vals)
	verif.Assert(r == s, "returns the receiver")
	canonicalResult(s, want, "Sum (all 256-bit addends, any number of them)")
}

//verif:ob prop=C05 name=Scalar_Product mode=int tags=purego,force32bit use=scop split=n:0..2;al:0..1 bound=n<=2_factors
func vh_ScalarProduct() {
	n := verif.Case("n")
	vals := make([]*Scalar, n)
	want := verif.IntK(1)
	for i := 0; i < n; i++ {
		vals[i] = anyScalar("v" + string(rune('A'+i)))
		want = want.Mul(sval(vals[i]))
	}
	s := anyScalar("s")
	if verif.Case("al") == 1 {
		if n > 0 {
			s = vals[0]
		}
	}
	r := s.Product(vals)
	verif.Assert(r == s, "returns the receiver")
	canonicalResult(s, want, "Product")
}

// ---- Invert and BatchInvert in the LOG DOMAIN ----
//
// The non-zero residues mod L form a group; write every value as a formal product g1^e1 * g2^e2 * g3^e3 * R^eR. The
// proved contracts say: ToMontgomery multiplies by R, MontgomeryMul(a, b) = a*b/R, MontgomerySquare(a) = a*a/R,
// FromMontgomery divides by R, MontgomeryInvert maps x*R to x^-1*R, i.e. m to R^2/m (Fermat and the exponent
// L - 2: the addition-chain obligation). For this obligation the five operations are replaced by exactly those maps on
// exponent vectors, one coordinate per limb (mod 2^48 resp. 2^24: a ring homomorphism, the true exponents are tiny);
// unpack, pack, Set, One and all the surrounding code run for real. An identity between exponent vectors holds
// in every abelian group: the inputs g1, g2, g3 are arbitrary non-zero scalars. Every aliasing of receiver and
// inputs is a separate run.

//verif:contract for=(*curve/scalar.unpackedScalar).ToMontgomery group=slog
func lg_ToMontgomery(s, a *unpackedScalar) *unpackedScalar { lgLin(s, a, nil, 1, 0, 1); return s }

//verif:contract for=(*curve/scalar.unpackedScalar).FromMontgomery group=slog
func lg_FromMontgomery(s, a *unpackedScalar) *unpackedScalar { lgLin(s, a, nil, 1, 0, -1); return s }

//verif:contract for=(*curve/scalar.unpackedScalar).MontgomeryMul group=slog
func lg_MontgomeryMul(s, a, b *unpackedScalar) *unpackedScalar { lgLin(s, a, b, 1, 1, -1); return s }

//verif:contract for=(*curve/scalar.unpackedScalar).MontgomerySquare group=slog
func lg_MontgomerySquare(s, a *unpackedScalar) *unpackedScalar { lgLin(s, a, nil, 2, 0, -1); return s }

//verif:contract for=(*curve/scalar.unpackedScalar).MontgomeryInvert group=slog
func lg_MontgomeryInvert(s *unpackedScalar) { lgLin(s, s, nil, -1, 0, 2) }

//verif:contract for=(*curve/scalar.unpackedScalar).Mul group=slog
func lg_Mul(s, a, b *unpackedScalar) *unpackedScalar { lgLin(s, a, b, 1, 1, 0); return s }

func lgGen(i int) *Scalar {
	var u unpackedScalar
	u[i] = 1
	return New().pack(&u)
}

// lgIs: s is g1^e1 * g2^e2 * g3^e3 with no stray power of R
func lgIs(s *Scalar, e1, e2, e3 int64) bool {
	u := s.unpack()
	return lgCoord(u, 1) == e1 && lgCoord(u, 2) == e2 && lgCoord(u, 3) == e3 && lgCoord(u, lgN-1) == 0
}

//verif:ob prop=C05 name=Scalar_Invert_BatchInvert_log_domain mode=int tags=purego,force32bit use=slog split=n:0..3;al:0..3
func vh_ScalarBatchInvert_log() {
	n, al := verif.Case("n"), verif.Case("al")
	if al > n {
		al = 0
	}
	vals := make([]*Scalar, n)
	for i := 0; i < n; i++ {
		vals[i] = lgGen(i + 1)
	}
	s := New()
	if al > 0 {
		s = vals[al-1] // the receiver is one of the inputs
	}
	r := s.BatchInvert(vals)
	verif.Assert(r == s, "returns the receiver")
	want := [3]int64{}
	for i := 0; i < n; i++ {
		want[i] = -1
		if al-1 == i {
			continue // overwritten by the returned product of inverses
		}
		e := [3]int64{}
		e[i] = -1
		verif.Assert(lgIs(vals[i], e[0], e[1], e[2]), "every input is replaced by its inverse (also when the receiver is one of the inputs)")
	}
	verif.Assert(lgIs(s, want[0], want[1], want[2]), "the product of all inverses is returned")

	// Invert and Mul through the same reading
	g := lgGen(1)
	inv := New()
	q := inv.Invert(g)
	verif.Assert(q == inv && lgIs(inv, -1, 0, 0) && lgIs(g, 1, 0, 0), "Invert(g) = g^-1, operand untouched")
	g.Invert(g)
	verif.Assert(lgIs(g, -1, 0, 0), "Invert with the receiver as operand")
	h := lgGen(2)
	h.Mul(h, inv)
	verif.Assert(lgIs(h, -1, 1, 0), "Mul multiplies")
}

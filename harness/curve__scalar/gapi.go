//go:build verif

package scalar

import "github.com/oasisprotocol/curve25519-voi/internal/verif"

// Scalar-API abstraction for the protocol layer (group "gapi"): reductions are uninterpreted functions of the
// input bytes (their exactness is C05); results are canonical 32-byte strings.

func GReduce32(in []byte) verif.BV { return verif.UFBV("sc_reduce32", 256, verif.BVLE(in)) }
func GReduce64(in []byte) verif.BV { return verif.UFBV("sc_reduce64", 256, verif.BVLE(in)) }
func GMul(a, b verif.BV) verif.BV  { return verif.UFBV("sc_mul", 256, a, b) }
func GAdd(a, b verif.BV) verif.BV  { return verif.UFBV("sc_add", 256, a, b) }

func bval(s *Scalar) verif.BV { return verif.BVLE(s.inner[:]) }

func setScalarVal(s *Scalar, v verif.BV) { verif.BVToBytes(v, s.inner[:]) }

//verif:contract for=(*curve/scalar.Scalar).SetBytesModOrder group=gapi
func ga_SetBytesModOrder(s *Scalar, in []byte) (*Scalar, error) {
	if len(in) != ScalarSize {
		return nil, errUnexpectedInputSize
	}
	setScalarVal(s, GReduce32(in))
	return s, nil
}

//verif:contract for=(*curve/scalar.Scalar).SetBytesModOrderWide group=gapi
func ga_SetBytesModOrderWide(s *Scalar, in []byte) (*Scalar, error) {
	if len(in) != ScalarWideSize {
		return nil, errUnexpectedInputSize
	}
	setScalarVal(s, GReduce64(in))
	return s, nil
}

//verif:contract for=(*curve/scalar.Scalar).Mul group=gapi
func ga_ScMul(s, a, b *Scalar) *Scalar {
	v := GMul(bval(a), bval(b))
	setScalarVal(s, v)
	return s
}

//verif:contract for=(*curve/scalar.Scalar).Add group=gapi
func ga_ScAdd(s, a, b *Scalar) *Scalar {
	v := GAdd(bval(a), bval(b))
	setScalarVal(s, v)
	return s
}

// ScMinimalVartime is exact for all 2^256 strings (C05): at the protocol level it is the comparison itself.
//
//verif:contract for=curve/scalar.ScMinimalVartime group=gapi
func ga_ScMinimal(s []byte) bool {
	verif.Requires(len(s) >= 32, "ScMinimalVartime needs 32 bytes")
	return verif.BVLE(s[:32]).ULT(verif.BVHex(hexL, 256))
}

//verif:contract for=(*curve/scalar.Scalar).Neg group=gapi
func ga_ScNeg(s, t *Scalar) *Scalar {
	v := verif.UFBV("sc_neg", 256, bval(t))
	setScalarVal(s, v)
	return s
}

func GNegS(a verif.BV) verif.BV { return verif.UFBV("sc_neg", 256, a) }

// IsCanonical is exact (C05): at the protocol level it is the comparison itself.
//
//verif:contract for=(*curve/scalar.Scalar).IsCanonical group=gapi
func ga_IsCanonical(s *Scalar) bool {
	return bval(s).ULT(verif.BVHex(hexL, 256))
}

//go:build verif

package merlin

import (
	"github.com/oasisprotocol/curve25519-voi/internal/strobe"
	"github.com/oasisprotocol/curve25519-voi/internal/verif"
)

// Merlin v1.0 over STROBE (https://merlin.cool/transcript/ops.html):
//   new(label)            = STROBE-128 "Merlin v1.0"; AppendMessage("dom-sep", label)
//   AppendMessage(l, m)   = meta-AD(l); meta-AD(LE32(len m), more); AD(m)
//   ChallengeBytes(l, n)  = meta-AD(l); meta-AD(LE32(n), more); PRF(n)
//   rng: clone; RekeyWithWitness(l, w) = meta-AD(l); meta-AD(LE32(len w), more); KEY(w)
//        finalize = meta-AD("rng"); KEY(32 random bytes);  fill(n) = meta-AD(LE32(n)); PRF(n)
// The STROBE operations themselves are checked against the STROBE specification separately
// (STROBE_operation_vs_spec); here the framing is compared, Keccak uninterpreted.

func le32(n int) []byte { return []byte{byte(n), byte(n >> 8), byte(n >> 16), byte(n >> 24)} }

func refAppend(s *strobe.Strobe, label string, msg []byte) {
	s.MetaAD([]byte(label), false)
	s.MetaAD(le32(len(msg)), true)
	s.AD(msg, false)
}

//verif:ob prop=C13,C18 name=Merlin_history_vs_spec mode=bv tags=purego use=strobe.kf_keccak split=nl:0..2;nm:0..2+163..166;nd:0..1+32 sharedro=1
func vh_C13_merlin() {
	nl, nm, nd := verif.Case("nl"), verif.Case("nm"), verif.Case("nd")
	label := make([]byte, nl)
	verif.AnyBytes("label", label)
	msg := make([]byte, nm)
	verif.AnyBytes("msg", msg)

	t := NewTranscript(string(label))
	ref := strobe.New("Merlin v1.0")
	refAppend(&ref, "dom-sep", label)
	verif.Assert(t.s == ref, "NewTranscript(label) = STROBE(\"Merlin v1.0\") + AppendMessage(\"dom-sep\", label)")

	t.AppendMessage(string(label), msg)
	refAppend(&ref, string(label), msg)
	verif.Assert(t.s == ref, "AppendMessage framing")

	c := t.Clone()
	dest := make([]byte, nd)
	t.ExtractBytes(dest, "chal")
	rdest := make([]byte, nd)
	ref.MetaAD([]byte("chal"), false)
	ref.MetaAD(le32(nd), true)
	ref.PRF(rdest)
	same := true
	for i := range dest {
		same = same && dest[i] == rdest[i]
	}
	verif.Assert(t.s == ref && same, "ExtractBytes framing and output")

	// the clone did not move; identical histories give identical bytes
	dest2 := make([]byte, nd)
	c.ExtractBytes(dest2, "chal")
	same2 := true
	for i := range dest {
		same2 = same2 && dest[i] == dest2[i]
	}
	verif.Assert(c.s == ref && same2, "a clone continues from the state at the time of cloning and yields the same bytes for the same history")

	// witness RNG
	rb := t.BuildRng().RekeyWithWitnessBytes("wit", msg)
	rs := ref.Clone()
	rs.MetaAD([]byte("wit"), false)
	rs.MetaAD(le32(nm), true)
	rs.KEY(msg)
	verif.Assert(*rb.s == *rs && t.s == ref, "RekeyWithWitnessBytes framing on a clone; the transcript itself is untouched")
	rng, err := rb.Finalize(nil)
	if err != nil {
		verif.Assert(rng == nil, "entropy failure: no rng")
		return
	}
	ent := make([]byte, 32)
	verif.AnyBytes("rand#1", ent)
	rs.MetaAD([]byte("rng"), false)
	rs.KEY(ent)
	out := make([]byte, nd)
	n, err2 := rng.Read(out)
	rout := make([]byte, nd)
	rs.MetaAD(le32(nd), false)
	rs.PRF(rout)
	same3 := n == nd && err2 == nil
	for i := range out {
		same3 = same3 && out[i] == rout[i]
	}
	verif.Assert(same3, "transcript RNG output = meta-AD(LE32(n)); PRF(n) after rekeying with 32 bytes of entropy")
	// the fill operation is absorbed into the RNG state whatever its length (incl. 0): a later read depends on it
	tr, isT := rng.(*transcriptRng)
	verif.Assert(isT && *tr.s == *rs, "RNG state after Read(n) = state after meta-AD(LE32(n)); PRF(n), also for n = 0")
}

// VerifSameTranscript: identical STROBE states (for the harnesses of packages built on Merlin).
func VerifSameTranscript(a, b *Transcript) bool { return a.s == b.s }

package verif

import (
	"crypto"
	cryptorand "crypto/rand"
	"errors"
	"hash"
	"io"

	"golang.org/x/crypto/sha3"
)

// Environment stubs (always active): hash functions are uninterpreted functions of the byte string written
// so far (one symbol per total input length); randomness is an arbitrary byte string or an error.

type HashStub struct {
	name  string
	size  int
	bsize int
	log   []byte
}

func NewHashStub(name string, size, bsize int) *HashStub {
	return &HashStub{name: name, size: size, bsize: bsize}
}

func (h *HashStub) Write(p []byte) (int, error) {
	h.log = append(h.log, p...)
	return len(p), nil
}

func (h *HashStub) Sum(b []byte) []byte {
	out := make([]byte, h.size)
	UFBytes(h.name, out, h.log)
	return append(b, out...)
}

func (h *HashStub) Reset()         { h.log = nil }
func (h *HashStub) Size() int      { return h.size }
func (h *HashStub) BlockSize() int { return h.bsize }

// HashOf: the digest symbol for a complete input (what the reference models use).
func HashOf(name string, size int, data []byte) []byte {
	out := make([]byte, size)
	UFBytes(name, out, data)
	return out
}

//verif:stub for=crypto/sha512.New
func stubSha512New() hash.Hash { return NewHashStub("sha512", 64, 128) }

//verif:stub for=crypto/sha512.Sum512
func stubSum512(data []byte) [64]byte {
	var out [64]byte
	UFBytes("sha512", out[:], data)
	return out
}

//verif:stub for=crypto/sha512.Sum512_256
func stubSum512_256(data []byte) [32]byte {
	var out [32]byte
	UFBytes("sha512_256", out[:], data)
	return out
}

// io.ReadFull on an entropy source: arbitrary bytes, or an error (both outcomes explored).
var randCounter int

//verif:stub for=io.ReadFull
func stubReadFull(r io.Reader, buf []byte) (int, error) {
	if r != cryptorand.Reader {
		// a real reader (e.g. a transcript RNG): read through it
		n, err := r.Read(buf)
		if err == nil && n < len(buf) {
			err = errors.New("short read")
		}
		return n, err
	}
	randCounter++
	if AnyBool("rand.fail#" + itoa(randCounter)) {
		return 0, errors.New("entropy source failed")
	}
	AnyBytes("rand#"+itoa(randCounter), buf)
	return len(buf), nil
}

func itoa(n int) string {
	if n == 0 {
		return "0"
	}
	s := ""
	for n > 0 {
		s = string(rune('0'+n%10)) + s
		n /= 10
	}
	return s
}

// crypto.Hash registry (not initialised in the engine): digest/block sizes by identifier, New() = stub.
func hashParams(h crypto.Hash) (string, int, int) {
	switch h {
	case crypto.SHA224:
		return "sha224", 28, 64
	case crypto.SHA256:
		return "sha256", 32, 64
	case crypto.SHA384:
		return "sha384", 48, 128
	case crypto.SHA512:
		return "sha512", 64, 128
	case crypto.SHA512_256:
		return "sha512_256", 32, 128
	}
	return "hash", 32, 64
}

//verif:stub for=(crypto.Hash).New
func stubHashNew(h crypto.Hash) hash.Hash {
	n, s, b := hashParams(h)
	return NewHashStub(n, s, b)
}

//verif:stub for=(crypto.Hash).Size
func stubHashSize(h crypto.Hash) int {
	_, s, _ := hashParams(h)
	return s
}

// ShakeStub: an extendable-output function as an uninterpreted function of (input, output length).
type ShakeStub struct {
	name string
	log  []byte
}

func NewShakeStub(name string) *ShakeStub { return &ShakeStub{name: name} }

func (x *ShakeStub) Write(p []byte) (int, error) {
	x.log = append(x.log, p...)
	return len(p), nil
}
func (x *ShakeStub) Read(out []byte) (int, error) {
	UFBytes(x.name, out, x.log)
	return len(out), nil
}
func (x *ShakeStub) Clone() sha3.ShakeHash {
	c := &ShakeStub{name: x.name}
	c.log = append(c.log, x.log...)
	return c
}
func (x *ShakeStub) Reset()              { x.log = nil }
func (x *ShakeStub) Sum(b []byte) []byte { panic("ShakeStub.Sum") }
func (x *ShakeStub) Size() int           { return 32 }
func (x *ShakeStub) BlockSize() int      { return 168 }

// XofOf: the output symbol for a complete input.
func XofOf(name string, n int, data []byte) []byte {
	out := make([]byte, n)
	UFBytes(name, out, data)
	return out
}

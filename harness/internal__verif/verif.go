// Package verif is the harness vocabulary of /verif. It exists only in the build overlay.
//
// The symbolic engine intercepts every function of this package by name; the bodies below are the
// *native* meaning used when a counterexample is replayed against the compiled real code
// (inputs come from the JSON file named by VERIF_REPLAY).
package verif

import (
	mrand "math/rand"
	"encoding/json"
	"fmt"
	"math/big"
	"os"
	"strings"
)

// ---------- replay runtime ----------

var replayInputs map[string]*big.Int
var replayCases map[string]int

type Failure struct{ Msg string }
type Skip struct{ Msg string }

func loadReplay() {
	if replayInputs != nil {
		return
	}
	replayInputs = map[string]*big.Int{}
	replayCases = map[string]int{}
	p := os.Getenv("VERIF_REPLAY")
	if p == "" {
		return
	}
	b, err := os.ReadFile(p)
	if err != nil {
		panic(err)
	}
	var cx struct {
		Inputs map[string]string `json:"inputs"`
		Cases  map[string]int    `json:"cases"`
	}
	if err := json.Unmarshal(b, &cx); err != nil {
		panic(err)
	}
	for k, v := range cx.Inputs {
		n, _ := new(big.Int).SetString(v, 10)
		replayInputs[k] = n
	}
	for k, v := range cx.Cases {
		replayCases[k] = v
	}
}

// Search mode (VERIF_SEARCH=N): trial 0 replays the model exactly; later trials keep each model value with
// probability 1/2 and otherwise draw boundary-biased random values. Used to concretise counterexamples of
// abstract obligations (inductive steps, contract-level models) into inputs of the real code.
var (
	trial     int
	rng       *mrand.Rand
	drawn     map[string]*big.Int
	drawOrder []string
)

func StartTrial(t int, seed int64) {
	trial = t
	rng = mrand.New(mrand.NewSource(seed + int64(t)*7919))
	drawn = map[string]*big.Int{}
	drawOrder = nil
	ghostStore = map[string]interface{}{}
}

func DumpTrial() string {
	m := map[string]string{}
	for k, v := range drawn {
		m[k] = v.String()
	}
	b, _ := json.Marshal(map[string]interface{}{"inputs": m, "cases": replayCases})
	return string(b)
}

func input(name string, bits int) *big.Int {
	loadReplay()
	if drawn == nil {
		drawn = map[string]*big.Int{}
	}
	if v, ok := drawn[name]; ok {
		return v
	}
	mv, has := replayInputs[name]
	var v *big.Int
	switch {
	case trial == 0 || rng == nil:
		if has {
			v = mv
		} else {
			v = new(big.Int)
		}
	case has && rng.Intn(2) == 0:
		v = mv
	default:
		lim := new(big.Int).Lsh(big.NewInt(1), uint(bits))
		switch rng.Intn(6) {
		case 0:
			v = new(big.Int)
		case 1:
			v = new(big.Int).Sub(lim, big.NewInt(1))
		case 2:
			v = new(big.Int).Lsh(big.NewInt(1), uint(rng.Intn(bits)))
		default:
			v = new(big.Int).Rand(rng, lim)
		}
	}
	v = new(big.Int).And(v, new(big.Int).Sub(new(big.Int).Lsh(big.NewInt(1), uint(bits)), big.NewInt(1)))
	drawn[name] = v
	return v
}

func AnyU64(name string) uint64 { return input(name, 64).Uint64() }
func AnyU32(name string) uint32 { return uint32(input(name, 32).Uint64()) }
func AnyU16(name string) uint16 { return uint16(input(name, 16).Uint64()) }
func AnyU8(name string) uint8   { return uint8(input(name, 8).Uint64()) }
func AnyInt(name string) int    { return int(input(name, 64).Uint64()) }
func AnyI64(name string) int64  { return int64(input(name, 64).Uint64()) }
func AnyI8(name string) int8    { return int8(input(name, 8).Uint64()) }
func AnyBool(name string) bool  { return input(name, 1).Sign() != 0 }
func AnyBytes(name string, b []byte) {
	vectorDraw(name, len(b), 8)
	for i := range b {
		b[i] = AnyU8(fmt.Sprintf("%s[%d]", name, i))
	}
}
func AnyU64s(name string, s []uint64) {
	vectorDraw(name, len(s), 64)
	for i := range s {
		s[i] = AnyU64(fmt.Sprintf("%s[%d]", name, i))
	}
}
func AnyU32s(name string, s []uint32) {
	vectorDraw(name, len(s), 32)
	for i := range s {
		s[i] = AnyU32(fmt.Sprintf("%s[%d]", name, i))
	}
}
func AnyI8s(name string, s []int8) {
	for i := range s {
		s[i] = AnyI8(fmt.Sprintf("%s[%d]", name, i))
	}
}
func Case(name string) int {
	loadReplay()
	return replayCases[name]
}
func Secret(prefix string) {}

func Assume(c bool) {
	if !c {
		panic(Skip{"assumption false on replay"})
	}
}
func Assert(c bool, name string) {
	if !c {
		panic(Failure{name})
	}
}
func Reach(name string) {}
func Unreachable(name string) {
	panic(Failure{name})
}

// Contracts are not substituted natively: the real code runs, so these are inert.
func Requires(c bool, name string) { Assume(c) }
func Ensures(c bool, name string)  { Assert(c, name) }
func Havoc(p interface{})          {}
func Real() bool                   { return true }
func Proving() bool                { return false }
func FreshInt() int                { panic(Skip{"fresh value on replay"}) }
func FreshU64() uint64             { panic(Skip{"fresh value on replay"}) }
func FreshI64() int64              { panic(Skip{"fresh value on replay"}) }
func FreshU32() uint32             { panic(Skip{"fresh value on replay"}) }
func FreshU8() uint8               { panic(Skip{"fresh value on replay"}) }
func FreshBool() bool              { panic(Skip{"fresh value on replay"}) }
func FreshIntG() Int               { panic(Skip{"fresh value on replay"}) }
func Engine() bool                 { return false }
func IsConcrete(x interface{}) bool { return true }
func Log(name string, x interface{}) {}
func Implies(a, b bool) bool       { return !a || b }

// ---------- ghost integers ----------

type Int struct{ v *big.Int }

func mkInt(v *big.Int) Int { return Int{v} }
func (a Int) b() *big.Int {
	if a.v == nil {
		return new(big.Int)
	}
	return a.v
}
func IntOf(x uint64) Int   { return mkInt(new(big.Int).SetUint64(x)) }
func IntOf32(x uint32) Int { return IntOf(uint64(x)) }
func IntOf8(x uint8) Int   { return IntOf(uint64(x)) }
func IntOfI(x int) Int     { return mkInt(big.NewInt(int64(x))) }
func IntOfI8(x int8) Int   { return mkInt(big.NewInt(int64(x))) }
func IntOfI64(x int64) Int { return mkInt(big.NewInt(x)) }
func IntK(x int) Int       { return mkInt(big.NewInt(int64(x))) }
func Pow2(k int) Int       { return mkInt(new(big.Int).Lsh(big.NewInt(1), uint(k))) }
func IntLit(s string) Int {
	v, ok := new(big.Int).SetString(strings.ReplaceAll(s, "_", ""), 0)
	if !ok {
		panic("IntLit")
	}
	return mkInt(v)
}
func AnyIntG(name string) Int { return mkInt(input(name, 256)) }
func IntLE(b []byte) Int {
	v := new(big.Int)
	for i := len(b) - 1; i >= 0; i-- {
		v.Lsh(v, 8).Or(v, big.NewInt(int64(b[i])))
	}
	return mkInt(v)
}
func IntBE(b []byte) Int       { return mkInt(new(big.Int).SetBytes(b)) }
func (a Int) Add(b Int) Int    { return mkInt(new(big.Int).Add(a.b(), b.b())) }
func (a Int) Sub(b Int) Int    { return mkInt(new(big.Int).Sub(a.b(), b.b())) }
func (a Int) Mul(b Int) Int    { return mkInt(new(big.Int).Mul(a.b(), b.b())) }
func (a Int) Neg() Int         { return mkInt(new(big.Int).Neg(a.b())) }
func (a Int) Shl(k int) Int    { return mkInt(new(big.Int).Lsh(a.b(), uint(k))) }
func (a Int) Lt(b Int) bool    { return a.b().Cmp(b.b()) < 0 }
func (a Int) Le(b Int) bool    { return a.b().Cmp(b.b()) <= 0 }
func (a Int) Eq(b Int) bool    { return a.b().Cmp(b.b()) == 0 }
func (a Int) Div(m Int) Int { // Euclidean, as SMT-LIB
	q, r := new(big.Int), new(big.Int)
	q.DivMod(a.b(), m.b(), r)
	return mkInt(q)
}
func (a Int) Mod(m Int) Int    { return mkInt(new(big.Int).Mod(a.b(), m.b())) }
func IteInt(c bool, a, b Int) Int {
	if c {
		return a
	}
	return b
}
func ModEq(a, b, m Int) bool { return new(big.Int).Mod(new(big.Int).Sub(a.b(), b.b()), m.b()).Sign() == 0 }

// ---------- ghost bit-vectors ----------

type BV struct {
	v *big.Int
	w int
}

func mkBV(v *big.Int, w int) BV {
	m := new(big.Int).Sub(new(big.Int).Lsh(big.NewInt(1), uint(w)), big.NewInt(1))
	return BV{new(big.Int).And(v, m), w}
}
func (a BV) signed() *big.Int {
	if a.v.Bit(a.w-1) == 1 {
		return new(big.Int).Sub(a.v, new(big.Int).Lsh(big.NewInt(1), uint(a.w)))
	}
	return a.v
}
func BVOf(x uint64) BV   { return mkBV(new(big.Int).SetUint64(x), 64) }
func BVOf32(x uint32) BV { return mkBV(new(big.Int).SetUint64(uint64(x)), 32) }
func BVOf8(x uint8) BV   { return mkBV(new(big.Int).SetUint64(uint64(x)), 8) }
func BVLE(b []byte) BV   { return mkBV(IntLE(b).v, 8*len(b)) }
func BVLE64(s []uint64) BV {
	v := new(big.Int)
	for i := len(s) - 1; i >= 0; i-- {
		v.Lsh(v, 64).Or(v, new(big.Int).SetUint64(s[i]))
	}
	return mkBV(v, 64*len(s))
}
func BVLE32(s []uint32) BV {
	v := new(big.Int)
	for i := len(s) - 1; i >= 0; i-- {
		v.Lsh(v, 32).Or(v, new(big.Int).SetUint64(uint64(s[i])))
	}
	return mkBV(v, 32*len(s))
}
func BVHex(s string, w int) BV {
	v, ok := new(big.Int).SetString(strings.ReplaceAll(s, "_", ""), 16)
	if !ok {
		panic("BVHex")
	}
	return mkBV(v, w)
}
func BVDec(s string, w int) BV {
	v, ok := new(big.Int).SetString(strings.ReplaceAll(s, "_", ""), 10)
	if !ok {
		panic("BVDec")
	}
	return mkBV(v, w)
}
func AnyBV(name string, w int) BV { return mkBV(input(name, w), w) }
func (a BV) Add(b BV) BV          { return mkBV(new(big.Int).Add(a.v, b.v), a.w) }
func (a BV) Sub(b BV) BV          { return mkBV(new(big.Int).Sub(a.v, b.v), a.w) }
func (a BV) Mul(b BV) BV          { return mkBV(new(big.Int).Mul(a.v, b.v), a.w) }
func (a BV) And(b BV) BV          { return mkBV(new(big.Int).And(a.v, b.v), a.w) }
func (a BV) Or(b BV) BV           { return mkBV(new(big.Int).Or(a.v, b.v), a.w) }
func (a BV) Xor(b BV) BV          { return mkBV(new(big.Int).Xor(a.v, b.v), a.w) }
func (a BV) Not() BV              { return mkBV(new(big.Int).Not(a.v), a.w) }
func (a BV) Neg() BV              { return mkBV(new(big.Int).Neg(a.v), a.w) }
func (a BV) ULT(b BV) bool        { return a.v.Cmp(b.v) < 0 }
func (a BV) ULE(b BV) bool        { return a.v.Cmp(b.v) <= 0 }
func (a BV) SLT(b BV) bool        { return a.signed().Cmp(b.signed()) < 0 }
func (a BV) SLE(b BV) bool        { return a.signed().Cmp(b.signed()) <= 0 }
func (a BV) Eq(b BV) bool         { return a.w == b.w && a.v.Cmp(b.v) == 0 }
func (a BV) Shl(k int) BV {
	if k >= a.w {
		return mkBV(new(big.Int), a.w)
	}
	return mkBV(new(big.Int).Lsh(a.v, uint(k)), a.w)
}
func (a BV) Lshr(k int) BV {
	if k >= a.w {
		return mkBV(new(big.Int), a.w)
	}
	return mkBV(new(big.Int).Rsh(a.v, uint(k)), a.w)
}
func (a BV) Ashr(k int) BV {
	if k >= a.w {
		k = a.w - 1
	}
	return mkBV(new(big.Int).Rsh(a.signed(), uint(k)), a.w)
}
func (a BV) Zext(w int) BV           { return mkBV(a.v, w) }
func (a BV) Sext(w int) BV           { return mkBV(a.signed(), w) }
func (a BV) Extract(hi, lo int) BV   { return mkBV(new(big.Int).Rsh(a.v, uint(lo)), hi-lo+1) }
func (a BV) Concat(lo BV) BV         { return mkBV(new(big.Int).Or(new(big.Int).Lsh(a.v, uint(lo.w)), lo.v), a.w+lo.w) }
func (a BV) U64() uint64             { return new(big.Int).And(a.v, new(big.Int).SetUint64(^uint64(0))).Uint64() }
func (a BV) Int() Int                { return mkInt(a.v) }
func IteBV(c bool, a, b BV) BV {
	if c {
		return a
	}
	return b
}
func IteU64(c bool, a, b uint64) uint64 {
	if c {
		return a
	}
	return b
}

// ---------- uninterpreted functions: no native meaning (replay of abstract runs is not possible) ----------

func UFBytes(name string, out []byte, in ...[]byte) { panic(Skip{"uninterpreted function on replay"}) }
func UFBool(name string, in ...[]byte) bool         { panic(Skip{"uninterpreted function on replay"}) }
func UFU64(name string, in ...[]byte) uint64        { panic(Skip{"uninterpreted function on replay"}) }
func UFInt(name string, in ...Int) Int              { panic(Skip{"uninterpreted function on replay"}) }
func UFIntBool(name string, in ...Int) bool         { panic(Skip{"uninterpreted function on replay"}) }

// ---------- ghost attributes ----------

var ghostStore = map[string]interface{}{}

func GhostSet(p interface{}, attr string, v Int) { ghostStore[fmt.Sprintf("%p/%s", p, attr)] = v }
func GhostGet(p interface{}, attr string) Int {
	if v, ok := ghostStore[fmt.Sprintf("%p/%s", p, attr)]; ok {
		return v.(Int)
	}
	return Int{}
}
func GhostHas(p interface{}, attr string) bool {
	_, ok := ghostStore[fmt.Sprintf("%p/%s", p, attr)]
	return ok
}
func GhostCopy(dst, src interface{}) {}

func Pin(v Int) Int { return v }

func UFBV(name string, w int, in ...BV) BV             { panic(Skip{"uninterpreted function on replay"}) }
func UFBVBool(name string, in ...BV) bool              { panic(Skip{"uninterpreted function on replay"}) }
func BVToBytes(v BV, out []byte)                       { b := v.v.Bytes(); for i := range out { out[i] = 0 }; for i := 0; i < len(b) && i < len(out); i++ { out[i] = b[len(b)-1-i] } }
func GhostSetBV(p interface{}, attr string, v BV)      { ghostStore[fmt.Sprintf("%p/%s", p, attr)] = v }
func GhostGetBV(p interface{}, attr string, w int) BV {
	if v, ok := ghostStore[fmt.Sprintf("%p/%s", p, attr)]; ok {
		return v.(BV)
	}
	return mkBV(new(big.Int), w)
}

func HasCase(name string) bool { loadReplay(); _, ok := replayCases[name]; return ok }
func BVShlSym(x, n BV) BV {
	if n.v.BitLen() > 31 || int(n.v.Int64()) >= x.w {
		return mkBV(new(big.Int), x.w)
	}
	return mkBV(new(big.Int).Lsh(x.v, uint(n.v.Int64())), x.w)
}

func MutexHeld(m interface{}) bool { return false }


// ---- structured vector draws for the native search ----
// In search trials an input vector is, half of the time, filled with the digits of ONE integer taken from a
// dictionary of boundary values of this library (small and large multiples of the group order and the field
// prime, powers of two and their neighbours) or built from word-sized chunks (zero, all ones, random, a few
// magic patterns): the inputs on which multi-limb arithmetic goes wrong and random bytes never land.

var searchVals []*big.Int

func searchSpecials() []*big.Int {
	if searchVals != nil {
		return searchVals
	}
	one := big.NewInt(1)
	searchL, _ := new(big.Int).SetString("7237005577332262213973186563042994240857116359379907606001950938285454250989", 10)
	searchP := new(big.Int).Sub(new(big.Int).Lsh(big.NewInt(1), 255), big.NewInt(19))
	add := func(v *big.Int) {
		if v.Sign() >= 0 {
			searchVals = append(searchVals, v)
		}
	}
	for _, base := range []*big.Int{searchL, searchP} {
		for _, k := range []int64{1, 2, 3, 4, 7, 8, 9, 15, 16, 17} {
			m := new(big.Int).Mul(base, big.NewInt(k))
			for d := int64(-2); d <= 2; d++ {
				add(new(big.Int).Add(m, big.NewInt(d)))
			}
		}
		for _, sh := range []uint{200, 252, 255, 256, 259, 260, 261} {
			m := new(big.Int).Lsh(base, sh)
			add(m)
			add(new(big.Int).Sub(m, base))
			add(new(big.Int).Add(m, one))
			add(new(big.Int).Sub(m, one))
		}
	}
	for _, k := range []uint{0, 1, 8, 63, 64, 127, 128, 191, 192, 251, 252, 253, 254, 255, 256, 260, 261, 511, 512} {
		p := new(big.Int).Lsh(one, k)
		add(p)
		add(new(big.Int).Sub(p, one))
		add(new(big.Int).Add(p, one))
		add(new(big.Int).Add(p, big.NewInt(12345)))
	}
	return searchVals
}

var searchChunks = []uint64{0, 0, 0xffffffffffffffff, 0xffffffffffffffff, 1, 0x8000000000000000, 0x7fffffffffffffff,
	0x0888888888888888, 0xf777777777777777, 0x8888888888888888, 0x7777777777777777, 0xfffffffffffffff8, 0x00000000ffffffff, 0xffffffff00000000}

func vectorDraw(name string, n, bits int) {
	loadReplay()
	if trial == 0 || rng == nil || n < 2 || rng.Intn(2) == 0 {
		return
	}
	if drawn == nil {
		drawn = map[string]*big.Int{}
	}
	if _, ok := drawn[fmt.Sprintf("%s[0]", name)]; ok {
		return
	}
	var v *big.Int
	total := n * bits
	switch rng.Intn(3) {
	case 0:
		sp := searchSpecials()
		v = sp[rng.Intn(len(sp))]
	default:
		v = new(big.Int)
		for off := 0; off < total; off += 64 {
			var c uint64
			if rng.Intn(3) == 0 {
				c = rng.Uint64() >> uint(rng.Intn(64))
			} else {
				c = searchChunks[rng.Intn(len(searchChunks))]
			}
			v.Or(v, new(big.Int).Lsh(new(big.Int).SetUint64(c), uint(off)))
		}
	}
	mask := new(big.Int).Sub(new(big.Int).Lsh(big.NewInt(1), uint(bits)), big.NewInt(1))
	rest := new(big.Int).Set(v)
	for i := 0; i < n; i++ {
		k := fmt.Sprintf("%s[%d]", name, i)
		drawn[k] = new(big.Int).And(rest, mask)
		drawOrder = append(drawOrder, k)
		rest.Rsh(rest, uint(bits))
	}
}

// SharedRO declares the object p points to as shared between goroutines and read-only after construction:
// every store into it by the code under test is reported (engine only).
func SharedRO(p interface{}) {}

// MutexAcquisitions: how many times Lock was called on the mutex so far (engine ghost counter).
func MutexAcquisitions(m interface{}) int { return 0 }

// SkipRun declares the current combination of case-split parameters redundant (covered by another run).
func SkipRun() { panic(Skip{"redundant case combination"}) }

// Native reports whether the harness runs natively (replay / native search): false in the engine.
func Native() bool { return true }

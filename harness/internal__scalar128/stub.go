//go:build verif

package scalar128

import (
	"io"

	"github.com/oasisprotocol/curve25519-voi/curve/scalar"
	"github.com/oasisprotocol/curve25519-voi/internal/verif"
)

// The randomizer generator as an arbitrary source of 128-bit values (group "gapi"): chacha20 output is
// arbitrary; each z is a fresh symbolic 128-bit string (zero is excluded by FixRawRangeVartime in the real code;
// here the value is left fully arbitrary, which over-approximates).

var zCounter int

//verif:contract for=internal/scalar128.NewGenerator group=gapi
func ga_NewGenerator(rand io.Reader) (*Generator, error) {
	return &Generator{}, nil
}

//verif:contract for=(*internal/scalar128.Generator).SetScalarVartime group=gapi
func ga_SetScalarVartime(gen *Generator, s *scalar.Scalar) error {
	zCounter++
	var b [32]byte
	verif.AnyBytes("z#"+itoa(zCounter), b[:16])
	_, _ = s.SetBits(b[:])
	return nil
}

func itoa(n int) string {
	if n == 0 {
		return "0"
	}
	s := ""
	for n > 0 {
		s = string(rune('0'+n%10)) + s
		n /= 10
	}
	return s
}

//go:build verif

package ed25519

import (
	"crypto"

	"github.com/oasisprotocol/curve25519-voi/curve"
	"github.com/oasisprotocol/curve25519-voi/curve/scalar"
	"github.com/oasisprotocol/curve25519-voi/internal/verif"
)

const hexL = "1000000000000000000000000000000014def9dea2f79cd65812631a5cf5d3ed"

func anyVerifyOptions() *VerifyOptions {
	return &VerifyOptions{
		AllowSmallOrderA:   verif.AnyBool("AllowSmallOrderA"),
		AllowSmallOrderR:   verif.AnyBool("AllowSmallOrderR"),
		AllowNonCanonicalA: verif.AnyBool("AllowNonCanonicalA"),
		AllowNonCanonicalR: verif.AnyBool("AllowNonCanonicalR"),
		CofactorlessVerify: verif.AnyBool("CofactorlessVerify"),
	}
}

func canonicalEncoding(b []byte) bool {
	var c curve.CompressedEdwardsY
	copy(c[:], b)
	return c.IsCanonicalVartime() // exact for all 2^256 strings: C10
}

// dom2(f, c) of RFC 8032: "SigEd25519 no Ed25519 collisions" || f || len(c) || c ; empty for pure Ed25519.
func dom2Ref(mode int, ctx []byte) []byte {
	if mode == 0 {
		return nil
	}
	b := []byte("SigEd25519 no Ed25519 collisions")
	if mode == 2 {
		b = append(b, 1)
	} else {
		b = append(b, 0)
	}
	b = append(b, byte(len(ctx)))
	return append(b, ctx...)
}

// the specification predicate of property C01
func verifyPredicate(vo *VerifyOptions, mode int, ctx, pk, msg, sig []byte) bool {
	if len(sig) != 64 {
		return false
	}
	R, S := sig[:32], sig[32:]
	if !verif.BVLE(S).ULT(verif.BVHex(hexL, 256)) {
		return false
	}
	if !curve.GDecodes(pk) {
		return false
	}
	A := curve.GPoint(pk)
	if !vo.AllowSmallOrderA && curve.GSmallOrder(A) {
		return false
	}
	if !vo.AllowNonCanonicalA && !canonicalEncoding(pk) {
		return false
	}
	needR := !(vo.CofactorlessVerify && vo.AllowSmallOrderR)
	if needR {
		if !curve.GDecodes(R) {
			return false
		}
		if !vo.AllowSmallOrderR && curve.GSmallOrder(curve.GPoint(R)) {
			return false
		}
	}
	if !vo.AllowNonCanonicalR && !canonicalEncoding(R) {
		return false
	}
	var in []byte
	in = append(in, dom2Ref(mode, ctx)...)
	in = append(in, R...)
	in = append(in, pk...)
	in = append(in, msg...)
	k := scalar.GReduce64(verif.HashOf("sha512", 64, in))
	s := scalar.GReduce32(S)
	if vo.CofactorlessVerify {
		return curve.GEncode(curve.GDouble(k, curve.GNeg(A), s)).Eq(verif.BVLE(R))
	}
	rp := curve.GIdentity()
	if needR {
		rp = curve.GPoint(R)
	}
	return curve.GSmallOrder(curve.GTriple(k, curve.GNeg(A), s, rp))
}

// VerifyWithOptions == predicate: all 2^5 flag vectors (minus the documented incompatible pair), the three
// dom2 variants, all signature lengths 0..130, message lengths 0..2 (64 for ph), context lengths 1..2 and 255.
//
//verif:ob prop=C01,C19,C18 name=VerifyWithOptions_eq_predicate mode=bv tags=purego use=gapi split=mode:0..2;ns:0..1+31..33+63..65+96+128..130;nm:0..2;nc:0..2+128+255 tsplit=mode:0..2;ns:0..130;nm:0..3;nc:0..3+127..129+254..255 sharedro=1
func vh_C01_verify() {
	mode, ns, nm, nc := verif.Case("mode"), verif.Case("ns"), verif.Case("nm"), verif.Case("nc")
	if mode == 2 {
		nm = 64
	}
	if (mode == 0) != (nc == 0) && mode != 2 {
		return // pure Ed25519 has no context, Ed25519ctx needs one; Ed25519ph takes any context incl. the empty one
	}
	pk := make([]byte, 32)
	verif.AnyBytes("pk", pk)
	sig := make([]byte, ns)
	verif.AnyBytes("sig", sig)
	msg := make([]byte, nm)
	verif.AnyBytes("msg", msg)
	ctx := make([]byte, nc)
	verif.AnyBytes("ctx", ctx)
	vo := anyVerifyOptions()
	verif.Assume(!(vo.AllowNonCanonicalR && vo.CofactorlessVerify)) // documented: incompatible, panics
	opts := &Options{Verify: vo, Context: string(ctx)}
	if mode == 2 {
		opts.Hash = crypto.SHA512
	}
	got := VerifyWithOptions(pk, msg, sig, opts)
	want := verifyPredicate(vo, mode, ctx, pk, msg, sig)
	verif.Assert(got == want, "VerifyWithOptions returns exactly the specification predicate")
}

// the four presets are the documented flag vectors
//
//verif:ob prop=C01 name=presets mode=bv tags=purego
func vh_C01_presets() {
	eq := func(v *VerifyOptions, a, r, na, nr, cl bool) bool {
		return v.AllowSmallOrderA == a && v.AllowSmallOrderR == r && v.AllowNonCanonicalA == na && v.AllowNonCanonicalR == nr && v.CofactorlessVerify == cl
	}
	verif.Assert(eq(VerifyOptionsDefault, false, true, false, false, false), "default: cofactored, small-order R allowed, canonical A and R, no small-order A")
	verif.Assert(eq(VerifyOptionsStdLib, true, true, true, false, true), "stdlib: cofactorless, small order allowed, non-canonical A allowed")
	verif.Assert(eq(VerifyOptionsFIPS_186_5, true, true, false, false, false), "FIPS 186-5: cofactored, small order allowed, canonical encodings")
	verif.Assert(eq(VerifyOptionsZIP_215, true, true, true, true, false), "ZIP-215: cofactored, everything allowed")
	verif.Assert(optionsDefault.Verify == VerifyOptionsDefault, "Verify() uses the default preset")
}

// documented panics and nothing else: bad key length, incompatible options, context > 255, ph with len(M) != 64,
// unsupported hash.
//
//verif:ob prop=C01,C19 name=VerifyWithOptions_documented_panics mode=bv tags=purego use=gapi split=c:0..4 allowpanic=panic noreach
func vh_C01_panics() {
	c := verif.Case("c")
	pk := make([]byte, 32)
	sig := make([]byte, 64)
	msg := make([]byte, 3)
	verif.AnyBytes("pk", pk)
	verif.AnyBytes("sig", sig)
	verif.AnyBytes("msg", msg)
	opts := &Options{Verify: VerifyOptionsDefault}
	switch c {
	case 0:
		pk = pk[:31]
	case 1:
		opts.Verify = &VerifyOptions{AllowNonCanonicalR: true, CofactorlessVerify: true}
	case 2:
		opts.Context = string(make([]byte, 256))
	case 3:
		opts.Hash = crypto.SHA512 // message is not 64 bytes
	case 4:
		opts.Hash = crypto.SHA256
	}
	_ = VerifyWithOptions(pk, msg, sig, opts)
	verif.Unreachable("documented misuse must panic")
}

//go:build verif

package ed25519

import (
	"crypto"
	"github.com/oasisprotocol/curve25519-voi/curve"
	"github.com/oasisprotocol/curve25519-voi/curve/scalar"
	"github.com/oasisprotocol/curve25519-voi/internal/verif"
)

// VerifyExpandedWithOptions(NewExpandedPublicKey(pk), ...) == the same predicate as plain verification.
//
//verif:ob prop=C09,C01 name=VerifyExpanded_eq_predicate mode=bv tags=purego use=gapi split=mode:0..2;ns:0+63..65;nm:0..1;nc:0..1+255
func vh_C09_expanded() {
	mode, ns, nm, nc := verif.Case("mode"), verif.Case("ns"), verif.Case("nm"), verif.Case("nc")
	if mode == 2 {
		nm = 64
	}
	if (mode == 0) != (nc == 0) && mode != 2 {
		return // pure Ed25519 has no context, Ed25519ctx needs one; Ed25519ph takes any context incl. the empty one
	}
	pk := make([]byte, 32)
	verif.AnyBytes("pk", pk)
	sig := make([]byte, ns)
	verif.AnyBytes("sig", sig)
	msg := make([]byte, nm)
	verif.AnyBytes("msg", msg)
	ctx := make([]byte, nc)
	verif.AnyBytes("ctx", ctx)
	vo := anyVerifyOptions()
	verif.Assume(!(vo.AllowNonCanonicalR && vo.CofactorlessVerify))
	opts := &Options{Verify: vo, Context: string(ctx)}
	if mode == 2 {
		opts.Hash = crypto.SHA512
	}
	epk, err := NewExpandedPublicKey(pk)
	verif.Assert((err == nil) == curve.GDecodes(pk), "expansion fails exactly for undecodable keys")
	if err != nil {
		verif.Assert(epk == nil && !verifyPredicate(vo, mode, ctx, pk, msg, sig), "no expanded key; plain verification rejects such a key too")
		return
	}
	got := VerifyExpandedWithOptions(epk, msg, sig, opts)
	verif.Assert(got == verifyPredicate(vo, mode, ctx, pk, msg, sig), "expanded-key verification returns the same predicate (pure, ctx and ph variants)")
}

//verif:ob prop=C09,C19 name=NewExpandedPublicKey_lengths mode=bv tags=purego use=gapi split=n:0..1+31..33+64
func vh_C09_expand_len() {
	n := verif.Case("n")
	pk := make([]byte, n)
	verif.AnyBytes("pk", pk)
	epk, err := NewExpandedPublicKey(pk)
	if n != 32 {
		verif.Assert(err != nil && epk == nil, "wrong key length is an error (no panic)")
	}
}

// the "entropy" stub hands out z#1, z#2, ... ; the batch equation symbol as the reference writes it
func batchSymbol(n int, k, s []verif.BV, negA, R []verif.BV) bool {
	z := make([]verif.BV, n)
	for i := 0; i < n; i++ {
		var b [32]byte
		verif.AnyBytes("z#"+string(rune('1'+i)), b[:16])
		z[i] = verif.BVLE(b[:])
	}
	bc := verif.BVHex("0", 256)
	for i := 0; i < n; i++ {
		bc = scalar.GAdd(bc, scalar.GMul(z[i], s[i]))
	}
	bc = scalar.GNegS(bc)
	acc := curve.GIdentity()
	acc = curve.GMsmStep(acc, bc, curve.Pid(curve.ED25519_BASEPOINT_POINT))
	for i := 0; i < n; i++ {
		acc = curve.GMsmStep(acc, z[i], R[i])
	}
	for i := 0; i < n; i++ {
		acc = curve.GMsmStep(acc, scalar.GNegS(scalar.GMul(z[i], k[i])), negA[i])
	}
	return curve.GSmallOrder(acc)
}

type refEntry struct {
	admit, equation bool
	k, s, negA, r   verif.BV
	cofactorless    bool
}

// admission and equation of one entry, split (the predicate of C01 is admit && equation)
func entryRef(vo *VerifyOptions, pk, msg, sig []byte) refEntry {
	var e refEntry
	e.cofactorless = vo.CofactorlessVerify
	if vo.AllowNonCanonicalR && vo.CofactorlessVerify {
		return e // incompatible options: never valid in a batch
	}
	if len(sig) != 64 || len(pk) != 32 {
		return e
	}
	R, S := sig[:32], sig[32:]
	if !verif.BVLE(S).ULT(verif.BVHex(hexL, 256)) || !curve.GDecodes(pk) {
		return e
	}
	A := curve.GPoint(pk)
	if (!vo.AllowSmallOrderA && curve.GSmallOrder(A)) || (!vo.AllowNonCanonicalA && !canonicalEncoding(pk)) {
		return e
	}
	needR := !(vo.CofactorlessVerify && vo.AllowSmallOrderR)
	e.r = curve.GIdentity()
	if needR {
		if !curve.GDecodes(R) {
			return e
		}
		e.r = curve.GPoint(R)
		if !vo.AllowSmallOrderR && curve.GSmallOrder(e.r) {
			return e
		}
	}
	if !vo.AllowNonCanonicalR && !canonicalEncoding(R) {
		return e
	}
	var in []byte
	in = append(in, R...)
	in = append(in, pk...)
	in = append(in, msg...)
	e.k = scalar.GReduce64(verif.HashOf("sha512", 64, in))
	e.s = scalar.GReduce32(S)
	e.negA = curve.GNeg(A)
	e.admit = true
	if vo.CofactorlessVerify {
		e.equation = curve.GEncode(curve.GDouble(e.k, e.negA, e.s)).Eq(verif.BVLE(R))
	} else {
		e.equation = curve.GSmallOrder(curve.GTriple(e.k, e.negA, e.s, e.r))
	}
	return e
}

// Histories of n additions (each through AddWithOptions, with or without forced non-expansion) then Verify:
// per-entry results, the overall flag and the batch-only shortcut.
//
// hist = 1: the verifier is REUSED - it first held another batch (one admitted entry with an expanded key) and was
// Reset; nothing of the earlier batch may influence the results.
//
//verif:ob prop=C09,C18 name=BatchVerifier_Verify mode=bv tags=purego use=gapi split=n:1;force:0..1;ns:64+63;hist:0..1 tsplit=n:1..2;force:0..1;ns:64+63+0;hist:0..1 sharedro=1
//verif:ob prop=C09 name=BatchVerifier_Verify_2_unexpanded mode=bv tags=purego use=gapi split=n:2;force:1;ns:64+63 tier=quickonly
func vh_C09_batch() {
	n, force, ns0 := verif.Case("n"), verif.Case("force"), verif.Case("ns")
	v := NewBatchVerifier()
	if verif.HasCase("hist") && verif.Case("hist") == 1 {
		pk := make([]byte, 32)
		verif.AnyBytes("pkP", pk)
		sig := make([]byte, 64)
		verif.AnyBytes("sigP", sig)
		msg := make([]byte, 1)
		verif.AnyBytes("msgP", msg)
		verif.Assume(entryRef(VerifyOptionsDefault, pk, msg, sig).admit)
		v.AddWithOptions(pk, msg, sig, optionsDefault)
		v.Reset()
	}
	if force == 1 {
		v.ForceNoPublicKeyExpansion()
	}
	refs := make([]refEntry, n)
	k, s, negA, R := make([]verif.BV, n), make([]verif.BV, n), make([]verif.BV, n), make([]verif.BV, n)
	for i := 0; i < n; i++ {
		nm := string(rune('a' + i))
		pk := make([]byte, 32)
		verif.AnyBytes("pk"+nm, pk)
		ns := 64
		if i == 0 {
			ns = ns0
		}
		sig := make([]byte, ns)
		verif.AnyBytes("sig"+nm, sig)
		msg := make([]byte, 1)
		verif.AnyBytes("msg"+nm, msg)
		vo := &VerifyOptions{
			AllowSmallOrderA: verif.AnyBool("soA" + nm), AllowSmallOrderR: verif.AnyBool("soR" + nm),
			AllowNonCanonicalA: verif.AnyBool("ncA" + nm), AllowNonCanonicalR: verif.AnyBool("ncR" + nm),
			CofactorlessVerify: verif.AnyBool("cl" + nm),
		}
		v.AddWithOptions(pk, msg, sig, &Options{Verify: vo})
		refs[i] = entryRef(vo, pk, msg, sig)
		k[i], s[i], negA[i], R[i] = refs[i].k, refs[i].s, refs[i].negA, refs[i].r
	}
	anyInvalid, anyCofactorless := false, false
	for i := 0; i < n; i++ {
		anyInvalid = anyInvalid || !refs[i].admit
		anyCofactorless = anyCofactorless || refs[i].cofactorless
	}
	all, valid := v.Verify(nil)
	verif.Assert(len(valid) == n, "one result per entry")
	conj := true
	for i := 0; i < n; i++ {
		conj = conj && valid[i]
	}
	verif.Assert(all == conj, "overall flag is the conjunction of the per-entry results")
	tryBatch := !anyInvalid && !anyCofactorless
	if tryBatch && batchSymbol(n, k, s, negA, R) {
		// the random-linear-combination shortcut accepted: every entry is reported valid (each was admitted)
		verif.Assert(all, "batch equation holds: all entries reported valid")
	} else {
		for i := 0; i < n; i++ {
			verif.Assert(valid[i] == (refs[i].admit && refs[i].equation), "serial fallback: per-entry result = single-signature predicate")
		}
	}
}

//verif:ob prop=C09 name=BatchVerifier_VerifyBatchOnly_edge_cases mode=bv tags=purego use=gapi split=c:0..2
func vh_C09_batchonly() {
	c := verif.Case("c")
	v := NewBatchVerifier()
	pk := make([]byte, 32)
	sig := make([]byte, 64)
	msg := make([]byte, 1)
	verif.AnyBytes("pk", pk)
	verif.AnyBytes("sig", sig)
	verif.AnyBytes("msg", msg)
	switch c {
	case 0:
		ok, res := v.Verify(nil)
		verif.Assert(!v.VerifyBatchOnly(nil) && !ok && res == nil, "empty batch: (false, nil)")
	case 1:
		v.AddWithOptions(pk, msg, sig, &Options{Verify: VerifyOptionsStdLib}) // cofactorless entry
		verif.Assert(!v.VerifyBatchOnly(nil), "any cofactorless entry: batch-only verification is false")
	case 2:
		v.AddWithOptions(pk, msg, sig[:63], optionsDefault) // malformed entry
		verif.Assert(!v.VerifyBatchOnly(nil), "any malformed entry: batch-only verification is false")
		v.Reset()
		verif.Assert(len(v.entries) == 0 && !v.anyInvalid && !v.anyCofactorless && !v.anyNotExpanded, "Reset clears the accumulated state")
	}
}

// crossing the expansion limit: one Add from a verifier that already holds m entries
//
//verif:ob prop=C09 name=BatchVerifier_expansion_threshold mode=bv tags=purego use=gapi split=m:0+93..95
func vh_C09_threshold() {
	m := verif.Case("m")
	v := NewBatchVerifier()
	v.entries = make([]entry, m)
	v.anyNotExpanded = verif.AnyBool("anyNotExpanded")
	before := v.anyNotExpanded
	pk := make([]byte, 32)
	sig := make([]byte, 64)
	msg := make([]byte, 1)
	verif.AnyBytes("pk", pk)
	verif.AnyBytes("sig", sig)
	verif.AnyBytes("msg", msg)
	v.AddWithOptions(pk, msg, sig, optionsDefault)
	verif.Assert(len(v.entries) == m+1, "entry appended")
	e := &v.entries[m]
	// (default options: the key must decode, not be of small order and be canonically encoded to be admitted)
	admitted := curve.GDecodes(pk) && !curve.GSmallOrder(curve.GPoint(pk)) && canonicalEncoding(pk)
	expectExpanded := !before && m < 94 && admitted
	verif.Assert((e.expandedA != nil) == expectExpanded, "admitted keys are expanded exactly below the 94-entry limit (and when not forced off)")
	verif.Assert(v.anyNotExpanded == (before || m >= 94 || !admitted), "anyNotExpanded tracks unexpanded entries")
}

// helpers for the cache package harness

// VerifExpandedFor: the expansion of a decodable key as NewExpandedPublicKey builds it.
func VerifExpandedFor(pk []byte) *ExpandedPublicKey {
	e, _ := NewExpandedPublicKey(pk)
	return e
}

// VerifPredicateDefault: the C01 predicate under the default options (pure Ed25519).
func VerifPredicateDefault(pk, msg, sig []byte) bool {
	return verifyPredicate(VerifyOptionsDefault, 0, nil, pk, msg, sig)
}

// VerifExpandedRaw: an expanded key object whose CompressedY() is pk (all the LRU cache reads of it).
func VerifExpandedRaw(pk []byte) *ExpandedPublicKey {
	e := &ExpandedPublicKey{}
	copy(e.compressed[:], pk)
	return e
}

// accessors for the cache package harness
func VerifBatchLen(v *BatchVerifier) int         { return len(v.entries) }
func VerifBatchAnyInvalid(v *BatchVerifier) bool { return v.anyInvalid }

//go:build verif

package ed25519

import "github.com/oasisprotocol/curve25519-voi/internal/verif"

// key derivation and signing with a secret seed: the secret-handling spine (hash outputs, clamped scalar,
// nonce, S) never reaches a branch, an index or a variable-time routine. Group/scalar kernels are contracts
// (their own constant-time checks are ct_field_kernels / ct_scalar_arithmetic / ct_*_mul).
//
//verif:ob prop=C08,C18 name=ct_ed25519_keygen_and_sign mode=bv tags=purego ct=1 use=gapi split=mode:0..1;rnd:0..1 sharedro=1
func vh_C08_sign() {
	verif.Secret("seed")
	verif.Secret("rand#")
	seed := make([]byte, 32)
	verif.AnyBytes("seed", seed)
	priv := NewKeyFromSeed(seed)
	msg := make([]byte, 2)
	verif.AnyBytes("msg", msg)
	ctx := make([]byte, verif.Case("mode"))
	verif.AnyBytes("ctx", ctx)
	_, _ = priv.Sign(nil, msg, &Options{Context: string(ctx), AddedRandomness: verif.Case("rnd") == 1})
}

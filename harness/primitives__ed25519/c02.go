//go:build verif

package ed25519

import (
	"crypto"

	"github.com/oasisprotocol/curve25519-voi/curve"
	"github.com/oasisprotocol/curve25519-voi/curve/scalar"
	"github.com/oasisprotocol/curve25519-voi/internal/verif"
)

func clamp32(h []byte) [32]byte {
	var a [32]byte
	copy(a[:], h[:32])
	a[0] &= 248
	a[31] &= 127
	a[31] |= 64
	return a
}

// RFC 8032 5.1.5: public key = encode([clamp(SHA-512(seed)[0:32])]B); private key = seed || public key.
//
//verif:ob prop=C02 name=NewKeyFromSeed_RFC8032 mode=bv tags=purego use=gapi
func vh_C02_keygen() {
	seed := make([]byte, 32)
	verif.AnyBytes("seed", seed)
	priv := NewKeyFromSeed(seed)
	h := verif.HashOf("sha512", 64, seed)
	a := clamp32(h)
	A := curve.GEncode(curve.GBaseMul(verif.BVLE(a[:])))
	verif.Assert(len(priv) == 64, "private key is 64 bytes")
	verif.Assert(verif.BVLE(priv[:32]).Eq(verif.BVLE(seed)), "private key starts with the seed")
	verif.Assert(verif.BVLE(priv[32:]).Eq(A), "public half = encode([clamp(H(seed)[0:32])]B)")
}

//verif:ob prop=C02,C19 name=NewKeyFromSeed_bad_length_panics mode=bv tags=purego use=gapi split=n:0..1+31+33+64 allowpanic=bad_seed|bad.seed noreach
func vh_C02_keygen_len() {
	seed := make([]byte, verif.Case("n"))
	verif.AnyBytes("seed", seed)
	_ = NewKeyFromSeed(seed)
	verif.Unreachable("NewKeyFromSeed with a wrong seed length must panic (documented)")
}

//verif:ob prop=C02 name=GenerateKey mode=bv tags=purego use=gapi
func vh_C02_generate() {
	pub, priv, err := GenerateKey(nil)
	if err != nil {
		verif.Assert(pub == nil && priv == nil, "no key on entropy failure")
		return
	}
	verif.Assert(len(pub) == 32 && len(priv) == 64 && verif.BVLE(pub).Eq(verif.BVLE(priv[32:])), "public key is the second half of the private key")
}

// RFC 8032 5.1.6 with dom2, plus the documented added-randomness framing.
func signRef(priv []byte, mode int, ctx, msg []byte, z []byte) (R, S verif.BV) {
	h := verif.HashOf("sha512", 64, priv[:32])
	a := clamp32(h)
	a[31] &= 127
	prefix := h[32:]
	dom := dom2Ref(mode, ctx)
	var in []byte
	in = append(in, dom...)
	if z != nil {
		in = append(in, z...)
	}
	in = append(in, prefix...)
	if z != nil {
		in = append(in, make([]byte, 1024-(len(dom)+32+32))...)
	}
	in = append(in, msg...)
	r := scalar.GReduce64(verif.HashOf("sha512", 64, in))
	R = curve.GEncode(curve.GBaseMul(r))
	var rb [32]byte
	verif.BVToBytes(R, rb[:])
	var in2 []byte
	in2 = append(in2, dom...)
	in2 = append(in2, rb[:]...)
	in2 = append(in2, priv[32:]...)
	in2 = append(in2, msg...)
	k := scalar.GReduce64(verif.HashOf("sha512", 64, in2))
	S = scalar.GAdd(scalar.GMul(k, verif.BVLE(a[:])), r)
	return
}

//verif:ob prop=C02,C18 name=Sign_RFC8032 mode=bv tags=purego use=gapi split=mode:0..2;nm:0..2;nc:0..2+128+255;rnd:0..1 tsplit=mode:0..2;nm:0..3;nc:0..3+127..129+254..255;rnd:0..1 sharedro=1
func vh_C02_sign() {
	mode, nm, nc, rnd := verif.Case("mode"), verif.Case("nm"), verif.Case("nc"), verif.Case("rnd")
	if mode == 2 {
		nm = 64
	}
	if (mode == 0) != (nc == 0) && mode != 2 {
		return // pure Ed25519 has no context, Ed25519ctx needs one; Ed25519ph takes any context incl. the empty one
	}
	priv := make([]byte, 64)
	verif.AnyBytes("priv", priv)
	msg := make([]byte, nm)
	verif.AnyBytes("msg", msg)
	ctx := make([]byte, nc)
	verif.AnyBytes("ctx", ctx)
	opts := &Options{Context: string(ctx), AddedRandomness: rnd == 1}
	if mode == 2 {
		opts.Hash = crypto.SHA512
	}
	sig, err := PrivateKey(priv).Sign(nil, msg, opts)
	if err != nil {
		verif.Assert(rnd == 1 && sig == nil, "the only failure is the entropy source (added randomness)")
		return
	}
	var z []byte
	if rnd == 1 {
		z = make([]byte, 32)
		verif.AnyBytes("rand#1", z) // the bytes the entropy stub handed out
	}
	R, S := signRef(priv, mode, ctx, msg, z)
	verif.Assert(len(sig) == 64, "signature is 64 bytes")
	verif.Assert(verif.BVLE(sig[:32]).Eq(R), "R = encode([r]B), r = H(dom2 || [Z] || prefix || [pad] || M) mod L")
	verif.Assert(verif.BVLE(sig[32:]).Eq(S), "S = (r + H(dom2 || R || A || M) * a) mod L")
}

// invalid options, context, hash or key lengths yield an error and never a signature
//
//verif:ob prop=C02,C19 name=Sign_rejects_invalid_configuration mode=bv tags=purego use=gapi split=c:0..5;nk:0+32+63..65
func vh_C02_sign_errors() {
	c, nk := verif.Case("c"), verif.Case("nk")
	priv := make([]byte, nk)
	verif.AnyBytes("priv", priv)
	msg := make([]byte, 3)
	verif.AnyBytes("msg", msg)
	opts := &Options{}
	bad := nk != 64
	switch c {
	case 1:
		opts.Verify = &VerifyOptions{AllowNonCanonicalR: true, CofactorlessVerify: true}
		bad = true
	case 2:
		opts.Context = string(make([]byte, 256))
		bad = true
	case 3:
		opts.Hash = crypto.SHA512 // ph with a 3-byte "digest"
		bad = true
	case 4:
		opts.Hash = crypto.SHA256
		bad = true
	case 5:
		opts.Context = string(make([]byte, 255)) // allowed
	}
	sig, err := PrivateKey(priv).Sign(nil, msg, opts)
	verif.Assert((err != nil) == bad, "error exactly for the invalid configurations")
	verif.Assert((sig == nil) == (err != nil), "never a signature together with an error")
}

// SelfVerify: the signature is returned exactly when it verifies under the configured preset.
//
//verif:ob prop=C02 name=Sign_SelfVerify mode=bv tags=purego use=gapi split=mode:0..1
func vh_C02_selfverify() {
	mode := verif.Case("mode")
	priv := make([]byte, 64)
	verif.AnyBytes("priv", priv)
	msg := make([]byte, 2)
	verif.AnyBytes("msg", msg)
	ctx := make([]byte, mode)
	verif.AnyBytes("ctx", ctx)
	vo := anyVerifyOptions()
	verif.Assume(!(vo.AllowNonCanonicalR && vo.CofactorlessVerify))
	opts := &Options{Context: string(ctx), SelfVerify: true, Verify: vo}
	sig, err := PrivateKey(priv).Sign(nil, msg, opts)
	R, S := signRef(priv, mode, ctx, msg, nil)
	var rs [64]byte
	verif.BVToBytes(R, rs[:32])
	verif.BVToBytes(S, rs[32:])
	ok := verifyPredicate(vo, mode, ctx, priv[32:], msg, rs[:])
	verif.Assert((err == nil) == ok, "self-verification failure is an error")
	if err == nil {
		verif.Assert(verif.BVLE(sig).Eq(verif.BVLE(rs[:])), "same signature as without self-verification")
	}
}

// Completeness at the level of what the scalar and group symbols mean (C05: Mul/Add are exact mod L; C03:
// MulBasepoint is [s]B; B has prime order L):  S = (r + k*a) mod L  ==>  S*B - k*(a*B) - r*B = 0.
//
//verif:ob prop=C02 name=Sign_completeness_identity mode=int tags=purego
func vh_C02_completeness() {
	L := verif.IntLit("0x" + hexL)
	r, k, a := verif.AnyIntG("r"), verif.AnyIntG("k"), verif.AnyIntG("a")
	S := k.Mul(a).Add(r).Mod(L)
	// coefficient of B in  S*B - k*(a*B) - r*B
	coef := S.Sub(k.Mul(a)).Sub(r)
	verif.Assert(verif.ModEq(coef, verif.IntK(0), L), "the verification equation holds identically (coefficient of B is a multiple of L)")
	verif.Assert(verif.IntK(0).Le(S) && S.Lt(L), "S is canonical")
}

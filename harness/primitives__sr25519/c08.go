//go:build verif

package sr25519

import "github.com/oasisprotocol/curve25519-voi/internal/verif"

//verif:ob prop=C08,C18 name=ct_sr25519_sign mode=bv tags=purego ct=1 use=gapi,strobe.kf_keccak sharedro=1
func vh_C08_sr_sign() {
	verif.Secret("key")
	verif.Secret("nonce")
	verif.Secret("rand#")
	kp, _ := anyKeyPair()
	msg := make([]byte, 1)
	verif.AnyBytes("msg", msg)
	st := NewSigningContext([]byte("ctx")).NewTranscriptBytes(msg)
	_, _ = kp.Sign(nil, st)
}

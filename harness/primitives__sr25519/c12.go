//go:build verif

package sr25519

import (
	"github.com/oasisprotocol/curve25519-voi/curve"
	"github.com/oasisprotocol/curve25519-voi/curve/scalar"
	"github.com/oasisprotocol/curve25519-voi/internal/scalar128"
	"github.com/oasisprotocol/curve25519-voi/internal/verif"
	"github.com/oasisprotocol/curve25519-voi/primitives/merlin"
)

const hexL = "1000000000000000000000000000000014def9dea2f79cd65812631a5cf5d3ed"

func belowL(b []byte) bool { return verif.BVLE(b).ULT(verif.BVHex(hexL, 256)) }

// ---------------- decoders: exactly one accepted encoding, receiver reset on error ----------------

//verif:ob prop=C12,C19 name=Signature_UnmarshalBinary mode=bv tags=purego use=gapi split=n:0..1+63..65+96+128
func vh_C12_sig() {
	n := verif.Case("n")
	data := make([]byte, n)
	verif.AnyBytes("data", data)
	var sig Signature
	verif.AnyBytes("junk", sig.rCompressed[:])
	sig.s = scalar.New()
	err := sig.UnmarshalBinary(data)
	want := false
	if n == 64 {
		var upper [32]byte
		copy(upper[:], data[32:])
		upper[31] &= 127
		want = data[63]&128 != 0 && belowL(upper[:])
	}
	verif.Assert((err == nil) == want, "accepted iff 64 bytes, marker bit set, scalar (bit 255 cleared) below L")
	if err != nil {
		var id curve.CompressedRistretto
		id.Identity()
		verif.Assert(sig.s == nil && sig.rCompressed == id, "receiver reset on error")
		return
	}
	out, merr := sig.MarshalBinary()
	same := merr == nil && len(out) == 64
	for i := 0; i < 64 && same; i++ {
		same = same && out[i] == data[i]
	}
	verif.Assert(same, "MarshalBinary(UnmarshalBinary(b)) = b")
}

//verif:ob prop=C12,C19 name=PublicKey_UnmarshalBinary mode=bv tags=purego use=gapi split=n:0..1+31..33+64
func vh_C12_pk() {
	n := verif.Case("n")
	data := make([]byte, n)
	verif.AnyBytes("data", data)
	var pk PublicKey
	verif.AnyBytes("junk", pk.compressed[:])
	pk.point = curve.NewRistrettoPoint()
	err := pk.UnmarshalBinary(data)
	want := n == 32 && curve.RDecodes(data)
	verif.Assert((err == nil) == want, "accepted iff 32 bytes that decode as a ristretto255 element")
	if err != nil {
		var id curve.CompressedRistretto
		id.Identity()
		verif.Assert(pk.point == nil && pk.compressed == id, "receiver reset on error")
		return
	}
	out, _ := pk.MarshalBinary()
	same := len(out) == 32
	for i := 0; i < 32 && same; i++ {
		same = same && out[i] == data[i]
	}
	verif.Assert(same, "MarshalBinary(UnmarshalBinary(b)) = b")
}

//verif:ob prop=C12,C19 name=SecretKey_UnmarshalBinary mode=bv tags=purego use=gapi split=n:0..1+63..65+96
func vh_C12_sk() {
	n := verif.Case("n")
	data := make([]byte, n)
	verif.AnyBytes("data", data)
	var sk SecretKey
	err := sk.UnmarshalBinary(data)
	want := n == 64 && belowL(data[:32])
	verif.Assert((err == nil) == want, "accepted iff 64 bytes with a canonical scalar (< L)")
	if err == nil {
		out, _ := sk.MarshalBinary()
		same := len(out) == 64
		for i := 0; i < 64 && same; i++ {
			same = same && out[i] == data[i]
		}
		verif.Assert(same, "MarshalBinary(UnmarshalBinary(b)) = b")
	}
}

//verif:ob prop=C12,C19 name=KeyPair_UnmarshalBinary mode=bv tags=purego use=gapi split=n:0+95..97+128
func vh_C12_kp() {
	n := verif.Case("n")
	data := make([]byte, n)
	verif.AnyBytes("data", data)
	var kp KeyPair
	kp.sk, kp.pk = &SecretKey{}, &PublicKey{}
	err := kp.UnmarshalBinary(data)
	want := false
	if n == 96 {
		want = belowL(data[:32]) && curve.RDecodes(data[64:]) &&
			curve.REncode(curve.RBaseMul(verif.BVLE(data[:32]))).Eq(verif.BVLE(data[64:]))
	}
	verif.Assert((err == nil) == want, "accepted iff 96 bytes, canonical scalar, valid point, and the point is the scalar's public key")
	if err != nil {
		verif.Assert(kp.sk == nil && kp.pk == nil, "receiver reset on error")
	}
}

//verif:ob prop=C12,C19 name=MiniSecretKey_UnmarshalBinary mode=bv tags=purego split=n:0+31..33
func vh_C12_msk() {
	n := verif.Case("n")
	data := make([]byte, n)
	verif.AnyBytes("data", data)
	var m MiniSecretKey
	err := m.UnmarshalBinary(data)
	verif.Assert((err == nil) == (n == 32), "accepted iff 32 bytes")
}

// scalarDivideByCofactor: exact division of the 256-bit value by 8 (then bit 255 cleared by SetBits)
//
//verif:ob prop=C12 name=scalarDivideByCofactor mode=bv tags=purego
func vh_C12_div8() {
	var b [32]byte
	verif.AnyBytes("b", b[:])
	s, err := scalarDivideByCofactor(b[:])
	verif.Assert(err == nil, "no error")
	var out [32]byte
	_ = s.ToBytes(out[:])
	verif.Assert(verif.BVLE(out[:]).Eq(verif.BVLE(b[:]).Lshr(3)), "result = floor(le(b) / 8)")
}

// ---------------- key expansion and signing against the schnorrkel definition ----------------

//verif:ob prop=C12 name=ExpandEd25519_and_ExpandUniform mode=bv tags=purego use=gapi,strobe.kf_keccak
func vh_C12_expand() {
	var msk MiniSecretKey
	verif.AnyBytes("msk", msk[:])
	sk := msk.ExpandEd25519()
	d := verif.HashOf("sha512", 64, msk[:])
	var k [32]byte
	copy(k[:], d[:32])
	k[0] &= 248
	k[31] &= 63
	k[31] |= 64
	var kb [32]byte
	_ = sk.key.ToBytes(kb[:])
	verif.Assert(verif.BVLE(kb[:]).Eq(verif.BVLE(k[:]).Lshr(3)), "ExpandEd25519: key = clamp(SHA-512(msk)[0:32]) / 8")
	verif.Assert(verif.BVLE(sk.nonce[:]).Eq(verif.BVLE(d[32:])), "ExpandEd25519: nonce = SHA-512(msk)[32:64]")

	su := msk.ExpandUniform()
	t := merlin.NewTranscript("ExpandSecretKeys")
	t.AppendMessage("mini", msk[:])
	var wide [64]byte
	t.ExtractBytes(wide[:], "sk")
	var no [32]byte
	t.ExtractBytes(no[:], "no")
	_ = su.key.ToBytes(kb[:])
	verif.Assert(verif.BVLE(kb[:]).Eq(scalar.GReduce64(wide[:])) && su.nonce == no, "ExpandUniform: schnorrkel's Merlin derivation")
}

type fixedReader struct{ b []byte }

func (f *fixedReader) Read(p []byte) (int, error) { return copy(p, f.b), nil }

func anyKeyPair() (*KeyPair, verif.BV) {
	var kb [32]byte
	verif.AnyBytes("key", kb[:])
	key, _ := scalar.NewFromBits(kb[:])
	sk := &SecretKey{key: key}
	verif.AnyBytes("nonce", sk.nonce[:])
	kv := verif.BVLE(kb[:]).And(verif.BVHex("7fffffffffffffffffffffffffffffffffffffffffffffffffffffffffffffff", 256))
	return sk.KeyPair(), kv
}

//verif:ob prop=C12,C18 name=Sign_and_Verify_vs_schnorrkel mode=bv tags=purego use=gapi,strobe.kf_keccak split=nm:0..2 sharedro=1
func vh_C12_sign() {
	kp, kv := anyKeyPair()
	msg := make([]byte, verif.Case("nm"))
	verif.AnyBytes("msg", msg)
	ctx := NewSigningContext([]byte("ctx"))
	st := ctx.NewTranscriptBytes(msg)
	sig, err := kp.Sign(nil, st)
	if err != nil {
		verif.Assert(sig == nil, "entropy failure: no signature")
		return
	}
	// schnorrkel: t = clone; proto-name "Schnorr-sig"; sign:pk A; r = witness("signing", nonce, rng); R = rB;
	// sign:R R; k = challenge_scalar("sign:c"); s = k*key + r
	A := curve.REncode(curve.RBaseMul(kv))
	var ab [32]byte
	verif.BVToBytes(A, ab[:])
	t := st.t.Clone()
	t.AppendMessage("proto-name", []byte("Schnorr-sig"))
	t.AppendMessage("sign:pk", ab[:])
	rb := t.BuildRng().RekeyWithWitnessBytes("signing", kp.sk.nonce[:])
	ent := make([]byte, 32)
	verif.AnyBytes("rand#1", ent) // the entropy the stub handed to Sign
	rng, _ := rb.Finalize(&fixedReader{ent})
	var wide [64]byte
	_, _ = rng.Read(wide[:])
	r := scalar.GReduce64(wide[:])
	R := curve.REncode(curve.RBaseMul(r))
	var rbytes [32]byte
	verif.BVToBytes(R, rbytes[:])
	t.AppendMessage("sign:R", rbytes[:])
	var cw [64]byte
	t.ExtractBytes(cw[:], "sign:c")
	k := scalar.GReduce64(cw[:])
	s := scalar.GAdd(scalar.GMul(k, kv), r)
	var sb [32]byte
	_ = sig.s.ToBytes(sb[:])
	verif.Assert(verif.BVLE(sig.rCompressed[:]).Eq(R), "R = encode([r]B), r from the witness RNG keyed with the nonce and entropy")
	verif.Assert(verif.BVLE(sb[:]).Eq(s), "s = k*key + r with k = challenge(proto-name, sign:pk, sign:R, sign:c)")

	// verification computes the same challenge and tests  [k](-A) + [s]B - R = 0
	ok := kp.pk.Verify(st, sig)
	want := curve.RDecodes(rbytes[:]) && curve.RIsIdentity(curve.RTriple(k, curve.RNeg(curve.Rid(kp.pk.point)), s, curve.RPoint(rbytes[:])))
	verif.Assert(ok == want, "Verify decodes R, derives the same challenge and evaluates the Schnorr equation")
}

// ---------------- batch verification ----------------
//
// Entries are built through the public decoders from arbitrary bytes, or left uninitialised (kind 1: zero
// Signature, kind 2: zero PublicKey): every way an entry can be malformed at Add time. Claimed:
//   * every per-entry result reported by the serial path equals PublicKey.Verify on that entry;
//   * the summary is false whenever some entry fails single verification ON THE SERIAL PATH or was flagged at
//     Add; a true summary implies every per-entry result is true;
//   * VerifyBatchOnly is false for an empty batch and for a batch with an entry flagged at Add.
// Not claimed (probabilistic): that the random linear combination accepts only valid batches.
//
//verif:ob prop=C12,C09 name=sr25519_BatchVerifier mode=bv tags=purego use=gapi,strobe.kf_keccak split=n:0..2;k0:0..2;k1:0..2;which:0..1;prev:0..1 allowpanic=delinearization|batch.verification.scalar
func vh_C12_batch() {
	n := verif.Case("n")
	kinds := []int{verif.Case("k0"), verif.Case("k1")}
	prev := verif.Case("prev")
	if (n < 2 && kinds[1] != 0) || (n < 1 && kinds[0] != 0) || (prev == 1 && (n == 0 || verif.Case("which") == 0 || kinds[0] != 0 || kinds[1] != 0)) {
		verif.SkipRun()
		return
	}
	bv := NewBatchVerifier()
	randName := "rand#1"
	if prev == 1 {
		// the verifier is REUSED: an earlier well-formed batch went through VerifyBatchOnly, then Reset
		var pkb [32]byte
		verif.AnyBytes("pkP", pkb[:])
		var sgb [64]byte
		verif.AnyBytes("sigP", sgb[:])
		pk, sig := &PublicKey{}, &Signature{}
		errP := pk.UnmarshalBinary(pkb[:])
		errS := sig.UnmarshalBinary(sgb[:])
		verif.Assume(errP == nil && errS == nil && curve.RDecodes(sig.rCompressed[:]))
		bv.Add(pk, NewSigningContext([]byte("ctx")).NewTranscriptBytes([]byte("p")), sig)
		_ = bv.VerifyBatchOnly(nil)
		bv.Reset()
		randName = "rand#2"
	}
	single := make([]bool, n)
	flagged := false
	var pks []*PublicKey
	var sigs []*Signature
	var sts, sts2 []*SigningTranscript
	for i := 0; i < n; i++ {
		var pkb [32]byte
		verif.AnyBytes("pk"+string(rune('0'+i)), pkb[:])
		var sgb [64]byte
		verif.AnyBytes("sig"+string(rune('0'+i)), sgb[:])
		var msg [1]byte
		verif.AnyBytes("msg"+string(rune('0'+i)), msg[:])
		pk, sig := &PublicKey{}, &Signature{}
		if kinds[i] != 2 {
			if err := pk.UnmarshalBinary(pkb[:]); err != nil {
				pk = &PublicKey{}
			}
		}
		if kinds[i] != 1 {
			if err := sig.UnmarshalBinary(sgb[:]); err != nil {
				sig = &Signature{}
			}
		}
		ctx := NewSigningContext([]byte("ctx"))
		single[i] = pk.Verify(ctx.NewTranscriptBytes(msg[:]), sig)
		flagged = flagged || pk.point == nil || sig.s == nil || !curve.RDecodes(sig.rCompressed[:])
		pks, sigs = append(pks, pk), append(sigs, sig)
		sts, sts2 = append(sts, ctx.NewTranscriptBytes(msg[:])), append(sts2, ctx.NewTranscriptBytes(msg[:]))
		bv.Add(pk, ctx.NewTranscriptBytes(msg[:]), sig)
	}
	verif.Assert(bv.anyInvalid == flagged, "Add flags exactly the entries with an uninitialised key/signature or an undecodable R")
	if verif.Case("which") == 1 {
		got := bv.VerifyBatchOnly(nil)
		if n == 0 || flagged {
			verif.Assert(!got, "VerifyBatchOnly: false for an empty batch and for a batch with a flagged entry")
			return
		}
		// well-formed entries: the batch equation of schnorrkel's verify_batch, with one INDEPENDENT 128-bit
		// coefficient per entry drawn from the delinearisation transcript
		//   V-RNG transcript: all A_i, then all R_i, then 16 witness bytes of every signing transcript;
		//   rng = witness rng of that transcript keyed with 32 bytes of entropy;  z_i = next 16 bytes of rng;
		//   [-sum z_i s_i]B + sum [z_i]R_i + sum [z_i k_i]A_i  is the identity
		vr := merlin.NewTranscript("V-RNG")
		for i := 0; i < n; i++ {
			vr.AppendMessage("", pks[i].compressed[:])
		}
		for i := 0; i < n; i++ {
			vr.AppendMessage("", sigs[i].rCompressed[:])
		}
		for i := 0; i < n; i++ {
			wr, _ := sts[i].t.BuildRng().Finalize(&fixedReader{make([]byte, 32)})
			var w [16]byte
			_, _ = wr.Read(w[:])
			vr.AppendMessage("", w[:])
		}
		ent := make([]byte, 32)
		verif.AnyBytes(randName, ent)
		zr, _ := vr.BuildRng().Finalize(&fixedReader{ent})
		zero := verif.BVHex("0", 256)
		bco := zero
		var zs, ks []verif.BV
		for i := 0; i < n; i++ {
			var zb [32]byte
			_, _ = zr.Read(zb[:16])
			// (a draw of exactly 0 is replaced by 2^128; the real code keeps its 32-byte buffer across entries, so
			// after such a draw - probability 2^-128 - the NEXT coefficient also carries bit 128: still a valid
			// non-zero coefficient, not a finding; the comparison is made for non-zero draws)
			verif.Assume(!verif.BVLE(zb[:16]).Eq(verif.BVHex("0", 128)))
			scalar128.FixRawRangeVartime(&zb)
			z := verif.BVLE(zb[:])
			var sb [32]byte
			_ = sigs[i].s.ToBytes(sb[:])
			k := deriveVerifyChallengeScalar(pks[i], sts2[i], sigs[i])
			var kb [32]byte
			_ = k.ToBytes(kb[:])
			bco = scalar.GAdd(bco, scalar.GMul(z, verif.BVLE(sb[:])))
			zs = append(zs, z)
			ks = append(ks, scalar.GMul(z, verif.BVLE(kb[:])))
		}
		acc := curve.RMsmStep(zero, scalar.GNegS(bco), curve.Rid(curve.RISTRETTO_BASEPOINT_POINT))
		for i := 0; i < n; i++ {
			acc = curve.RMsmStep(acc, zs[i], curve.RPoint(sigs[i].rCompressed[:]))
		}
		for i := 0; i < n; i++ {
			acc = curve.RMsmStep(acc, ks[i], curve.Rid(pks[i].point))
		}
		verif.Assert(got == curve.RIsIdentity(acc), "VerifyBatchOnly evaluates schnorrkel's batch equation with one independent coefficient per entry")
		return
	}
	all, valid := bv.Verify(nil)
	if n == 0 {
		verif.Assert(!all && valid == nil, "empty batch: (false, nil)")
		return
	}
	verif.Assert(len(valid) == n, "one result per entry")
	conj := true
	for i := 0; i < n; i++ {
		conj = conj && valid[i]
	}
	verif.Assert(all == conj, "summary = conjunction of the per-entry results")
	if !all {
		ok := true
		for i := 0; i < n; i++ {
			ok = ok && valid[i] == single[i]
		}
		verif.Assert(ok, "serial path: every per-entry result equals single verification of that entry")
	}
	if flagged {
		verif.Assert(!all, "a batch with a malformed entry is never reported valid")
	}
}

// ---------------- signing contexts and transcripts (schnorrkel context.rs) ----------------
//   context(c)         = Transcript("SigningContext"); append("", c)
//   bytes(m)           = clone; append("sign-bytes", m)
//   hash256/512(h)     = clone; append("sign-256" / "sign-512", digest)
//   xof(x)             = clone; append("sign-XoF", 32 bytes of x)
// and the context object itself never moves: a second transcript from the same context is what a fresh context
// would give.

type fixedHash struct {
	sum []byte
}

func (f *fixedHash) Write(p []byte) (int, error) { return len(p), nil }
func (f *fixedHash) Sum(b []byte) []byte         { return append(b, f.sum...) }
func (f *fixedHash) Reset()                      {}
func (f *fixedHash) Size() int                   { return len(f.sum) }
func (f *fixedHash) BlockSize() int              { return 64 }

//verif:ob prop=C12 name=SigningContext_transcripts mode=bv tags=purego use=strobe.kf_keccak split=nc:0..2;kind:0..3
func vh_C12_context() {
	nc, kind := verif.Case("nc"), verif.Case("kind")
	c := make([]byte, nc)
	verif.AnyBytes("c", c)
	m := make([]byte, 2)
	verif.AnyBytes("m", m)
	ctx := NewSigningContext(c)
	ref := merlin.NewTranscript("SigningContext")
	ref.AppendMessage("", c)
	verif.Assert(merlin.VerifSameTranscript(ctx.t, ref), "NewSigningContext(c) = Transcript(\"SigningContext\") + append(\"\", c)")
	want := ref.Clone()
	var got *SigningTranscript
	switch kind {
	case 0:
		got = ctx.NewTranscriptBytes(m)
		want.AppendMessage("sign-bytes", m)
	case 1, 2:
		n := 32 * kind
		d := make([]byte, n)
		verif.AnyBytes("digest", d)
		got = ctx.NewTranscriptHash(&fixedHash{d})
		if kind == 1 {
			want.AppendMessage("sign-256", d)
		} else {
			want.AppendMessage("sign-512", d)
		}
	case 3:
		x := make([]byte, 40)
		verif.AnyBytes("xof", x)
		got = ctx.NewTranscriptXOF(&fixedReader{x})
		want.AppendMessage("sign-XoF", x[:32])
	}
	verif.Assert(merlin.VerifSameTranscript(got.t, want), "the transcript is the context plus exactly one labelled message")
	verif.Assert(merlin.VerifSameTranscript(ctx.t, ref), "the context itself is unchanged by producing a transcript")
	again := ctx.NewTranscriptBytes(m)
	w2 := ref.Clone()
	w2.AppendMessage("sign-bytes", m)
	verif.Assert(merlin.VerifSameTranscript(again.t, w2), "a later transcript from the same context is what a fresh context gives")
}

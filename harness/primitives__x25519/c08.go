//go:build verif

package x25519

import "github.com/oasisprotocol/curve25519-voi/internal/verif"

//verif:ob prop=C08,C18 name=ct_x25519 mode=bv tags=purego ct=1 use=montabs sharedro=1
func vh_C08_x25519() {
	verif.Secret("k")
	var k, u, dst [32]byte
	verif.AnyBytes("k", k[:])
	verif.AnyBytes("u", u[:])
	ScalarMult(&dst, &k, &u)
	ScalarBaseMult(&dst, &k)
}

//go:build verif

package x25519

import "github.com/oasisprotocol/curve25519-voi/internal/verif"

func clampRef(in *[32]byte) [32]byte {
	c := *in
	c[0] &= 248
	c[31] &= 127
	c[31] |= 64
	return c
}

// ScalarMult: dst = ladder(clamp(k), u) with the RFC 7748 clamping, for all 2^256 x 2^256 inputs.
//
// Every aliasing of the three arguments is a run of its own (dst == in is how the RFC's iterated test is written).
//
//verif:ob prop=C07 name=ScalarMult_clamps_and_calls_ladder mode=bv tags=purego use=montabs split=alias:0..3
func vh_ScalarMult() {
	var k, u, dst, want [32]byte
	verif.AnyBytes("k", k[:])
	verif.AnyBytes("u", u[:])
	k0, u0 := k, u
	switch verif.Case("alias") {
	case 0:
		ScalarMult(&dst, &k, &u)
		verif.Assert(k == k0 && u == u0, "the inputs are not modified")
	case 1:
		ScalarMult(&k, &k, &u) // dst == in
		dst = k
		verif.Assert(u == u0, "the point is not modified")
	case 2:
		ScalarMult(&u, &k, &u) // dst == base
		dst = u
		verif.Assert(k == k0, "the scalar is not modified")
	default:
		ScalarMult(&k, &k, &k) // all three the same array
		dst = k
		u0 = k0
	}
	k, u = k0, u0
	c := clampRef(&k)
	verif.Assert(c[0]&7 == 0 && c[31]&128 == 0 && c[31]&64 == 64, "clamped scalar: low 3 bits clear, bit 255 clear, bit 254 set")
	verif.UFBytes("x25519_ladder", want[:], c[:], u[:])
	verif.Assert(dst == want, "dst = ladder(clamp(k), u)")
}

// X25519: error exactly when a length is wrong or the result is all zero (non-basepoint path).
//
//verif:ob prop=C07,C19 name=X25519_lengths_and_low_order mode=bv tags=purego use=montabs split=ns:0..1+31..33+64;np:0..1+31..33+64
func vh_X25519() {
	ns, np := verif.Case("ns"), verif.Case("np")
	k, u := make([]byte, ns), make([]byte, np)
	verif.AnyBytes("k", k)
	verif.AnyBytes("u", u)
	out, err := X25519(k, u)
	if ns != 32 || np != 32 {
		verif.Assert(err != nil && out == nil, "wrong length is an error")
		return
	}
	var kk, uu, want [32]byte
	copy(kk[:], k)
	copy(uu[:], u)
	c := clampRef(&kk)
	verif.UFBytes("x25519_ladder", want[:], c[:], uu[:])
	var zero [32]byte
	verif.Assert((err != nil) == (want == zero), "error iff the shared value is all zero")
	if err == nil {
		same := true
		for i := 0; i < 32; i++ {
			same = same && out[i] == want[i]
		}
		verif.Assert(len(out) == 32 && same, "result = ladder(clamp(k), u)")
	} else {
		verif.Assert(out == nil, "no output on error")
	}
}

// The fixed-base entry point goes through the Edwards table and the birational map.
//
//verif:ob prop=C07 name=X25519_basepoint_path mode=int tags=purego use=montabs
func vh_X25519_base() {
	var k [32]byte
	verif.AnyBytes("k", k[:])
	out, err := X25519(k[:], Basepoint)
	c := clampRef(&k)
	c[31] &= 127 // (SetBits clears bit 255; clamping already did)
	verif.Assert(err == nil && len(out) == 32, "no error on the base point path")
	verif.Assert(verif.IntLE(out).Eq(verif.UFInt("montgomery_u_of_basemul", verif.IntLE(c[:]))), "X25519(k, Basepoint) = u([clamp(k)]B)")
}

//verif:ob prop=C07 name=DiffieHellman_uses_ScalarMult mode=bv tags=purego use=montabs
func vh_DH() {
	var priv PrivateKey
	var pub PublicKey
	verif.AnyBytes("priv", priv[:])
	verif.AnyBytes("pub", pub[:])
	sec := priv.DiffieHellman(&pub)
	var want [32]byte
	k := [32]byte(priv)
	c := clampRef(&k)
	verif.UFBytes("x25519_ladder", want[:], c[:], pub[:])
	verif.Assert([32]byte(*sec) == want, "DiffieHellman = ladder(clamp(priv), pub)")
}

// Ed25519 private key -> X25519 private key: clamp(SHA-512(seed)[:32]).
//
//verif:ob prop=C07 name=EdPrivateKeyToX25519 mode=bv tags=purego
func vh_EdPriv() {
	key := make([]byte, 64)
	verif.AnyBytes("key", key)
	out := EdPrivateKeyToX25519(key)
	d := verif.HashOf("sha512", 64, key[:32])
	var h [32]byte
	copy(h[:], d[:32])
	c := clampRef(&h)
	same := len(out) == 32
	for i := 0; i < 32 && same; i++ {
		same = same && out[i] == c[i]
	}
	verif.Assert(same, "EdPrivateKeyToX25519 = clamp(SHA-512(seed)[0:32])")
}

//go:build verif

package ecvrf

import "github.com/oasisprotocol/curve25519-voi/internal/verif"

//verif:ob prop=C08,C18 name=ct_ecvrf_prove mode=bv tags=purego ct=1 use=gapi split=rnd:0..1 sharedro=1
func vh_C08_prove() {
	verif.Secret("sk[0]")
	verif.Secret("sk[1]")
	verif.Secret("sk[2]")
	verif.Secret("sk[30]")
	verif.Secret("sk[31]")
	verif.Secret("rand#")
	sk := make([]byte, 64)
	verif.AnyBytes("sk", sk)
	alpha := make([]byte, 1)
	verif.AnyBytes("alpha", alpha)
	if verif.Case("rnd") == 1 {
		_, _ = ProveWithAddedRandomness(nil, sk, alpha)
	} else {
		_ = Prove(sk, alpha)
	}
}

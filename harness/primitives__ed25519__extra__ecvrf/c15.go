//go:build verif

package ecvrf

import (
	"github.com/oasisprotocol/curve25519-voi/curve"
	"github.com/oasisprotocol/curve25519-voi/curve/scalar"
	"github.com/oasisprotocol/curve25519-voi/internal/verif"
	"github.com/oasisprotocol/curve25519-voi/primitives/h2c"
)

const hexL = "1000000000000000000000000000000014def9dea2f79cd65812631a5cf5d3ed"

var refDST = []byte("ECVRF_edwards25519_XMD:SHA-512_ELL2_NU_\x04")

func canonicalEnc(b []byte) bool {
	var c curve.CompressedEdwardsY
	copy(c[:], b)
	return c.IsCanonicalVartime()
}

func encBytes(pid verif.BV) []byte {
	out := make([]byte, 32)
	verif.BVToBytes(curve.GEncode(pid), out)
	return out
}

// RFC 9381 5.4.3 challenge generation (ECVRF-EDWARDS25519-SHA512-ELL2, suite 0x04); the draft-10 format omits Y.
func challengeRef(withY bool, pk []byte, H, gammaBytes []byte, U, V verif.BV) [32]byte {
	in := []byte{0x04, 0x02}
	if withY {
		in = append(in, pk...)
	}
	in = append(in, H...)
	in = append(in, gammaBytes...)
	in = append(in, encBytes(U)...)
	in = append(in, encBytes(V)...)
	in = append(in, 0x00)
	d := verif.HashOf("sha512", 64, in)
	var c [32]byte
	copy(c[:16], d[:16])
	return c
}

func proofToHashRef(gamma verif.BV) []byte {
	in := []byte{0x04, 0x03}
	in = append(in, encBytes(curve.GCofactor(gamma))...)
	in = append(in, 0x00)
	return verif.HashOf("sha512", 64, in)
}

// RFC 9381 5.3 ECVRF_verify (with 5.4.5 key validation), both challenge formats.
//
//verif:ob prop=C15,C19,C18 name=Verify_vs_RFC9381 mode=bv tags=purego use=gapi split=v10:0..1;np:0+79..81+160;na:0..2;nk:32 tsplit=v10:0..1;np:0..170;na:0..2;nk:32 sharedro=1
func vh_C15_verify() {
	v10, np, na, nk := verif.Case("v10") == 1, verif.Case("np"), verif.Case("na"), verif.Case("nk")
	pk := make([]byte, nk)
	verif.AnyBytes("pk", pk)
	pi := make([]byte, np)
	verif.AnyBytes("pi", pi)
	alpha := make([]byte, na)
	verif.AnyBytes("alpha", alpha)
	var ok bool
	var beta []byte
	if v10 {
		ok, beta = Verify_v10(pk, pi, alpha)
	} else {
		ok, beta = Verify(pk, pi, alpha)
	}
	want := false
	var wantBeta []byte
	for once := true; once; once = false {
		if len(pk) != 32 || !canonicalEnc(pk) || !curve.GDecodes(pk) {
			break
		}
		Y := curve.GPoint(pk)
		if curve.GSmallOrder(Y) {
			break
		}
		if len(pi) != 80 || !canonicalEnc(pi[:32]) || !curve.GDecodes(pi[:32]) {
			break
		}
		if !verif.BVLE(pi[48:80]).ULT(verif.BVHex(hexL, 256)) {
			break
		}
		gamma := curve.GPoint(pi[:32])
		var cb [32]byte
		copy(cb[:16], pi[32:48])
		c := verif.BVLE(cb[:])
		s := scalar.GReduce32(pi[48:80])
		var salted []byte
		salted = append(salted, pk...)
		salted = append(salted, alpha...)
		H := h2c.GEncodeToCurveNU(refDST, salted)
		U := curve.GDouble(c, curve.GNeg(Y), s) // s*B - c*Y
		V := curve.GMsmStep(curve.GMsmStep(curve.GIdentity(), s, H), c, curve.GNeg(gamma))
		cp := challengeRef(!v10, pk, encBytes(H), pi[:32], U, V)
		if cp != cb {
			break
		}
		want = true
		wantBeta = proofToHashRef(gamma)
	}
	verif.Assert(ok == want, "Verify accepts exactly when RFC 9381 ECVRF_verify does")
	if want && ok {
		verif.Assert(len(beta) == 64 && verif.BVLE(beta).Eq(verif.BVLE(wantBeta)), "beta = ECVRF_proof_to_hash(pi)")
	} else if !ok {
		verif.Assert(beta == nil, "no output on rejection")
	}
}

//verif:ob prop=C15,C19 name=Verify_bad_key_lengths mode=bv tags=purego use=gapi split=nk:0..1+31+33+64
func vh_C15_keylen() {
	pk := make([]byte, verif.Case("nk"))
	verif.AnyBytes("pk", pk)
	pi := make([]byte, 80)
	verif.AnyBytes("pi", pi)
	ok, beta := Verify(pk, pi, nil)
	verif.Assert(!ok && beta == nil, "wrong key length: rejected without panic")
}

//verif:ob prop=C15,C19 name=ProofToHash mode=bv tags=purego use=gapi split=np:0+79..81+160
func vh_C15_p2h() {
	np := verif.Case("np")
	pi := make([]byte, np)
	verif.AnyBytes("pi", pi)
	beta, err := ProofToHash(pi)
	good := false
	if np == 80 {
		good = canonicalEnc(pi[:32]) && curve.GDecodes(pi[:32]) && verif.BVLE(pi[48:80]).ULT(verif.BVHex(hexL, 256))
	}
	verif.Assert((err == nil) == good, "ProofToHash decodes exactly the well-formed proofs")
	if err == nil {
		verif.Assert(verif.BVLE(beta).Eq(verif.BVLE(proofToHashRef(curve.GPoint(pi[:32])))), "beta = H(suite || 3 || encode(8*Gamma) || 0)")
	}
}

// RFC 9381 5.1 ECVRF_prove (deterministic nonce per 5.4.2.2, or the documented added-randomness framing)
//
//verif:ob prop=C15 name=Prove_vs_RFC9381 mode=bv tags=purego use=gapi split=v10:0..1;na:0..2;rnd:0..1
func vh_C15_prove() {
	v10, na, rnd := verif.Case("v10") == 1, verif.Case("na"), verif.Case("rnd") == 1
	sk := make([]byte, 64)
	verif.AnyBytes("sk", sk)
	alpha := make([]byte, na)
	verif.AnyBytes("alpha", alpha)
	var pi []byte
	var err error
	switch {
	case rnd && v10:
		pi, err = ProveWithAddedRandomness_v10(nil, sk, alpha)
	case rnd:
		pi, err = ProveWithAddedRandomness(nil, sk, alpha)
	case v10:
		pi = Prove_v10(sk, alpha)
	default:
		pi = Prove(sk, alpha)
	}
	if err != nil {
		verif.Assert(rnd && pi == nil, "the only failure is the entropy source")
		return
	}
	h := verif.HashOf("sha512", 64, sk[:32])
	var xb [32]byte
	copy(xb[:], h[:32])
	xb[0] &= 248
	xb[31] &= 127
	xb[31] |= 64
	x := verif.BVLE(xb[:])
	Y := sk[32:]
	var salted []byte
	salted = append(salted, Y...)
	salted = append(salted, alpha...)
	H := h2c.GEncodeToCurveNU(refDST, salted)
	hString := encBytes(H)
	gamma := curve.GMul(x, H)
	gammaString := encBytes(gamma)
	var nin []byte
	if rnd {
		z := make([]byte, 32)
		verif.AnyBytes("rand#1", z)
		nin = append(nin, z...)
	}
	nin = append(nin, h[32:]...)
	if rnd {
		nin = append(nin, make([]byte, 1024-(32+32))...)
	}
	nin = append(nin, hString...)
	k := scalar.GReduce64(verif.HashOf("sha512", 64, nin))
	cb := challengeRef(!v10, Y, hString, gammaString, curve.GBaseMul(k), curve.GMul(k, H))
	s := scalar.GAdd(scalar.GMul(verif.BVLE(cb[:]), x), k)
	verif.Assert(len(pi) == 80, "proof is 80 bytes")
	verif.Assert(verif.BVLE(pi[:32]).Eq(curve.GEncode(gamma)), "Gamma = encode([x]H)")
	verif.Assert(verif.BVLE(pi[32:48]).Eq(verif.BVLE(cb[:16])), "c = first 16 bytes of the challenge hash")
	verif.Assert(verif.BVLE(pi[48:80]).Eq(s), "s = (k + c*x) mod L")
}

//verif:ob prop=C15,C19 name=Prove_bad_key_length mode=bv tags=purego use=gapi split=n:0+32+63+65
func vh_C15_prove_len() {
	sk := make([]byte, verif.Case("n"))
	verif.AnyBytes("sk", sk)
	pi, err := ProveWithAddedRandomness(nil, sk, nil)
	verif.Assert(err != nil && pi == nil, "wrong private-key length is an error")
}

//go:build verif

package strobe

import (
	"math/bits"

	"github.com/oasisprotocol/curve25519-voi/internal/verif"
)

// Textbook Keccak-f[1600] (FIPS 202 section 3.2: theta, rho, pi, chi, iota), lanes A[x + 5y].

var refRC = [24]uint64{
	0x0000000000000001, 0x0000000000008082, 0x800000000000808A, 0x8000000080008000,
	0x000000000000808B, 0x0000000080000001, 0x8000000080008081, 0x8000000000008009,
	0x000000000000008A, 0x0000000000000088, 0x0000000080008009, 0x000000008000000A,
	0x000000008000808B, 0x800000000000008B, 0x8000000000008089, 0x8000000000008003,
	0x8000000000008002, 0x8000000000000080, 0x000000000000800A, 0x800000008000000A,
	0x8000000080008081, 0x8000000000008080, 0x0000000080000001, 0x8000000080008008,
}

var refRho = [25]int{
	0, 1, 62, 28, 27,
	36, 44, 6, 55, 20,
	3, 10, 43, 25, 39,
	41, 45, 15, 21, 8,
	18, 2, 61, 56, 14,
}

func refRound(a *[25]uint64, rc uint64) {
	var c, d [5]uint64
	for x := 0; x < 5; x++ {
		c[x] = a[x] ^ a[x+5] ^ a[x+10] ^ a[x+15] ^ a[x+20]
	}
	for x := 0; x < 5; x++ {
		d[x] = c[(x+4)%5] ^ bits.RotateLeft64(c[(x+1)%5], 1)
	}
	var b [25]uint64
	for x := 0; x < 5; x++ {
		for y := 0; y < 5; y++ {
			// rho and pi: B[y, 2x+3y] = rot(A[x,y] ^ D[x], r[x,y])
			nx, ny := y, (2*x+3*y)%5
			b[nx+5*ny] = bits.RotateLeft64(a[x+5*y]^d[x], refRho[x+5*y])
		}
	}
	for x := 0; x < 5; x++ {
		for y := 0; y < 5; y++ {
			a[x+5*y] = b[x+5*y] ^ (^b[(x+1)%5+5*y] & b[(x+2)%5+5*y])
		}
	}
	a[0] ^= rc
}

// one reference round by index (the step the assembly is simulated against, see engine/stubs.go)
func refRoundN(a *[25]uint64, r int) { refRound(a, refRC[r]) }

func refKeccakF1600(a *[25]uint64, rounds int) {
	for r := 0; r < rounds; r++ {
		refRound(a, refRC[r])
	}
}

// The permutation used by the transcripts equals the textbook Keccak-f[1600] on all 2^1600 states.
//
//verif:ob prop=C13,C06 name=keccakF1600_vs_FIPS202 mode=bv tags=purego,default asmsim=internal/strobe.keccakF1600:refRoundN
func vh_C13_keccak() {
	var a, r [25]uint64
	verif.AnyU64s("a", a[:])
	r = a
	keccakF1600(&a)
	refKeccakF1600(&r, 24)
	for i := 0; i < 25; i++ {
		verif.Assert(a[i] == r[i], "lane equals the reference after 24 rounds")
	}
}

//verif:ob prop=C13 name=keccakF1600Bytes_lane_order mode=bv tags=purego
func vh_C13_keccakBytes() {
	var s [200]byte
	verif.AnyBytes("s", s[:])
	var r [25]uint64
	for i := 0; i < 25; i++ {
		r[i] = verif.BVLE(s[8*i : 8*i+8]).U64()
	}
	keccakF1600Bytes(&s)
	refKeccakF1600(&r, 24)
	for i := 0; i < 25; i++ {
		for j := 0; j < 8; j++ {
			verif.Assert(s[8*i+j] == byte(r[i]>>(8*uint(j))), "byte-wise state equals the reference (little-endian lanes)")
		}
	}
}

//go:build verif

package strobe

import "github.com/oasisprotocol/curve25519-voi/internal/verif"

// The permutation as an uninterpreted function of the 200 state bytes (group "kf"): the duplex construction is
// checked independently of Keccak (whose exactness is the obligation keccakF1600_vs_FIPS202).
//
//verif:contract for=internal/strobe.keccakF1600Bytes group=kf
func kf_keccak(s *[200]byte) {
	var out [200]byte
	verif.UFBytes("keccak_f1600", out[:], s[:])
	*s = out
}

// ---- reference: STROBE v1.0.2 section 5/6, one byte at a time (R = 166, Keccak-f[1600], sec = 128) ----

type refStrobe struct {
	st       [200]byte
	pos      int
	posBegin int
	cur      flags
	r        int
	init     bool
}

func (s *refStrobe) runF() {
	if s.init {
		s.st[s.pos] ^= byte(s.posBegin)
		s.st[s.pos+1] ^= 0x04
		s.st[s.r+1] ^= 0x80
	}
	keccakF1600Bytes(&s.st)
	s.pos, s.posBegin = 0, 0
}

func (s *refStrobe) duplex(data []byte, cbefore, forceF bool) {
	for i := range data {
		if cbefore {
			data[i] ^= s.st[s.pos]
		}
		s.st[s.pos] ^= data[i]
		s.pos++
		if s.pos == s.r {
			s.runF()
		}
	}
	if forceF && s.pos != 0 {
		s.runF()
	}
}

func (s *refStrobe) operate(f flags, data []byte, more bool) {
	if !more {
		old := s.posBegin
		s.posBegin = s.pos + 1
		s.duplex([]byte{byte(old), byte(f)}, false, f&flagC != 0)
		s.cur = f
	}
	s.duplex(data, f&flagC != 0, false)
}

func refOf(s *Strobe) *refStrobe {
	return &refStrobe{st: s.st, pos: s.pos, posBegin: s.posBegin, cur: s.curFlags, r: s.r, init: s.initialized}
}

func sameState(s *Strobe, r *refStrobe) bool {
	return s.st == r.st && s.pos == r.pos && s.posBegin == r.posBegin && s.curFlags == r.cur && s.r == r.r
}

// an arbitrary initialised state with a given cursor
func anyStrobe(pos int) *Strobe {
	var s Strobe
	verif.AnyBytes("st", s.st[:])
	s.pos = pos
	s.posBegin = verif.AnyInt("posBegin")
	verif.Assume(s.posBegin >= 0 && s.posBegin <= 166)
	s.initialized = true
	s.r = 166
	s.curFlags = flags(verif.AnyU8("curFlags"))
	return &s
}

// data lengths around the block boundary for the given cursor
func lenFor(pos, k int) int {
	switch k {
	case 0, 1, 2, 3:
		return k
	case 4, 5, 6, 7:
		return 166 - pos - 2 - 1 + (k - 4) // so that the 2 framing bytes + data end at boundary-1 .. boundary+2
	default:
		return 2*166 - pos + (k - 8) - 2
	}
}

// One operation from an arbitrary initialised state equals the byte-at-a-time specification: same state,
// same cursor bookkeeping, same output bytes.
//
//verif:ob prop=C13 name=STROBE_operation_vs_spec mode=bv tags=purego use=kf split=op:0..4;pos:0+1+163..165;k:0..9 tsplit=op:0..4;pos:0..165;k:0..10
func vh_C13_strobe_op() {
	op, pos, k := verif.Case("op"), verif.Case("pos"), verif.Case("k")
	n := lenFor(pos, k)
	if n < 0 {
		n = 0
	}
	s := anyStrobe(pos)
	ref := refOf(s)
	data := make([]byte, n)
	verif.AnyBytes("data", data)
	rdata := make([]byte, n)
	copy(rdata, data)
	switch op {
	case 0:
		s.AD(data, false)
		ref.operate(flagA, rdata, false)
	case 1:
		s.MetaAD(data, false)
		ref.operate(flagA|flagM, rdata, false)
	case 2:
		verif.Assume(s.curFlags == flagA|flagM)
		s.MetaAD(data, true)
		ref.operate(flagA|flagM, rdata, true)
	case 3:
		s.KEY(data)
		ref.operate(flagA|flagC, rdata, false)
		copy(rdata, data) // KEY works on a copy: the caller's buffer is untouched
	case 4:
		s.PRF(data)
		for i := range rdata {
			rdata[i] = 0
		}
		ref.operate(flagI|flagA|flagC, rdata, false)
	}
	verif.Assert(sameState(s, ref), "state, cursor, begin marker and flags equal the specification's")
	same := true
	for i := 0; i < n; i++ {
		same = same && data[i] == rdata[i]
	}
	verif.Assert(same, "output / caller buffer equals the specification's")
}

//verif:ob prop=C13 name=STROBE_New_vs_spec mode=bv tags=purego use=kf split=n:0..2+11
func vh_C13_strobe_new() {
	proto := make([]byte, verif.Case("n"))
	verif.AnyBytes("proto", proto)
	s := New(string(proto))
	ref := &refStrobe{r: 168}
	ref.duplex([]byte{1, 168, 1, 0, 1, 96, 'S', 'T', 'R', 'O', 'B', 'E', 'v', '1', '.', '0', '.', '2'}, false, true)
	ref.r = 166
	ref.init = true
	p2 := make([]byte, len(proto))
	copy(p2, proto)
	ref.operate(flagA|flagM, p2, false)
	verif.Assert(sameState(&s, ref) && s.initialized, "New(proto) = STROBE-128/1600 initialisation followed by meta-AD(proto)")
}

//verif:ob prop=C13,C18 name=STROBE_Clone_is_independent mode=bv tags=purego use=kf sharedro=1
func vh_C13_clone() {
	s := anyStrobe(5)
	before := *s
	c := s.Clone()
	verif.Assert(*c == before, "clone has the same state")
	c.AD([]byte{1, 2, 3}, false)
	verif.Assert(*s == before, "operating on the clone leaves the origin untouched")
}

//go:build verif

package curve

import (
	"github.com/oasisprotocol/curve25519-voi/curve/scalar"
	"github.com/oasisprotocol/curve25519-voi/internal/field"
	"github.com/oasisprotocol/curve25519-voi/internal/verif"
)

func ghostFe(name string) (field.Element, verif.Int) {
	e := anyReduced(name)
	g := verif.AnyIntG(name + ".g")
	field.VerifSetFv(&e, g)
	return e, g
}

// One ladder step equals the RFC 7748 step (section 5, inner loop body, a24 = 121665) as polynomials mod p,
// and keeps every coordinate a reduced representation on both Go back ends.
//
//verif:ob prop=C07,C06 name=ladder_step_vs_RFC7748 mode=int tags=purego,force32bit use=fa
func vh_C07_step() {
	var P, Q montgomeryProjectivePoint
	var x2, z2, x3, z3, x1 verif.Int
	P.U, x2 = ghostFe("PU")
	P.W, z2 = ghostFe("PW")
	Q.U, x3 = ghostFe("QU")
	Q.W, z3 = ghostFe("QW")
	aff, x1 := ghostFe("x1")
	x1 = field.VerifFv(&aff)
	montgomeryDifferentialAddAndDouble(&P, &Q, &aff)
	// RFC 7748
	A := x2.Add(z2)
	AA := A.Mul(A)
	B := x2.Sub(z2)
	BB := B.Mul(B)
	E := AA.Sub(BB)
	C := x3.Add(z3)
	D := x3.Sub(z3)
	DA := D.Mul(A)
	CB := C.Mul(B)
	s, df := DA.Add(CB), DA.Sub(CB)
	rx3 := s.Mul(s)
	rz3 := x1.Mul(df.Mul(df))
	rx2 := AA.Mul(BB)
	rz2 := E.Mul(AA.Add(verif.IntK(121665).Mul(E)))
	Pm := field.VerifP()
	verif.Assert(verif.ModEq(field.VerifFv(&P.U), rx2, Pm), "x_2 of the RFC step")
	verif.Assert(verif.ModEq(field.VerifFv(&P.W), rz2, Pm), "z_2 of the RFC step")
	verif.Assert(verif.ModEq(field.VerifFv(&Q.U), rx3, Pm), "x_3 of the RFC step")
	verif.Assert(verif.ModEq(field.VerifFv(&Q.W), rz3, Pm), "z_3 of the RFC step")
	verif.Assert(field.VerifRedOK(&P.U) && field.VerifRedOK(&P.W) && field.VerifRedOK(&Q.U) && field.VerifRedOK(&Q.W), "outputs are reduced representations")
}

// ---- the ladder loop against the RFC 7748 control structure, the step left uninterpreted ----

func stepUF(k int, x2, z2, x3, z3, x1 verif.Int) verif.Int {
	return verif.UFInt([]string{"step_x2", "step_z2", "step_x3", "step_z3"}[k], x2, z2, x3, z3, x1)
}

//verif:contract for=curve.montgomeryDifferentialAddAndDouble group=ladderabs
func la_step(P, Q *montgomeryProjectivePoint, aff *field.Element) {
	x2, z2, x3, z3, x1 := field.VerifFv(&P.U), field.VerifFv(&P.W), field.VerifFv(&Q.U), field.VerifFv(&Q.W), field.VerifFv(aff)
	verif.Havoc(P)
	verif.Havoc(Q)
	field.VerifSetFv(&P.U, stepUF(0, x2, z2, x3, z3, x1))
	field.VerifSetFv(&P.W, stepUF(1, x2, z2, x3, z3, x1))
	field.VerifSetFv(&Q.U, stepUF(2, x2, z2, x3, z3, x1))
	field.VerifSetFv(&Q.W, stepUF(3, x2, z2, x3, z3, x1))
}

//verif:contract for=(*curve.montgomeryProjectivePoint).conditionalSwap group=ladderabs
func la_cswap(p, other *montgomeryProjectivePoint, choice int) {
	verif.Requires(choice == 0 || choice == 1, "choice is a bit")
	c := choice == 1
	pu, pw, ou, ow := field.VerifFv(&p.U), field.VerifFv(&p.W), field.VerifFv(&other.U), field.VerifFv(&other.W)
	verif.Havoc(p)
	verif.Havoc(other)
	field.VerifSetFv(&p.U, verif.IteInt(c, ou, pu))
	field.VerifSetFv(&p.W, verif.IteInt(c, ow, pw))
	field.VerifSetFv(&other.U, verif.IteInt(c, pu, ou))
	field.VerifSetFv(&other.W, verif.IteInt(c, pw, ow))
}

//verif:contract for=(*curve.MontgomeryPoint).fromProjective group=ladderabs
func la_fromProjective(p *MontgomeryPoint, pp *montgomeryProjectivePoint) *MontgomeryPoint {
	r := verif.UFInt("x_times_z_pow_p_minus_2", field.VerifFv(&pp.U), field.VerifFv(&pp.W))
	verif.Havoc(p)
	verif.Ensures(verif.IntLE(p[:]).Eq(r), "")
	return p
}

// MontgomeryPoint.Mul = RFC 7748 X25519 control structure (255 steps from bit 254 down, swap schedule,
// final swap, x_2 * z_2^(p-2)) for every scalar with bit 255 clear and every u string (bit 255 of u ignored).
//
//verif:ob prop=C07 name=ladder_loop_vs_RFC7748 mode=bv tags=purego use=ladderabs,field.fa_SetBytes maxunroll=300
func vh_C07_loop() {
	var ub [32]byte
	verif.AnyBytes("u", ub[:])
	var kb [32]byte
	verif.AnyBytes("k", kb[:])
	s, err := scalar.NewFromBits(kb[:]) // clears bit 255
	verif.Assume(err == nil)
	var pt, out MontgomeryPoint
	copy(pt[:], ub[:])
	out.Mul(&pt, s)

	// reference: RFC 7748 section 5
	x1 := field.VerifFromBytes(ub[:])
	x2, z2, x3, z3 := verif.IntK(1), verif.IntK(0), x1, verif.IntK(1)
	// k_t = bit t of the scalar (Scalar.Bits is exact: C17); the RFC's "swap ^= k_t" with swap = k_(t+1) is
	// k_(t+1) xor k_t, and k_255 = 0
	bits := s.Bits()
	swap := false
	for t := 254; t >= 0; t-- {
		kt := bits[t] == 1
		sw := int(bits[t+1]^bits[t]) == 1
		x2, x3 = verif.IteInt(sw, x3, x2), verif.IteInt(sw, x2, x3)
		z2, z3 = verif.IteInt(sw, z3, z2), verif.IteInt(sw, z2, z3)
		_ = kt
		x2, z2, x3, z3 = stepUF(0, x2, z2, x3, z3, x1), stepUF(1, x2, z2, x3, z3, x1), stepUF(2, x2, z2, x3, z3, x1), stepUF(3, x2, z2, x3, z3, x1)
	}
	swap = int(bits[0]) == 1
	x2 = verif.IteInt(swap, x3, x2)
	z2 = verif.IteInt(swap, z3, z2)
	want := verif.UFInt("x_times_z_pow_p_minus_2", x2, z2)
	verif.Assert(verif.IntLE(out[:]).Eq(want), "Mul(u, k) follows the RFC 7748 ladder exactly")
}

// fromProjective: canonical bytes of U * W^-1, zero when W = 0.
//
//verif:ob prop=C07,C10 name=fromProjective_and_SetEdwards mode=int tags=purego,force32bit use=fa
func vh_C07_fromProjective() {
	var pp montgomeryProjectivePoint
	var U, W verif.Int
	pp.U, U = ghostFe("U")
	pp.W, W = ghostFe("W")
	var out MontgomeryPoint
	out.fromProjective(&pp)
	P := field.VerifP()
	u := verif.IntLE(out[:])
	verif.Assert(u.Lt(P), "canonical output")
	if W.Mod(P).Eq(verif.IntK(0)) {
		verif.Assert(u.Eq(verif.IntK(0)), "W = 0 (point at infinity) encodes as 0")
	} else {
		verif.Assert(verif.ModEq(u.Mul(W), U, P), "u * W = U")
	}
	// Edwards -> Montgomery: u = (Z+Y)/(Z-Y); the identity (Z = Y) maps to 0
	var e EdwardsPoint
	g := ghostPoint(&e, "e")
	var m MontgomeryPoint
	m.SetEdwards(&e)
	mu := verif.IntLE(m[:])
	den := g.z.Sub(g.y.Mul(g.z))
	verif.Assert(mu.Lt(P), "canonical output")
	if den.Mod(P).Eq(verif.IntK(0)) {
		verif.Assert(mu.Eq(verif.IntK(0)), "Z = Y (identity) maps to u = 0")
	} else {
		verif.Assert(verif.ModEq(mu.Mul(den), g.z.Add(g.y.Mul(g.z)), P), "u * (Z - Y) = Z + Y")
	}
}

// ---- abstraction of the curve layer for the x25519 package (group "montabs") ----

//verif:contract for=(*curve.MontgomeryPoint).Mul group=montabs
func ma_Mul(p, point *MontgomeryPoint, s *scalar.Scalar) *MontgomeryPoint {
	var sb [32]byte
	_ = s.ToBytes(sb[:])
	var out MontgomeryPoint
	verif.UFBytes("x25519_ladder", out[:], sb[:], point[:])
	*p = out
	return p
}

//verif:contract for=(*curve.EdwardsPoint).MulBasepoint group=montabs
func ma_MulBasepoint(p *EdwardsPoint, tbl *EdwardsBasepointTable, s *scalar.Scalar) *EdwardsPoint {
	var sb [32]byte
	_ = s.ToBytes(sb[:])
	verif.Havoc(p)
	verif.GhostSet(p, "basemul", verif.IntLE(sb[:]))
	return p
}

//verif:contract for=(*curve.MontgomeryPoint).SetEdwards group=montabs
func ma_SetEdwards(p *MontgomeryPoint, e *EdwardsPoint) *MontgomeryPoint {
	r := verif.UFInt("montgomery_u_of_basemul", verif.GhostGet(e, "basemul"))
	verif.Havoc(p)
	verif.Ensures(verif.IntLE(p[:]).Eq(r), "")
	return p
}

//go:build verif

package curve

import (
	"github.com/oasisprotocol/curve25519-voi/curve/scalar"
	"github.com/oasisprotocol/curve25519-voi/internal/verif"
)

// L2, Pippenger bucket method (portable back end, w = 6), reduced: one static and one dynamic term, the radix-2^w
// recodings replaced by digit vectors that are ARBITRARY (in [-32, 32]) in two adjacent case-split columns (c0, c0+1 mod 43) and zero
// elsewhere. The whole routine runs over the Z-module ghost: bucket selection by digit, bucket weights, column
// combination by 2^w, and - above all - that scalar i is applied to point i across the static/dynamic split.
// Outside: more than 2 terms, w = 7 / 8 (more than 500 terms), digits in more than two columns at once.

var r2wDigits [][43]int8

//verif:contract for=(*curve/scalar.Scalar).ToRadix2w group=r2wabs
func ra_ToRadix2w(s *scalar.Scalar, w uint) [43]int8 {
	verif.Requires(w == 6, "w = 6 for fewer than 500 terms")
	var d [43]int8
	n := len(r2wDigits)
	for _, c := range []int{verif.Case("c0"), (verif.Case("c0") + 1) % 43} {
		x := verif.AnyI8("r2w" + string(rune('0'+n)) + "_" + nafItoa(c))
		verif.Assume(x >= -32 && x <= 32)
		d[c] = x
	}
	r2wDigits = append(r2wDigits, d)
	return d
}

func r2wSum(d *[43]int8) verif.Int {
	acc := verif.IntK(0)
	for j := 42; j >= 0; j-- {
		acc = acc.Shl(6).Add(verif.IntOfI8(d[j]))
	}
	return acc
}

//verif:ob prop=C03,C09 name=L2_pippengerGeneric_static_dynamic mode=bv tags=purego use=pt,r2wabs native=1 split=c0:0+1+41..42 tsplit=c0:0..42 timeout=300
func vh_L2_pippenger() {
	if verif.Native() {
		pippengerEndToEnd()
		return
	}
	r2wDigits = nil
	P0, P1 := genPoint("P0", 0), genPoint("P1", 1)
	var s0, s1 scalar.Scalar
	var out EdwardsPoint
	edwardsMultiscalarMulPippengerVartimeGeneric(&out, []*scalar.Scalar{&s0}, []*EdwardsPoint{P0}, []*scalar.Scalar{&s1}, []*EdwardsPoint{P1})
	k := getK(&out)
	verif.Assert(len(r2wDigits) == 2, "two recodings")
	// the recodings are requested static first, then dynamic
	verif.Assert(k[0].Eq(r2wSum(&r2wDigits[0])) && k[1].Eq(r2wSum(&r2wDigits[1])) && k[2].Eq(verif.IntK(0)), "result = s_static*P_static + s_dynamic*P_dynamic")
}

func pippengerEndToEnd() {
	var ab, bb, kb [32]byte
	verif.AnyBytes("a", ab[:])
	verif.AnyBytes("b", bb[:])
	verif.AnyBytes("k", kb[:])
	ab[31] &= 127
	bb[31] &= 127
	kb[31] &= 127
	a, _ := scalar.NewFromBits(ab[:])
	b, _ := scalar.NewFromBits(bb[:])
	k, _ := scalar.NewFromBits(kb[:])
	var A, out, ref, t EdwardsPoint
	A.MulBasepoint(ED25519_BASEPOINT_TABLE, k)
	edwardsMultiscalarMulPippengerVartimeGeneric(&out, []*scalar.Scalar{a}, []*EdwardsPoint{&A}, []*scalar.Scalar{b}, []*EdwardsPoint{ED25519_BASEPOINT_POINT})
	edwardsMulGeneric(&ref, &A, a)
	edwardsMulGeneric(&t, ED25519_BASEPOINT_POINT, b)
	ref.Add(&ref, &t)
	verif.Assert(out.Equal(&ref) == 1, "Pippenger result = [a]A + [b]B computed by the constant-time routine")
}

//go:build verif

package curve

import (
	"github.com/oasisprotocol/curve25519-voi/curve/scalar"
	"github.com/oasisprotocol/curve25519-voi/internal/verif"
)

// L2, Pippenger bucket method (portable back end), reduced: one static and one dynamic ACTIVE term, padded with
// zero-digit terms up to the term count that selects the window width (w = 6: 2 terms, w = 7: 500, w = 8: 800).
// The radix-2^w recodings are replaced by digit vectors that are ARBITRARY (in [-2^(w-1), 2^(w-1)]) in two
// adjacent case-split columns and zero elsewhere; the columns include the LAST one of ToRadix2wSizeHint(w), which for
// w = 8 holds only the terminal carry. The whole routine runs over the Z-module ghost: bucket selection by digit,
// bucket weights, column combination by 2^w, the number of columns, and that scalar i is applied to point i across
// the static/dynamic split.
// Outside: more than 2 active terms, digits in more than two columns at once.

var r2wDigits [][43]int8

func pipCount(w int) int {
	switch w {
	case 6:
		return 43
	case 7:
		return 37
	}
	return 33
}

func pipSize(w int) int {
	switch w {
	case 6:
		return 2
	case 7:
		return 500
	}
	return 800
}

// window width of the run: case-split (6, 7) or 8 for the obligation with concrete digit values
func pipW() int {
	if verif.HasCase("w") {
		return verif.Case("w")
	}
	return 8
}

var pipDigits8a = [6]int8{-128, -1, 1, 2, 127, 0}
var pipDigits8b = [6]int8{1, 0, 127, -128, -1, 2}

func pipCols() (int, int) {
	cnt := pipCount(pipW())
	c0 := verif.Case("c0")
	if verif.HasCase("cx") { // thorough tier: every column
		c0 = verif.Case("cx")
		if c0 >= cnt {
			verif.SkipRun()
			return 0, 1
		}
		return c0, (c0 + 1) % cnt
	}
	c := []int{0, 1, cnt - 2, cnt - 1}[c0]
	return c, (c + 1) % cnt
}

//verif:contract for=(*curve/scalar.Scalar).ToRadix2w group=r2wabs
func ra_ToRadix2w(s *scalar.Scalar, w uint) [43]int8 {
	verif.Requires(int(w) == pipW(), "window width follows the term count (6 below 500 terms, 7 below 800, else 8)")
	var d [43]int8
	n := len(r2wDigits)
	if n < 2 {
		ca, cb := pipCols()
		half := int8(1) << (w - 2) // (2^(w-1) does not fit int8 for w = 8)
		for j, c := range []int{ca, cb} {
			if w == 8 {
				// 128 buckets under a symbolic index do not finish: the digit VALUES are case-split for w = 8
				// (boundary values of [-128, 128)); the last column holds the terminal carry only (0 or 1)
				dv := verif.Case("dv")
				x := pipDigits8a[(dv+n)%6]
				if j == 1 {
					x = pipDigits8b[(dv+n)%6]
				}
				if c == 32 {
					x = int8((dv + n + 1) & 1)
				}
				d[c] = x
				continue
			}
			x := verif.AnyI8("r2w" + string(rune('0'+n)) + "_" + nafItoa(c))
			verif.Assume(x >= -2*half && x <= 2*half)
			d[c] = x
		}
	}
	r2wDigits = append(r2wDigits, d)
	return d
}

func r2wSum(d *[43]int8, w int) verif.Int {
	acc := verif.IntK(0)
	for j := 42; j >= 0; j-- {
		acc = acc.Shl(w).Add(verif.IntOfI8(d[j]))
	}
	return acc
}

//verif:ob prop=C03 name=L2_pippengerGeneric_w8_terminal_carry_column mode=bv tags=purego use=pt,r2wabs native=1 split=c0:0..3;dv:0..5 timeout=300
func vh_L2_pippenger_w8() { vh_L2_pippenger() }

//verif:ob prop=C03 name=L2_pippengerGeneric_w7 mode=bv tags=purego use=pt,r2wabs native=1 split=w:7;c0:0+3 tier=quickonly timeout=300
func vh_L2_pippenger_w7() { vh_L2_pippenger() }

//verif:ob prop=C03,C09,C06 name=L2_pippengerGeneric_static_dynamic mode=bv tags=purego use=pt,r2wabs native=1 split=w:6;c0:0..3 tsplit=w:6..7;cx:0..42 timeout=300
func vh_L2_pippenger() {
	if verif.Native() {
		pippengerEndToEnd()
		return
	}
	r2wDigits = nil
	w := pipW()
	size := pipSize(w)
	P0, P1, P2 := genPoint("P0", 0), genPoint("P1", 1), genPoint("P2", 2)
	var s0, s1, sz scalar.Scalar
	ds := make([]*scalar.Scalar, size-1)
	dp := make([]*EdwardsPoint, size-1)
	ds[0], dp[0] = &s1, P1
	for i := 1; i < size-1; i++ {
		ds[i], dp[i] = &sz, P2
	}
	var out EdwardsPoint
	edwardsMultiscalarMulPippengerVartimeGeneric(&out, []*scalar.Scalar{&s0}, []*EdwardsPoint{P0}, ds, dp)
	k := getK(&out)
	verif.Assert(len(r2wDigits) == size, "one recoding per term")
	// the recodings are requested static first, then dynamic
	verif.Assert(k[0].Eq(r2wSum(&r2wDigits[0], w)) && k[1].Eq(r2wSum(&r2wDigits[1], w)) && k[2].Eq(verif.IntK(0)), "result = s_static*P_static + s_dynamic*P_dynamic")
}

func pippengerEndToEnd() {
	var ab, bb, kb [32]byte
	verif.AnyBytes("a", ab[:])
	verif.AnyBytes("b", bb[:])
	verif.AnyBytes("k", kb[:])
	ab[31] &= 127
	bb[31] &= 127
	kb[31] &= 127
	a, _ := scalar.NewFromBits(ab[:])
	b, _ := scalar.NewFromBits(bb[:])
	k, _ := scalar.NewFromBits(kb[:])
	var A, out, ref, t EdwardsPoint
	A.MulBasepoint(ED25519_BASEPOINT_TABLE, k)
	edwardsMultiscalarMulPippengerVartimeGeneric(&out, []*scalar.Scalar{a}, []*EdwardsPoint{&A}, []*scalar.Scalar{b}, []*EdwardsPoint{ED25519_BASEPOINT_POINT})
	edwardsMulGeneric(&ref, &A, a)
	edwardsMulGeneric(&t, ED25519_BASEPOINT_POINT, b)
	ref.Add(&ref, &t)
	verif.Assert(out.Equal(&ref) == 1, "Pippenger result = [a]A + [b]B computed by the constant-time routine")
}

//go:build verif

package curve

import (
	"github.com/oasisprotocol/curve25519-voi/curve/scalar"
	"github.com/oasisprotocol/curve25519-voi/internal/verif"
)

// L2, variable-time double-base multiplication (portable back end): [a]A + [b]B from width-5 / width-8 NAFs.
//
// The recodings are replaced by ARBITRARY digit vectors of the NAF shape (odd or zero, below 2^(w-1) in
// magnitude) whose highest non-zero position is the case-split parameter `top` (C17 shows that the real recoding
// produces such vectors with sum d[i]*2^i = the scalar, and that position 255 can be non-zero). The claim here:
// for every such pair of digit vectors the routine returns  sum 2^i * (aNaf[i]*A + bNaf[i]*B)  over the free
// Z-module ghost - in particular no leading digit is skipped.

func nafTableOf(k kvec, n int, tblK func(j int) kvec) bool {
	ok := true
	for j := 0; j < n; j++ {
		ok = ok && kEq(tblK(j), kScale(k, 2*j+1))
	}
	return ok
}

//verif:contract for=(*curve.projectiveNielsPointNafLookupTable).Lookup group=naflk
func nl_PN_Lookup(tbl *projectiveNielsPointNafLookupTable, x uint8) *projectiveNielsPoint {
	verif.Requires(x&1 == 1 && x < 16, "odd digit below 16")
	base := getK(&tbl[0])
	verif.Requires(nafTableOf(base, 8, func(j int) kvec { return getK(&tbl[j]) }), "table entry j is (2j+1)*P")
	if verif.Real() {
		t := tbl.Lookup(x)
		verif.Ensures(kEq(getK(t), kScaleI(base, verif.IntOf8(x))), "Lookup(x) = x*P")
		return t
	}
	t := new(projectiveNielsPoint)
	verif.Havoc(t)
	setK(t, kScaleI(base, verif.IntOf8(x)))
	return t
}

//verif:ob prop=C03 name=L2_NafLookup_projectiveNiels mode=int tags=purego prove=nl_PN_Lookup
func vh_L2_nafLookupPN() {
	var tbl projectiveNielsPointNafLookupTable
	for j := 0; j < 8; j++ {
		setK(&tbl[j], kScale(kGen(0), 2*j+1))
	}
	nl_PN_Lookup(&tbl, verif.AnyU8("x"))
}

//verif:contract for=(*curve.affineNielsPointNafLookupTable).Lookup group=naflk
func nl_AN_Lookup(tbl *affineNielsPointNafLookupTable, x uint8) *affineNielsPoint {
	verif.Requires(x&1 == 1 && x < 128, "odd digit below 128")
	base := getK(&tbl[0])
	verif.Requires(nafTableOf(base, 64, func(j int) kvec { return getK(&tbl[j]) }), "table entry j is (2j+1)*P")
	if verif.Real() {
		t := tbl.Lookup(x)
		verif.Ensures(kEq(getK(t), kScaleI(base, verif.IntOf8(x))), "Lookup(x) = x*P")
		return t
	}
	t := new(affineNielsPoint)
	verif.Havoc(t)
	setK(t, kScaleI(base, verif.IntOf8(x)))
	return t
}

//verif:ob prop=C03 name=L2_NafLookup_affineNiels mode=int tags=purego prove=nl_AN_Lookup split=j:0..63
func vh_L2_nafLookupAN() {
	var tbl affineNielsPointNafLookupTable
	for j := 0; j < 64; j++ {
		setK(&tbl[j], kScale(kGen(0), 2*j+1))
	}
	nl_AN_Lookup(&tbl, uint8(2*verif.Case("j")+1))
}

// newProjectiveNielsPointNafLookupTable(P)[j] = (2j+1)*P
//
//verif:ob prop=C03 name=L2_NafTable_construction mode=int tags=purego use=pt
func vh_L2_nafTable() {
	P := genPoint("P", 0)
	tbl := newProjectiveNielsPointNafLookupTable(P)
	verif.Assert(nafTableOf(kGen(0), 8, func(j int) kvec { return getK(&tbl[j]) }), "entry j of the NAF table is (2j+1)*P")
}

var nafDigits [9][256]int8 // by width
var nafLog [][256]int8     // in call order

//verif:contract for=(*curve/scalar.Scalar).NonAdjacentForm group=nafabs
func na_NAF(s *scalar.Scalar, w uint) [256]int8 {
	var d [256]int8
	top, who := verif.Case("top"), verif.Case("who")
	lim := int8(1<<(w-1) - 1)
	for j := 0; j <= top; j++ {
		if j == top && ((w == 5) != (who == 0)) && who != 2 {
			continue // the other recoding owns the highest non-zero position
		}
		x := verif.AnyI8("naf" + string(rune('0'+w)) + "_" + nafItoa(j))
		verif.Assume(x >= -lim && x <= lim && (x == 0 || x&1 == 1))
		if j == top && who != 2 {
			verif.Assume(x != 0)
		}
		d[j] = x
	}
	nafDigits[w] = d
	nafLog = append(nafLog, d)
	return d
}

func nafItoa(n int) string {
	return string([]byte{byte('0' + n/100), byte('0' + n/10%10), byte('0' + n%10)})
}

func nafSum(w int, top int) verif.Int {
	acc := verif.IntK(0)
	for j := top; j >= 0; j-- {
		acc = acc.Shl(1).Add(verif.IntOfI8(nafDigits[w][j]))
	}
	return acc
}

// partial sums over the digits above position i:  H_w(i) = sum_{j > i} d[j] * 2^(j-i-1)
func nafAbove(d *[256]int8, i int) verif.Int {
	acc := verif.IntK(0)
	for j := 255; j > i; j-- {
		acc = acc.Shl(1).Add(verif.IntOfI8(d[j]))
	}
	return acc
}

// invariant of the main loop at the head of the iteration that processes position i
func inv_db(i int, r *projectivePoint, aNaf, bNaf *[256]int8) bool {
	if i < 0 || i > 255 {
		return false
	}
	k := getK(r)
	return k[0].Eq(nafAbove(aNaf, i)) && k[1].Eq(nafAbove(bNaf, i)) && k[2].Eq(verif.IntK(0))
}

func post_db(r *projectivePoint, aNaf, bNaf *[256]int8) bool {
	k := getK(r)
	return k[0].Eq(nafAbove(aNaf, -1)) && k[1].Eq(nafAbove(bNaf, -1)) && k[2].Eq(verif.IntK(0))
}

// One case parameter c: 0..255 = (top 255, the iteration at position i = c); 256..511 = (top = c-256: entry).
//
//verif:ob prop=C03 name=L2_doubleBaseVartimeGeneric mode=int tags=purego use=pt,naflk,nafabs cut=curve.edwardsDoubleScalarMulBasepointVartimeGenericInner:1 inv=inv_db post=post_db cutfix=i native=1 split=i:0..2+127+254..255;top:0..2+254..255;who:0..1 tsplit=i:0..255;top:0..255;who:0..1
func vh_L2_doubleBase() {
	if verif.Native() {
		doubleBaseEndToEnd()
		return
	}
	i, top := verif.Case("i"), verif.Case("top")
	// the step at position i is checked with the longest recodings (top = 255); the entry for every top
	if top != 255 && i != top {
		verif.SkipRun()
		return
	}
	var tableA projectiveNielsPointNafLookupTable
	for j := 0; j < 8; j++ {
		setK(&tableA[j], kScale(kGen(0), 2*j+1))
	}
	for j := 0; j < 64; j++ {
		setK(&constAFFINE_ODD_MULTIPLES_OF_BASEPOINT[j], kScale(kGen(1), 2*j+1))
	}
	var a, b scalar.Scalar
	var out EdwardsPoint
	edwardsDoubleScalarMulBasepointVartimeGenericInner(&out, &a, &tableA, &b)
}

// the end-to-end statement a natively replayed / searched counterexample must violate:
// [a]A + [b]B by this routine = the same combination by the constant-time routines
func doubleBaseEndToEnd() {
	var ab, bb, kb [32]byte
	verif.AnyBytes("a", ab[:])
	verif.AnyBytes("b", bb[:])
	verif.AnyBytes("k", kb[:])
	ab[31] &= 127
	bb[31] &= 127
	kb[31] &= 127
	a, _ := scalar.NewFromBits(ab[:])
	b, _ := scalar.NewFromBits(bb[:])
	k, _ := scalar.NewFromBits(kb[:])
	var A, out, ref, t EdwardsPoint
	A.MulBasepoint(ED25519_BASEPOINT_TABLE, k)
	tableA := newProjectiveNielsPointNafLookupTable(&A)
	edwardsDoubleScalarMulBasepointVartimeGenericInner(&out, a, &tableA, b)
	edwardsMulGeneric(&ref, &A, a)
	edwardsMulGeneric(&t, ED25519_BASEPOINT_POINT, b)
	ref.Add(&ref, &t)
	verif.Assert(out.Equal(&ref) == 1, "double-base result = [a]A + [b]B computed by the constant-time routine")
}

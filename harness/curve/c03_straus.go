//go:build verif

package curve

import (
	"github.com/oasisprotocol/curve25519-voi/curve/scalar"
	"github.com/oasisprotocol/curve25519-voi/internal/verif"
)

// L2, Straus multiscalar multiplication (portable back end), two terms.
//
// Constant-time variant: the real radix-16 recoding and the constant-time lookups (by their proved contracts),
// all 64 iterations unrolled: result = s0*P0 + s1*P1 for every pair of 255-bit scalars.

//verif:ob prop=C03 name=L2_strausGeneric_two_terms mode=int tags=purego use=pt,lookup timeout=300 split=alias:0..2
func vh_L2_strausCT() {
	P0, P1 := genPoint("P0", 0), genPoint("P1", 1)
	s0, v0 := anyScalar255("s0")
	s1, v1 := anyScalar255("s1")
	// the receiver may be one of the operands
	out := &EdwardsPoint{}
	switch verif.Case("alias") {
	case 1:
		out = P0
	case 2:
		out = P1
	}
	edwardsMultiscalarMulStrausGeneric(out, []*scalar.Scalar{s0, s1}, []*EdwardsPoint{P0, P1})
	k := getK(out)
	verif.Assert(k[0].Eq(v0) && k[1].Eq(v1) && k[2].Eq(verif.IntK(0)), "Straus (constant time) = s0*P0 + s1*P1, also when the receiver is one of the points")
}

// Variable-time variant: arbitrary width-5 NAF digit vectors (see c03_naf.go), one inductive step of the real
// main loop at every position i (case split), entry and exit:  r = sum_{j > i} 2^(j-i-1) * (naf0[j]*P0 + naf1[j]*P1).

func inv_sv(i int, r *projectivePoint) bool {
	if i < -1 || i > 255 || len(nafLog) != 2 {
		return false
	}
	k := getK(r)
	return k[0].Eq(nafAbove(&nafLog[0], i)) && k[1].Eq(nafAbove(&nafLog[1], i)) && k[2].Eq(verif.IntK(0))
}

func post_sv(r *projectivePoint) bool {
	k := getK(r)
	return len(nafLog) == 2 && k[0].Eq(nafAbove(&nafLog[0], -1)) && k[1].Eq(nafAbove(&nafLog[1], -1)) && k[2].Eq(verif.IntK(0))
}

//verif:ob prop=C03 name=L2_strausVartimeGeneric_two_terms mode=int tags=purego use=pt,naflk,nafabs cut=curve.edwardsMultiscalarMulStrausVartimeGeneric:2 inv=inv_sv post=post_sv cutfix=i split=i:0..1+127+254..255;top:255;who:2 tsplit=i:0..255;top:255;who:2
func vh_L2_strausVT() {
	nafLog = nil
	P0, P1 := genPoint("P0", 0), genPoint("P1", 1)
	var s0, s1 scalar.Scalar
	// (receiver = first point: the tables are built before anything is written)
	edwardsMultiscalarMulStrausVartimeGeneric(P0, []*scalar.Scalar{&s0, &s1}, []*EdwardsPoint{P0, P1})
}

//go:build verif

package curve

import (
	"github.com/oasisprotocol/curve25519-voi/curve/scalar"
	"github.com/oasisprotocol/curve25519-voi/internal/verif"
)

// C16 (front ends): how the portable callers of the short-vector reduction turn (d0, d1) into the arguments of
// the shared Straus loop. For EVERY pair of signed 128-bit integers (FindShortVector is replaced by an arbitrary
// pair), both front ends (plain and precomputed-key) must call the inner routine with
//    d0IsNeg = (d0 < 0),  d_0 = |d0|,  d_1 = |d1|,
//    (s_b, base of the second table) = (-b, C) if d1 < 0, (b, -C) otherwise,   first table = multiples of A,
// which is what makes the inner loop compute  [d0]A + [d1*b]B - [d1]C.

var abgArgs struct {
	d0IsNeg          bool
	tblA, tblNegC    verif.BV
	d0, d1, sb       verif.BV
	called           int
}

func nafBase(t *projectiveNielsPointNafLookupTable) verif.BV { return verif.GhostGetBV(&t[0], "base", 256) }

//verif:contract for=curve.newProjectiveNielsPointNafLookupTable group=abg
func abg_newNafTable(ep *EdwardsPoint) projectiveNielsPointNafLookupTable {
	var t projectiveNielsPointNafLookupTable
	verif.Havoc(&t)
	verif.GhostSetBV(&t[0], "base", Pid(ep))
	return t
}

//verif:contract for=curve.edwardsMulAbglsvPorninVartimeGenericInner group=abg
func abg_Inner(out *EdwardsPoint, d0IsNeg bool, tableA *projectiveNielsPointNafLookupTable, d_0, d_1, s_b *scalar.Scalar, tableNegC *projectiveNielsPointNafLookupTable) *EdwardsPoint {
	abgArgs.d0IsNeg = d0IsNeg
	abgArgs.tblA, abgArgs.tblNegC = nafBase(tableA), nafBase(tableNegC)
	abgArgs.d0, abgArgs.d1, abgArgs.sb = scalarVal(d_0), scalarVal(d_1), scalarVal(s_b)
	abgArgs.called++
	verif.Havoc(out)
	return out
}

//verif:ob prop=C16,C03 name=abglsv_front_ends_sign_handling mode=bv tags=purego use=gapi,abg split=expanded:0..1
func vh_C16_frontEnds() {
	var a, b scalar.Scalar
	var ab, bb [32]byte
	verif.AnyBytes("a", ab[:])
	verif.AnyBytes("b", bb[:])
	_, _ = a.SetBits(ab[:])
	_, _ = b.SetBits(bb[:])
	var A, C, out EdwardsPoint
	SetPid(&A, verif.AnyBV("A", 256))
	SetPid(&C, verif.AnyBV("C", 256))
	d0hi, d0lo := verif.AnyI64("fsv.d0hi"), verif.AnyU64("fsv.d0lo")
	d1hi, d1lo := verif.AnyI64("fsv.d1hi"), verif.AnyU64("fsv.d1lo")
	// the reduction returns |d0|, |d1| < 2^127 (C16's size bound; the loop-level proof of it is outside this
	// claim): -2^127, whose absolute value does not fit, is excluded
	verif.Assume(!(uint64(d0hi) == 1<<63 && d0lo == 0) && !(uint64(d1hi) == 1<<63 && d1lo == 0))
	if verif.Case("expanded") == 1 {
		var tbl projectiveNielsPointNafLookupTable
		verif.GhostSetBV(&tbl[0], "base", Pid(&A))
		eA := &ExpandedEdwardsPoint{inner: &tbl}
		expandedEdwardsMulAbglsvPorninVartimeGeneric(&out, &a, eA, &b, &C)
	} else {
		edwardsMulAbglsvPorninVartimeGeneric(&out, &a, &A, &b, &C)
	}
	abs128 := func(hi int64, lo uint64) verif.BV {
		v := verif.BVOf(uint64(hi)).Concat(verif.BVOf(lo)) // 128 bits
		v = verif.IteBV(hi < 0, v.Neg(), v)
		return v.Zext(256)
	}
	verif.Assert(abgArgs.called == 1, "the inner routine is called once")
	verif.Assert(abgArgs.d0IsNeg == (d0hi < 0), "d0IsNeg = (d0 < 0)")
	verif.Assert(abgArgs.d0.Eq(abs128(d0hi, d0lo)) && abgArgs.d1.Eq(abs128(d1hi, d1lo)), "d_0 = |d0| and d_1 = |d1|")
	verif.Assert(abgArgs.tblA.Eq(Pid(&A)), "first table: multiples of A")
	if d1hi < 0 {
		verif.Assert(abgArgs.sb.Eq(scalar.GNegS(scalarVal(&b))) && abgArgs.tblNegC.Eq(Pid(&C)), "d1 < 0: (-b, C)")
	} else {
		verif.Assert(abgArgs.sb.Eq(scalarVal(&b)) && abgArgs.tblNegC.Eq(GNeg(Pid(&C))), "d1 >= 0: (b, -C)")
	}
}

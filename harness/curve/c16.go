//go:build verif

package curve

import (
	"github.com/oasisprotocol/curve25519-voi/curve/scalar"
	"github.com/oasisprotocol/curve25519-voi/internal/verif"
)

// C16 (front ends): how the portable callers of the short-vector reduction turn (d0, d1) into the arguments of
// the shared Straus loop. For EVERY pair of signed 128-bit integers (FindShortVector is replaced by an arbitrary
// pair), both front ends (plain and precomputed-key) must call the inner routine with
//    d0IsNeg = (d0 < 0),  d_0 = |d0|,  d_1 = |d1|,
//    (s_b, base of the second table) = (-b, C) if d1 < 0, (b, -C) otherwise,   first table = multiples of A,
// which is what makes the inner loop compute  [d0]A + [d1*b]B - [d1]C.

var abgArgs struct {
	d0IsNeg          bool
	tblA, tblNegC    verif.BV
	d0, d1, sb       verif.BV
	called           int
}

func nafBase(t *projectiveNielsPointNafLookupTable) verif.BV { return verif.GhostGetBV(&t[0], "base", 256) }

//verif:contract for=curve.newProjectiveNielsPointNafLookupTable group=abg
func abg_newNafTable(ep *EdwardsPoint) projectiveNielsPointNafLookupTable {
	var t projectiveNielsPointNafLookupTable
	verif.Havoc(&t)
	verif.GhostSetBV(&t[0], "base", Pid(ep))
	return t
}

//verif:contract for=curve.edwardsMulAbglsvPorninVartimeGenericInner group=abg
func abg_Inner(out *EdwardsPoint, d0IsNeg bool, tableA *projectiveNielsPointNafLookupTable, d_0, d_1, s_b *scalar.Scalar, tableNegC *projectiveNielsPointNafLookupTable) *EdwardsPoint {
	abgArgs.d0IsNeg = d0IsNeg
	abgArgs.tblA, abgArgs.tblNegC = nafBase(tableA), nafBase(tableNegC)
	abgArgs.d0, abgArgs.d1, abgArgs.sb = scalarVal(d_0), scalarVal(d_1), scalarVal(s_b)
	abgArgs.called++
	verif.Havoc(out)
	return out
}

//verif:ob prop=C16,C03 name=abglsv_front_ends_sign_handling mode=bv tags=purego use=gapi,abg split=expanded:0..1
func vh_C16_frontEnds() {
	var a, b scalar.Scalar
	var ab, bb [32]byte
	verif.AnyBytes("a", ab[:])
	verif.AnyBytes("b", bb[:])
	_, _ = a.SetBits(ab[:])
	_, _ = b.SetBits(bb[:])
	var A, C, out EdwardsPoint
	SetPid(&A, verif.AnyBV("A", 256))
	SetPid(&C, verif.AnyBV("C", 256))
	d0hi, d0lo := verif.AnyI64("fsv.d0hi"), verif.AnyU64("fsv.d0lo")
	d1hi, d1lo := verif.AnyI64("fsv.d1hi"), verif.AnyU64("fsv.d1lo")
	// the reduction returns |d0|, |d1| < 2^127 (C16's size bound; the loop-level proof of it is outside this
	// claim): -2^127, whose absolute value does not fit, is excluded
	verif.Assume(!(uint64(d0hi) == 1<<63 && d0lo == 0) && !(uint64(d1hi) == 1<<63 && d1lo == 0))
	if verif.Case("expanded") == 1 {
		var tbl projectiveNielsPointNafLookupTable
		verif.GhostSetBV(&tbl[0], "base", Pid(&A))
		eA := &ExpandedEdwardsPoint{inner: &tbl}
		expandedEdwardsMulAbglsvPorninVartimeGeneric(&out, &a, eA, &b, &C)
	} else {
		edwardsMulAbglsvPorninVartimeGeneric(&out, &a, &A, &b, &C)
	}
	abs128 := func(hi int64, lo uint64) verif.BV {
		v := verif.BVOf(uint64(hi)).Concat(verif.BVOf(lo)) // 128 bits
		v = verif.IteBV(hi < 0, v.Neg(), v)
		return v.Zext(256)
	}
	verif.Assert(abgArgs.called == 1, "the inner routine is called once")
	verif.Assert(abgArgs.d0IsNeg == (d0hi < 0), "d0IsNeg = (d0 < 0)")
	verif.Assert(abgArgs.d0.Eq(abs128(d0hi, d0lo)) && abgArgs.d1.Eq(abs128(d1hi, d1lo)), "d_0 = |d0| and d_1 = |d1|")
	verif.Assert(abgArgs.tblA.Eq(Pid(&A)), "first table: multiples of A")
	if d1hi < 0 {
		verif.Assert(abgArgs.sb.Eq(scalar.GNegS(scalarVal(&b))) && abgArgs.tblNegC.Eq(Pid(&C)), "d1 < 0: (-b, C)")
	} else {
		verif.Assert(abgArgs.sb.Eq(scalarVal(&b)) && abgArgs.tblNegC.Eq(GNeg(Pid(&C))), "d1 >= 0: (b, -C)")
	}
}

// ---- the shared Straus loop of both portable front ends (edwardsMulAbglsvPorninVartimeGenericInner) ----
//
// The four recodings (d_0: width 5, e_0 and e_1: width 8, d_1: width 5, requested in that order) are replaced by
// ARBITRARY digit vectors of NAF shape whose highest non-zero position `top` is owned by the case-split recoding
// `own`. Tables: multiples of A (generator 0), of B and of 2^128*B (generator 1), of -C (generator 2). One inductive
// step of the real main loop at position i, entry (the start-index scan must not skip a leading digit of ANY of
// the four recodings) and exit:
//     r = (+/-) sum d_0[j] 2^j A + sum (e_0[j] + 2^128 e_1[j]) 2^j B + sum d_1[j] 2^j (-C).

//verif:contract for=(*curve/scalar.Scalar).NonAdjacentForm group=nafabs4
func na_NAF4(s *scalar.Scalar, w uint) [256]int8 {
	var d [256]int8
	n := len(nafLog)
	top, own := verif.Case("top"), verif.Case("own")
	wantW := uint(5)
	if n == 1 || n == 2 {
		wantW = 8
	}
	verif.Requires(w == wantW && n < 4, "recodings: d_0 (5), e_0 (8), e_1 (8), d_1 (5)")
	lim := int8(1<<(w-1) - 1)
	for j := 0; j <= top; j++ {
		if j == top && n != own {
			continue // another recoding owns the highest non-zero position
		}
		x := verif.AnyI8("naf" + string(rune('0'+n)) + "_" + nafItoa(j))
		verif.Assume(x >= -lim && x <= lim && (x == 0 || x&1 == 1))
		if j == top {
			verif.Assume(x != 0)
		}
		d[j] = x
	}
	nafLog = append(nafLog, d)
	return d
}

func abgWant(i int, d0IsNeg bool, d_0_naf, e_0_naf, e_1_naf, d_1_naf *[256]int8) kvec {
	a := nafAbove(d_0_naf, i)
	if d0IsNeg {
		a = a.Neg()
	}
	return kvec{a, nafAbove(e_0_naf, i).Add(nafAbove(e_1_naf, i).Mul(verif.Pow2(128))), nafAbove(d_1_naf, i)}
}

func inv_abg(i int, r *projectivePoint, d0IsNeg bool, d_0_naf, e_0_naf, e_1_naf, d_1_naf *[256]int8) bool {
	if !verif.IsConcrete(i) {
		// the start index is the position `top` of the case split whenever the scan looks at all four recodings;
		// a start index that depends on digits below `top` has skipped a leading digit
		return false
	}
	if i < 0 || i > 255 {
		return false
	}
	return kEq(getK(r), abgWant(i, d0IsNeg, d_0_naf, e_0_naf, e_1_naf, d_1_naf))
}

func post_abg(r *projectivePoint, d0IsNeg bool, d_0_naf, e_0_naf, e_1_naf, d_1_naf *[256]int8) bool {
	return kEq(getK(r), abgWant(-1, d0IsNeg, d_0_naf, e_0_naf, e_1_naf, d_1_naf))
}

//verif:contract for=(*curve/scalar.Scalar).Mul group=abgsc
func abg_scalarMul(s, a, b *scalar.Scalar) *scalar.Scalar { verif.Havoc(s); return s }

//verif:ob prop=C16,C03 name=abglsv_inner_loop mode=int tags=purego use=pt,naflk,nafabs4,abgsc cut=curve.edwardsMulAbglsvPorninVartimeGenericInner:1 inv=inv_abg post=post_abg cutfix=i native=1 maxinstr=4000000 split=i:0+128+255;top:0+128+255;own:0..3;neg:0..1 tsplit=i:0..3+31..33+63..65+95..97+126..130+159..161+191..193+223..225+252..255;top:0..3+31..33+63..65+95..97+126..130+159..161+191..193+223..225+252..255;own:0..3;neg:0..1
func vh_C16_innerLoop() {
	if verif.Native() {
		abglsvEndToEnd()
		return
	}
	i, top := verif.Case("i"), verif.Case("top")
	// the step at position i is checked with the longest recodings (top = 255); the entry for every top
	if top != 255 && i != top {
		verif.SkipRun()
		return
	}
	nafLog = nil
	var tableA, tableNegC projectiveNielsPointNafLookupTable
	for j := 0; j < 8; j++ {
		setK(&tableA[j], kScale(kGen(0), 2*j+1))
		setK(&tableNegC[j], kScale(kGen(2), 2*j+1))
	}
	for j := 0; j < 64; j++ {
		setK(&constAFFINE_ODD_MULTIPLES_OF_BASEPOINT[j], kScale(kGen(1), 2*j+1))
		setK(&constAFFINE_ODD_MULTIPLES_OF_B_SHL_128[j], kScaleI(kGen(1), verif.Pow2(128).Mul(verif.IntK(2*j+1))))
	}
	var d0, d1, sb scalar.Scalar
	var out EdwardsPoint
	edwardsMulAbglsvPorninVartimeGenericInner(&out, verif.Case("neg") == 1, &tableA, &d0, &d1, &sb, &tableNegC)
}

// the end-to-end statement a natively replayed / searched counterexample must violate: with C = [a]A + [b]B the
// result is in the 8-torsion, with C + B it is not - for both portable front ends.
func abglsvEndToEnd() {
	var ab, bb, kb [32]byte
	verif.AnyBytes("a", ab[:])
	verif.AnyBytes("b", bb[:])
	verif.AnyBytes("k", kb[:])
	ab[31] &= 127
	bb[31] &= 127
	kb[31] &= 127
	a, _ := scalar.NewFromBits(ab[:])
	b, _ := scalar.NewFromBits(bb[:])
	k, _ := scalar.NewFromBits(kb[:])
	var A, C, t, out EdwardsPoint
	A.MulBasepoint(ED25519_BASEPOINT_TABLE, k)
	A.Add(&A, EIGHT_TORSION[1]) // torsion-laden A
	edwardsMulGeneric(&C, &A, a)
	edwardsMulGeneric(&t, ED25519_BASEPOINT_POINT, b)
	C.Add(&C, &t)
	C.Add(&C, EIGHT_TORSION[3]) // and C
	edwardsMulAbglsvPorninVartimeGeneric(&out, a, &A, b, &C)
	verif.Assert(out.IsSmallOrder(), "C = [a]A + [b]B (+ torsion): the result is in the 8-torsion")
	eA := NewExpandedEdwardsPoint(&A)
	expandedEdwardsMulAbglsvPorninVartimeGeneric(&out, a, eA, b, &C)
	verif.Assert(out.IsSmallOrder(), "precomputed-key variant: the result is in the 8-torsion")
	var C2 EdwardsPoint
	C2.Add(&C, ED25519_BASEPOINT_POINT)
	edwardsMulAbglsvPorninVartimeGeneric(&out, a, &A, b, &C2)
	verif.Assert(!out.IsSmallOrder(), "C = [a]A + [b]B + B: the result is not in the 8-torsion")
}

//go:build verif

package curve

import (
	"github.com/oasisprotocol/curve25519-voi/curve/scalar"
	"github.com/oasisprotocol/curve25519-voi/internal/verif"
)

// Ristretto group-API abstraction (group "gapi"), same style as gapi.go.

func Rid(p *RistrettoPoint) verif.BV       { return verif.GhostGetBV(p, "rid", 256) }
func SetRid(p *RistrettoPoint, v verif.BV) { verif.GhostSetBV(p, "rid", v) }

func RDecodes(b []byte) bool           { return verif.UFBool("ristretto_decodes", b) }
func RPoint(b []byte) verif.BV         { return verif.UFBV("ristretto_point", 256, verif.BVLE(b)) }
func REncode(pid verif.BV) verif.BV    { return verif.UFBV("ristretto_encode", 256, pid) }
func RNeg(pid verif.BV) verif.BV       { return verif.UFBV("ristretto_neg", 256, pid) }
func RBaseMul(s verif.BV) verif.BV     { return verif.UFBV("ristretto_basemul", 256, s) }
func RIsIdentity(pid verif.BV) bool    { return verif.UFBVBool("ristretto_is_identity", pid) }
func RTriple(a, A, b, C verif.BV) verif.BV {
	return verif.UFBV("ristretto_delta_aA_plus_bB_minus_C", 256, a, A, b, C)
}

//verif:contract for=(*curve.RistrettoPoint).SetCompressed group=gapi
func gr_SetCompressed(p *RistrettoPoint, c *CompressedRistretto) (*RistrettoPoint, error) {
	if !RDecodes(c[:]) {
		return nil, errNotValidYCoordinate
	}
	verif.Havoc(p)
	SetRid(p, RPoint(c[:]))
	return p, nil
}

//verif:contract for=(*curve.CompressedRistretto).SetRistrettoPoint group=gapi
func gr_Compress(c *CompressedRistretto, p *RistrettoPoint) *CompressedRistretto {
	verif.BVToBytes(REncode(Rid(p)), c[:])
	return c
}

//verif:contract for=(*curve.RistrettoPoint).MulBasepoint group=gapi
func gr_MulBasepoint(p *RistrettoPoint, tbl *RistrettoBasepointTable, s *scalar.Scalar) *RistrettoPoint {
	v := RBaseMul(scalarVal(s))
	verif.Havoc(p)
	SetRid(p, v)
	return p
}

//verif:contract for=(*curve.RistrettoPoint).Neg group=gapi
func gr_Neg(p, t *RistrettoPoint) *RistrettoPoint {
	v := RNeg(Rid(t))
	verif.Havoc(p)
	SetRid(p, v)
	return p
}

//verif:contract for=(*curve.RistrettoPoint).Set group=gapi
func gr_Set(p, t *RistrettoPoint) *RistrettoPoint {
	v := Rid(t)
	verif.Havoc(p)
	SetRid(p, v)
	return p
}

//verif:contract for=(*curve.RistrettoPoint).TripleScalarMulBasepointVartime group=gapi
func gr_Triple(p *RistrettoPoint, a *scalar.Scalar, A *RistrettoPoint, b *scalar.Scalar, C *RistrettoPoint) *RistrettoPoint {
	v := RTriple(scalarVal(a), Rid(A), scalarVal(b), Rid(C))
	verif.Havoc(p)
	SetRid(p, v)
	return p
}

//verif:contract for=(*curve.RistrettoPoint).IsIdentity group=gapi
func gr_IsIdentity(p *RistrettoPoint) bool { return RIsIdentity(Rid(p)) }

func RFromUniform(b []byte) verif.BV { return verif.UFBV("ristretto_one_way_map", 256, verif.BVLE(b)) }

//verif:contract for=(*curve.RistrettoPoint).SetUniformBytes group=gapi
func gr_SetUniformBytes(p *RistrettoPoint, in []byte) (*RistrettoPoint, error) {
	if len(in) != RistrettoUniformSize {
		return nil, errNotValidYCoordinate // (some error; the real one is an unexported fmt.Errorf)
	}
	verif.Havoc(p)
	SetRid(p, RFromUniform(in))
	return p, nil
}

func RMsmStep(acc, s, p verif.BV) verif.BV { return verif.UFBV("ristretto_msm_step", 256, acc, s, p) }

//verif:contract for=(*curve.RistrettoPoint).MultiscalarMulVartime group=gapi
func gr_Msm(p *RistrettoPoint, scalars []*scalar.Scalar, points []*RistrettoPoint) *RistrettoPoint {
	verif.Requires(len(scalars) == len(points), "MultiscalarMulVartime: equal lengths (documented panic otherwise)")
	acc := verif.BVHex("0", 256)
	for i := range scalars {
		acc = RMsmStep(acc, scalarVal(scalars[i]), Rid(points[i]))
	}
	verif.Havoc(p)
	SetRid(p, acc)
	return p
}

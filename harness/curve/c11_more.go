//go:build verif

package curve

import (
	"github.com/oasisprotocol/curve25519-voi/internal/field"
	"github.com/oasisprotocol/curve25519-voi/internal/verif"
)

// RFC 9496 sections 4.3.2 (Encode), 4.3.3 (Equals) and 4.3.4 (Element derivation, MAP), transcribed over the integers
// mod p with the same SQRT_RATIO_M1 symbol the field layer's SqrtRatioI contract uses. The real functions run over
// the abstract field layer "fa"; every coordinate / output byte must equal the transcription for ALL inputs.
// The constants of section 4.1 enter the transcription as the RFC's decimal literals and are compared with the
// library's limb constants on both back ends.

func rfc9496Consts() (d, sqrtM1, sqrtADm1, invsqrtAmD, oneMinusDSq, dMinusOneSq verif.Int) {
	d = verif.IntLit("37095705934669439343138083508754565189542113879843219016388785533085940283555")
	sqrtM1 = verif.IntLit("19681161376707505956807079304988542015446066515923890162744021073123829784752")
	sqrtADm1 = verif.IntLit("25063068953384623474111414158702152701244531502492656460079210482610430750235")
	invsqrtAmD = verif.IntLit("54469307008909316920995813868745141605393597292927456921205312896311721017578")
	oneMinusDSq = verif.IntLit("1159843021668779879193775521855586647937357759715417654439879720876111806838")
	dMinusOneSq = verif.IntLit("40440834346308536858101042469323190826248399146238708352240133220865137265952")
	return
}

//verif:ob prop=C11,C20,C06 name=Ristretto_constants_vs_RFC9496 mode=int tags=purego,force32bit
func vh_RistrettoConstants() {
	P := field.VerifP()
	d, sqrtM1, sqrtADm1, invsqrtAmD, oneMinusDSq, dMinusOneSq := rfc9496Consts()
	verif.Assert(field.VerifVal(&constEDWARDS_D).Mod(P).Eq(d), "D")
	verif.Assert(field.VerifVal(&field.SQRT_M1).Mod(P).Eq(sqrtM1), "SQRT_M1")
	verif.Assert(field.VerifVal(&constSQRT_AD_MINUS_ONE).Mod(P).Eq(sqrtADm1), "SQRT_AD_MINUS_ONE (the root the RFC fixes)")
	verif.Assert(field.VerifVal(&constINVSQRT_A_MINUS_D).Mod(P).Eq(invsqrtAmD), "INVSQRT_A_MINUS_D (the root the RFC fixes)")
	verif.Assert(field.VerifVal(&constONE_MINUS_EDWARDS_D_SQUARED).Mod(P).Eq(oneMinusDSq), "ONE_MINUS_D_SQ")
	verif.Assert(field.VerifVal(&constEDWARDS_D_MINUS_ONE_SQUARED).Mod(P).Eq(dMinusOneSq), "D_MINUS_ONE_SQ")
	verif.Assert(field.VerifVal(&constMINUS_ONE).Mod(P).Eq(P.Sub(verif.IntK(1))), "MINUS_ONE")
	verif.Assert(field.VerifVal(&field.One).Mod(P).Eq(verif.IntK(1)), "One")
	for _, c := range []*field.Element{&constEDWARDS_D, &field.SQRT_M1, &constSQRT_AD_MINUS_ONE, &constINVSQRT_A_MINUS_D, &constONE_MINUS_EDWARDS_D_SQUARED, &constEDWARDS_D_MINUS_ONE_SQUARED, &constMINUS_ONE, &field.One} {
		verif.Assert(field.VerifRedOK(c), "the constant is a reduced representation")
	}
}

// the constants enter the polynomial layer as single atoms (their values: the obligation above)
func atomConst(e *field.Element, name string, lit verif.Int) verif.Int {
	P := field.VerifP()
	a := verif.AnyIntG(name)
	verif.Assume(verif.IntK(0).Le(a) && a.Lt(P))
	verif.Assume(a.Le(lit) && lit.Le(a))
	field.VerifSetFv(e, a)
	return a
}

func isNeg(v verif.Int) bool {
	return v.Mod(field.VerifP()).Mod(verif.IntK(2)).Eq(verif.IntK(1))
}

//verif:ob prop=C11 name=Ristretto_encode_vs_RFC9496 mode=int tags=purego,force32bit use=fa
func vh_RistrettoEncode() {
	P := field.VerifP()
	_, litI, _, litV, _, _ := rfc9496Consts()
	sqrtM1 := atomConst(&field.SQRT_M1, "SQRT_M1", litI)
	invsqrtAmD := atomConst(&constINVSQRT_A_MINUS_D, "INVSQRT_A_MINUS_D", litV)

	rp := &RistrettoPoint{inner: *any_EdwardsPoint("p")}
	verif.Assume(cls_EdwardsPoint(&rp.inner))
	x0, y0, z0, t0 := verif.AnyIntG("x0"), verif.AnyIntG("y0"), verif.AnyIntG("z0"), verif.AnyIntG("t0")
	field.VerifSetFv(&rp.inner.inner.X, x0)
	field.VerifSetFv(&rp.inner.inner.Y, y0)
	field.VerifSetFv(&rp.inner.inner.Z, z0)
	field.VerifSetFv(&rp.inner.inner.T, t0)
	before := rp.inner

	var c CompressedRistretto
	r := c.SetRistrettoPoint(rp)

	// RFC 9496 4.3.2
	one := verif.IntK(1)
	u1 := z0.Add(y0).Mul(z0.Sub(y0))
	u2 := x0.Mul(y0)
	arg := u1.Mul(u2.Mul(u2)).Mod(P)
	invsqrt := verif.UFInt("sqrt_ratio_r", one, arg)
	den1 := invsqrt.Mul(u1)
	den2 := invsqrt.Mul(u2)
	zInv := den1.Mul(den2.Mul(t0))
	ix0 := x0.Mul(sqrtM1)
	iy0 := y0.Mul(sqrtM1)
	ench := den1.Mul(invsqrtAmD)
	rotate := isNeg(t0.Mul(zInv))
	x := verif.IteInt(rotate, iy0, x0)
	y := verif.IteInt(rotate, ix0, y0)
	denInv := verif.IteInt(rotate, ench, den2)
	y = verif.IteInt(isNeg(x.Mul(zInv)), y.Neg(), y)
	s := denInv.Mul(z0.Sub(y))
	s = verif.IteInt(isNeg(s), s.Neg(), s)

	verif.Assert(r == &c, "returns the receiver")
	verif.Assert(verif.IntLE(c[:]).Eq(s.Mod(P)), "encoding = canonical bytes of the RFC's s, for every representative (X:Y:Z:T)")
	verif.Assert(samePoint(&rp.inner, &before), "the point is not modified")
}

//verif:ob prop=C11 name=Ristretto_Equal_vs_RFC9496 mode=int tags=purego,force32bit use=fa
func vh_RistrettoEqual() {
	P := field.VerifP()
	a := &RistrettoPoint{inner: *any_EdwardsPoint("a")}
	b := &RistrettoPoint{inner: *any_EdwardsPoint("b")}
	verif.Assume(cls_EdwardsPoint(&a.inner) && cls_EdwardsPoint(&b.inner))
	x1, y1, x2, y2 := verif.AnyIntG("x1"), verif.AnyIntG("y1"), verif.AnyIntG("x2"), verif.AnyIntG("y2")
	field.VerifSetFv(&a.inner.inner.X, x1)
	field.VerifSetFv(&a.inner.inner.Y, y1)
	field.VerifSetFv(&b.inner.inner.X, x2)
	field.VerifSetFv(&b.inner.inner.Y, y2)
	eq := a.Equal(b)
	want := verif.ModEq(x1.Mul(y2), y1.Mul(x2), P) || verif.ModEq(y1.Mul(y2), x1.Mul(x2), P)
	verif.Assert((eq == 1) == want && (eq == 0 || eq == 1), "Equal = (x1*y2 == y1*x2) | (y1*y2 == x1*x2), RFC 9496 4.3.3")
}

// (no reachability twin: a model needs a square root mod p for the uninterpreted SQRT_RATIO_M1, which no back end finds; the
// assumptions are the ones of the encode obligation, whose twin is discharged, plus the SqrtRatioI contract facts)
//
//verif:ob prop=C11,C14 name=Ristretto_elligator_vs_RFC9496_MAP mode=int tags=purego,force32bit use=fa noreach=1
func vh_RistrettoMap() {
	P := field.VerifP()
	litD, litI, litS, _, litO, litM := rfc9496Consts()
	D := atomConst(&constEDWARDS_D, "D", litD)
	sqrtM1 := atomConst(&field.SQRT_M1, "SQRT_M1", litI)
	sqrtADm1 := atomConst(&constSQRT_AD_MINUS_ONE, "SQRT_AD_MINUS_ONE", litS)
	oneMinusDSq := atomConst(&constONE_MINUS_EDWARDS_D_SQUARED, "ONE_MINUS_D_SQ", litO)
	dMinusOneSq := atomConst(&constEDWARDS_D_MINUS_ONE_SQUARED, "D_MINUS_ONE_SQ", litM)
	minusOne := verif.IntK(-1)
	field.VerifSetFv(&constMINUS_ONE, minusOne)
	one := verif.IntK(1)
	field.VerifSetFv(&field.One, one)

	r0 := field.VerifAnyElement("t")
	verif.Assume(field.VerifRedOK(&r0))
	t := verif.AnyIntG("tv")
	field.VerifSetFv(&r0, t)
	var p RistrettoPoint
	p.elligatorRistrettoFlavor(&r0)

	// RFC 9496 4.3.4 MAP
	r := sqrtM1.Mul(t.Mul(t))
	u := r.Add(one).Mul(oneMinusDSq)
	v := minusOne.Sub(r.Mul(D)).Mul(r.Add(D))
	up, vp := u.Mod(P), v.Mod(P)
	wasSquare := verif.UFIntBool("sqrt_ratio_ok", up, vp)
	s := verif.UFInt("sqrt_ratio_r", up, vp)
	st := s.Mul(t)
	sPrime := verif.IteInt(isNeg(st), st, st.Neg()) // -CT_ABS(s*t)
	s = verif.IteInt(wasSquare, s, sPrime)
	c := verif.IteInt(wasSquare, minusOne, r)
	N := c.Mul(r.Sub(one)).Mul(dMinusOneSq).Sub(v)
	w0 := s.Add(s).Mul(v)
	w1 := N.Mul(sqrtADm1)
	w2 := one.Sub(s.Mul(s))
	w3 := one.Add(s.Mul(s))
	q := &p.inner.inner
	verif.Assert(verif.ModEq(field.VerifFv(&q.X), w0.Mul(w3), P), "X = w0*w3")
	verif.Assert(verif.ModEq(field.VerifFv(&q.Y), w2.Mul(w1), P), "Y = w2*w1")
	verif.Assert(verif.ModEq(field.VerifFv(&q.Z), w1.Mul(w3), P), "Z = w1*w3")
	verif.Assert(verif.ModEq(field.VerifFv(&q.T), w0.Mul(w2), P), "T = w0*w2")
	verif.Assert(cls_EdwardsPoint(&p.inner), "coordinates within the point class (limb headroom)")
}

// SetUniformBytes: 64 bytes, two maps of the two 255-bit halves (top bit of each half ignored), added.

var ellInputs []verif.Int

//verif:contract for=(*curve.RistrettoPoint).elligatorRistrettoFlavor group=ellabs
func ell_abs(p *RistrettoPoint, r_0 *field.Element) {
	verif.Requires(field.VerifRedOK(r_0), "elligator: reduced input")
	n := len(ellInputs)
	ellInputs = append(ellInputs, field.VerifFv(r_0))
	verif.Havoc(p)
	verif.Assume(cls_EdwardsPoint(&p.inner))
	if n < nGen {
		setK(&p.inner, kGen(n))
	}
}

//verif:ob prop=C11,C14,C19 name=Ristretto_SetUniformBytes mode=int tags=purego use=fa,pt,ellabs split=n:0..1+31..33+63..65+96+128..129
func vh_RistrettoUniform() {
	ellInputs = nil
	n := verif.Case("n")
	in := make([]byte, n)
	verif.AnyBytes("in", in)
	var p RistrettoPoint
	r, err := p.SetUniformBytes(in)
	if n != 64 {
		verif.Assert(err != nil && r == nil, "wrong-length input is an error")
		return
	}
	P := field.VerifP()
	verif.Assert(err == nil && r == &p, "64 bytes are always accepted")
	verif.Assert(len(ellInputs) == 2, "two applications of the map")
	verif.Assert(verif.ModEq(ellInputs[0], verif.IntLE(in[:32]).Mod(verif.Pow2(255)), P), "first map input = low 255 bits of bytes 0..31")
	verif.Assert(verif.ModEq(ellInputs[1], verif.IntLE(in[32:]).Mod(verif.Pow2(255)), P), "second map input = low 255 bits of bytes 32..63")
	k := getK(&p.inner)
	verif.Assert(k[0].Eq(verif.IntK(1)) && k[1].Eq(verif.IntK(1)) && k[2].Eq(verif.IntK(0)), "result = MAP(t1) + MAP(t2)")
}

// ---- native end-to-end oracle (used only when a symbolic run stays inconclusive, and for replays) ----
// RFC 9496 Decode with SQRT_RATIO_M1 computed by exponentiation over unbounded integers, against the real
// SetCompressed; accepted strings must re-encode to themselves.

func powMod(b, e, m verif.Int) verif.Int {
	r := verif.IntK(1)
	b = b.Mod(m)
	for i := 255; i >= 0; i-- {
		r = r.Mul(r).Mod(m)
		if e.Div(verif.Pow2(i)).Mod(verif.IntK(2)).Eq(verif.IntK(1)) {
			r = r.Mul(b).Mod(m)
		}
	}
	return r
}

func sqrtRatioM1(u, v verif.Int) (bool, verif.Int) {
	P := field.VerifP()
	_, sqrtM1, _, _, _, _ := rfc9496Consts()
	u, v = u.Mod(P), v.Mod(P)
	v3 := v.Mul(v).Mul(v).Mod(P)
	v7 := v3.Mul(v3).Mul(v).Mod(P)
	r := u.Mul(v3).Mul(powMod(u.Mul(v7), P.Sub(verif.IntK(5)).Div(verif.IntK(8)), P)).Mod(P)
	check := v.Mul(r).Mul(r).Mod(P)
	correct := check.Eq(u)
	flipped := check.Eq(u.Neg().Mod(P))
	flippedI := check.Eq(u.Neg().Mul(sqrtM1).Mod(P))
	if flipped || flippedI {
		r = r.Mul(sqrtM1).Mod(P)
	}
	if r.Mod(verif.IntK(2)).Eq(verif.IntK(1)) {
		r = r.Neg().Mod(P)
	}
	return correct || flipped, r
}

func ristrettoDecodeEndToEnd() {
	var c CompressedRistretto
	verif.AnyBytes("c", c[:])
	var p RistrettoPoint
	p.inner = *ED25519_BASEPOINT_POINT
	before := p
	_, err := p.SetCompressed(&c)
	if err != nil {
		verif.Assert(samePoint(&p.inner, &before.inner), "receiver untouched on rejection")
		var q RistrettoPoint
		q.inner = *ED25519_BASEPOINT_POINT
		verif.Assert(q.UnmarshalBinary(c[:]) != nil && isIdentityRep(&q.inner), "UnmarshalBinary: error and identity receiver on rejection")
	}

	P := field.VerifP()
	one := verif.IntK(1)
	sRaw := verif.IntLE(c[:])
	accept := sRaw.Lt(P) && sRaw.Mod(verif.IntK(2)).Eq(verif.IntK(0))
	if accept {
		s := sRaw
		ss := s.Mul(s).Mod(P)
		u1 := one.Sub(ss).Mod(P)
		u2 := one.Add(ss).Mod(P)
		u2sqr := u2.Mul(u2).Mod(P)
		v := edD().Neg().Mul(u1.Mul(u1)).Sub(u2sqr).Mod(P)
		wasSquare, invsqrt := sqrtRatioM1(one, v.Mul(u2sqr))
		denX := invsqrt.Mul(u2).Mod(P)
		denY := invsqrt.Mul(denX).Mul(v).Mod(P)
		x := s.Add(s).Mul(denX).Mod(P)
		if x.Mod(verif.IntK(2)).Eq(one) {
			x = x.Neg().Mod(P)
		}
		y := u1.Mul(denY).Mod(P)
		t := x.Mul(y).Mod(P)
		accept = wasSquare && t.Mod(verif.IntK(2)).Eq(verif.IntK(0)) && !y.Eq(verif.IntK(0))
	}
	verif.Assert((err == nil) == accept, "accepted exactly when RFC 9496 Decode accepts")
	if err == nil {
		var back CompressedRistretto
		back.SetRistrettoPoint(&p)
		verif.Assert(back == c, "an accepted string re-encodes to the same bytes")
	}
}

//go:build verif

package curve

import (
	"github.com/oasisprotocol/curve25519-voi/internal/field"
	"github.com/oasisprotocol/curve25519-voi/internal/verif"
)

// L1: the point formulas of models.go / edwards.go against the affine twisted Edwards law (a = -1).
//
// A point is given by arbitrary reduced limb vectors (so every headroom precondition of every field call is
// checked on each back end) carrying ghost representatives  X = x*z, Y = y*z, Z = z, T = x*y*z  over free
// integers x, y, z: every projective representative with Z != 0 of every affine pair (x, y).
// The results are compared with the affine law by cross-multiplication, as polynomial identities over Z.

type ghostPt struct{ x, y, z verif.Int }

func anyReduced(name string) field.Element {
	e := field.VerifAnyElement(name)
	verif.Assume(field.VerifRedOK(&e))
	return e
}

func ghostPoint(p *EdwardsPoint, name string) ghostPt {
	g := ghostPt{verif.AnyIntG(name + ".x"), verif.AnyIntG(name + ".y"), verif.AnyIntG(name + ".z")}
	p.inner.X, p.inner.Y, p.inner.Z, p.inner.T = anyReduced(name+"X"), anyReduced(name+"Y"), anyReduced(name+"Z"), anyReduced(name+"T")
	field.VerifSetFv(&p.inner.X, g.x.Mul(g.z))
	field.VerifSetFv(&p.inner.Y, g.y.Mul(g.z))
	field.VerifSetFv(&p.inner.Z, g.z)
	field.VerifSetFv(&p.inner.T, g.x.Mul(g.y).Mul(g.z))
	return g
}

func fvs(p *EdwardsPoint) (X, Y, Z, T verif.Int) {
	return field.VerifFv(&p.inner.X), field.VerifFv(&p.inner.Y), field.VerifFv(&p.inner.Z), field.VerifFv(&p.inner.T)
}

func reducedPoint(p *EdwardsPoint) bool {
	return field.VerifRedOK(&p.inner.X) && field.VerifRedOK(&p.inner.Y) && field.VerifRedOK(&p.inner.Z) && field.VerifRedOK(&p.inner.T)
}

// result R = (X:Y:Z:T) equals the affine sum of (x1,y1) and (x2,y2) (sign = +1) or difference (sign = -1):
//   X * (1 + s*d*x1x2y1y2) = Z * (x1y2 + s*y1x2)     Y * (1 - s*d*x1x2y1y2) = Z * (y1y2 + s*x1x2)     T*Z = X*Y
func assertAffineSum(r *EdwardsPoint, a, b ghostPt, sign int, what string) {
	P := field.VerifP()
	X, Y, Z, T := fvs(r)
	s := verif.IntK(sign)
	dxy := edD().Mul(a.x).Mul(b.x).Mul(a.y).Mul(b.y).Mul(s)
	one := verif.IntK(1)
	verif.Assert(verif.ModEq(X.Mul(one.Add(dxy)), Z.Mul(a.x.Mul(b.y).Add(s.Mul(a.y).Mul(b.x))), P), what+": x-coordinate of the affine law")
	verif.Assert(verif.ModEq(Y.Mul(one.Sub(dxy)), Z.Mul(a.y.Mul(b.y).Add(s.Mul(a.x).Mul(b.x))), P), what+": y-coordinate of the affine law")
	verif.Assert(verif.ModEq(T.Mul(Z), X.Mul(Y), P), what+": T*Z = X*Y")
	verif.Assert(reducedPoint(r), what+": result coordinates are reduced representations")
}

//verif:ob prop=C03,C06 name=L1_Add mode=int tags=purego,force32bit use=fa
func vh_L1_Add() {
	var a, b, r EdwardsPoint
	ga, gb := ghostPoint(&a, "a"), ghostPoint(&b, "b")
	r.Add(&a, &b)
	assertAffineSum(&r, ga, gb, 1, "Add")
}

//verif:ob prop=C03 name=L1_Add_aliased mode=int tags=purego use=fa
func vh_L1_Add_alias() {
	var a, b EdwardsPoint
	ga, gb := ghostPoint(&a, "a"), ghostPoint(&b, "b")
	a.Add(&a, &b)
	assertAffineSum(&a, ga, gb, 1, "Add(p, p, q)")
}

//verif:ob prop=C03,C06 name=L1_Sub mode=int tags=purego,force32bit use=fa
func vh_L1_Sub() {
	var a, b, r EdwardsPoint
	ga, gb := ghostPoint(&a, "a"), ghostPoint(&b, "b")
	r.Sub(&a, &b)
	assertAffineSum(&r, ga, gb, -1, "Sub")
}

//verif:ob prop=C03 name=L1_Neg mode=int tags=purego,force32bit use=fa
func vh_L1_Neg() {
	var a, r EdwardsPoint
	ga := ghostPoint(&a, "a")
	r.Neg(&a)
	P := field.VerifP()
	X, Y, Z, T := fvs(&r)
	verif.Assert(verif.ModEq(X, ga.x.Neg().Mul(ga.z), P) && verif.ModEq(Y, ga.y.Mul(ga.z), P) && verif.ModEq(Z, ga.z, P), "Neg: (x, y) -> (-x, y)")
	verif.Assert(verif.ModEq(T.Mul(Z), X.Mul(Y), P), "Neg: T*Z = X*Y")
	verif.Assert(reducedPoint(&r), "Neg: reduced")
}

// Doubling (mulByPow2 with k = 1): equals the affine sum of the point with itself FOR POINTS ON THE CURVE
// (the dedicated doubling formulas use the curve equation -x^2 + y^2 = 1 + d*x^2*y^2).
//
//verif:ob prop=C03,C06 name=L1_Double mode=int tags=purego,force32bit use=fa
func vh_L1_Double() {
	var a, r EdwardsPoint
	ga := ghostPoint(&a, "a")
	P := field.VerifP()
	xx, yy := ga.x.Mul(ga.x), ga.y.Mul(ga.y)
	verif.Assume(verif.ModEq(yy.Sub(xx), verif.IntK(1).Add(edD().Mul(xx).Mul(yy)), P))
	r.mulByPow2(&a, 1)
	assertAffineSum(&r, ga, ga, 1, "double")
}

// Niels forms and mixed additions used by the table-driven multiplications.
//
//verif:ob prop=C03 name=L1_AffineNiels_roundtrip_and_mixed_add mode=int tags=purego,force32bit use=fa
func vh_L1_AffineNiels() {
	var a, b, r EdwardsPoint
	ga, gb := ghostPoint(&a, "a"), ghostPoint(&b, "b")
	P := field.VerifP()
	// an affine Niels point for b: (y+x, y-x, 2dxy) with affine coordinates (ghost gb.x, gb.y)
	var bn affineNielsPoint
	bn.y_plus_x, bn.y_minus_x, bn.xy2d = anyReduced("bn0"), anyReduced("bn1"), anyReduced("bn2")
	field.VerifSetFv(&bn.y_plus_x, gb.y.Add(gb.x))
	field.VerifSetFv(&bn.y_minus_x, gb.y.Sub(gb.x))
	field.VerifSetFv(&bn.xy2d, gb.x.Mul(gb.y).Mul(edD()).Mul(verif.IntK(2)))
	var sum completedPoint
	r.setCompleted(sum.AddEdwardsAffineNiels(&a, &bn))
	assertAffineSum(&r, ga, gb, 1, "AddEdwardsAffineNiels")
	r.setCompleted(sum.SubEdwardsAffineNiels(&a, &bn))
	assertAffineSum(&r, ga, gb, -1, "SubEdwardsAffineNiels")
	// conditional negation of a Niels point negates x
	neg := bn
	neg.ConditionalNegate(1)
	verif.Assert(verif.ModEq(field.VerifFv(&neg.y_plus_x), gb.y.Sub(gb.x), P) && verif.ModEq(field.VerifFv(&neg.y_minus_x), gb.y.Add(gb.x), P) &&
		verif.ModEq(field.VerifFv(&neg.xy2d), gb.x.Neg().Mul(gb.y).Mul(edD()).Mul(verif.IntK(2)), P), "affine Niels ConditionalNegate(1) = Niels form of (-x, y)")
	_ = b
}

//verif:ob prop=C03 name=L1_ProjectiveNiels mode=int tags=purego,force32bit use=fa
func vh_L1_ProjectiveNiels() {
	var a, b, r EdwardsPoint
	ga, gb := ghostPoint(&a, "a"), ghostPoint(&b, "b")
	var bn projectiveNielsPoint
	bn.SetEdwards(&b)
	bn.ConditionalNegate(1)
	var sum completedPoint
	r.setCompleted(sum.AddEdwardsProjectiveNiels(&a, &bn))
	assertAffineSum(&r, ga, gb, -1, "Add of the negated projective Niels point = Sub")
}

// Equal: cross-multiplied comparison answers "same affine point" for every pair of projective scalings.
//
//verif:ob prop=C03,C10 name=L1_Equal mode=int tags=purego,force32bit use=fa
func vh_L1_Equal() {
	var a, b EdwardsPoint
	ga, gb := ghostPoint(&a, "a"), ghostPoint(&b, "b")
	P := field.VerifP()
	got := a.Equal(&b)
	// X1*Z2 == X2*Z1 and Y1*Z2 == Y2*Z1 (mod p)
	same := verif.ModEq(ga.x.Mul(ga.z).Mul(gb.z), gb.x.Mul(gb.z).Mul(ga.z), P) && verif.ModEq(ga.y.Mul(ga.z).Mul(gb.z), gb.y.Mul(gb.z).Mul(ga.z), P)
	verif.Assert((got == 1) == same, "Equal == 1 iff the cross-products agree mod p (same affine point when Z1*Z2 != 0)")
	verif.Assert(got == 0 || got == 1, "Equal returns a bit")
}

// Conversions used only by the variable-time routines (the others are exercised inside Add / Sub / double):
// they keep the affine point and establish T*Z = X*Y.
//
//verif:ob prop=C03,C06 name=L1_setProjective_and_SetCompleted mode=int tags=purego,force32bit use=fa
func vh_L1_conversions() {
	P := field.VerifP()
	// projective (x*z : y*z : z) -> extended
	var pp projectivePoint
	x, y, z := verif.AnyIntG("p.x"), verif.AnyIntG("p.y"), verif.AnyIntG("p.z")
	pp.X, pp.Y, pp.Z = anyReduced("pX"), anyReduced("pY"), anyReduced("pZ")
	field.VerifSetFv(&pp.X, x.Mul(z))
	field.VerifSetFv(&pp.Y, y.Mul(z))
	field.VerifSetFv(&pp.Z, z)
	var e EdwardsPoint
	e.setProjective(&pp)
	X, Y, Z, T := fvs(&e)
	verif.Assert(verif.ModEq(X, x.Mul(Z), P) && verif.ModEq(Y, y.Mul(Z), P), "setProjective keeps the affine point: X = x*Z, Y = y*Z")
	verif.Assert(verif.ModEq(T.Mul(Z), X.Mul(Y), P), "setProjective: T*Z = X*Y")
	verif.Assert(reducedPoint(&e), "setProjective: reduced")
	// completed ((x*zc : zc), (y*tc : tc)) -> projective
	var cp completedPoint
	cx, cy, zc, tc := verif.AnyIntG("c.x"), verif.AnyIntG("c.y"), verif.AnyIntG("c.z"), verif.AnyIntG("c.t")
	cp.X, cp.Y, cp.Z, cp.T = anyReduced("cX"), anyReduced("cY"), anyReduced("cZ"), anyReduced("cT")
	field.VerifSetFv(&cp.X, cx.Mul(zc))
	field.VerifSetFv(&cp.Z, zc)
	field.VerifSetFv(&cp.Y, cy.Mul(tc))
	field.VerifSetFv(&cp.T, tc)
	var q projectivePoint
	q.SetCompleted(&cp)
	qX, qY, qZ := field.VerifFv(&q.X), field.VerifFv(&q.Y), field.VerifFv(&q.Z)
	verif.Assert(verif.ModEq(qX, cx.Mul(qZ), P) && verif.ModEq(qY, cy.Mul(qZ), P), "projectivePoint.SetCompleted keeps the affine point")
	verif.Assert(verif.ModEq(qZ, zc.Mul(tc), P), "projectivePoint.SetCompleted: Z = Z*T (non-zero when both are)")
	// completed -> extended
	var e2 EdwardsPoint
	e2.setCompleted(&cp)
	X2, Y2, Z2, T2 := fvs(&e2)
	verif.Assert(verif.ModEq(X2, cx.Mul(Z2), P) && verif.ModEq(Y2, cy.Mul(Z2), P) && verif.ModEq(T2.Mul(Z2), X2.Mul(Y2), P), "setCompleted keeps the affine point and sets T*Z = X*Y")
}

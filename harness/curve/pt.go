//go:build verif

package curve

import "github.com/oasisprotocol/curve25519-voi/internal/verif"

// Z-module ghost: a point value is a formal combination k[0]*G0 + k[1]*G1 + k[2]*G2 of symbolic generators.
// An identity proved in the free Z-module holds in every abelian group, in particular on the curve (with
// the torsion parts along for the ride). Attributes travel with struct values.

const nGen = 3

type kvec [nGen]verif.Int

var kNames = [nGen]string{"k0", "k1", "k2"}

func getK(p interface{}) kvec {
	var k kvec
	for i := 0; i < nGen; i++ {
		k[i] = verif.GhostGet(p, kNames[i]) // absent => an unconstrained value
	}
	return k
}

func setK(p interface{}, k kvec) {
	for i := 0; i < nGen; i++ {
		verif.GhostSet(p, kNames[i], k[i])
	}
}

func kZero() kvec { return kvec{verif.IntK(0), verif.IntK(0), verif.IntK(0)} }
func kGen(i int) kvec {
	k := kZero()
	k[i] = verif.IntK(1)
	return k
}
func kAdd(a, b kvec) kvec {
	var r kvec
	for i := range r {
		r[i] = a[i].Add(b[i])
	}
	return r
}
func kSub(a, b kvec) kvec {
	var r kvec
	for i := range r {
		r[i] = a[i].Sub(b[i])
	}
	return r
}
func kScale(a kvec, n int) kvec {
	var r kvec
	for i := range r {
		r[i] = a[i].Mul(verif.IntK(n))
	}
	return r
}
func kScaleI(a kvec, n verif.Int) kvec {
	var r kvec
	for i := range r {
		r[i] = a[i].Mul(n)
	}
	return r
}
func kIte(c bool, a, b kvec) kvec {
	var r kvec
	for i := range r {
		r[i] = verif.IteInt(c, a[i], b[i])
	}
	return r
}
func kEq(a, b kvec) bool {
	ok := true
	for i := range a {
		ok = ok && a[i].Eq(b[i])
	}
	return ok
}

// ---- identities and conditional operations (limbs are irrelevant above L1: havoc) ----

//verif:contract for=(*curve.EdwardsPoint).Identity group=pt
func pt_Ed_Identity(p *EdwardsPoint) *EdwardsPoint {
	p.Identity()
	setK(p, kZero())
	return p
}

//verif:contract for=(*curve.projectivePoint).Identity group=pt
func pt_Proj_Identity(p *projectivePoint) *projectivePoint {
	p.Identity()
	setK(p, kZero())
	return p
}

//verif:contract for=(*curve.projectiveNielsPoint).Identity group=pt
func pt_PN_Identity(p *projectiveNielsPoint) *projectiveNielsPoint {
	p.Identity()
	setK(p, kZero())
	return p
}

//verif:contract for=(*curve.affineNielsPoint).Identity group=pt
func pt_AN_Identity(p *affineNielsPoint) *affineNielsPoint {
	p.Identity()
	setK(p, kZero())
	return p
}

//verif:contract for=(*curve.projectiveNielsPoint).ConditionalAssign group=pt
func pt_PN_ConditionalAssign(p, other *projectiveNielsPoint, choice int) {
	verif.Requires(choice == 0 || choice == 1, "choice is a bit")
	k := kIte(choice == 1, getK(other), getK(p))
	verif.Havoc(p)
	setK(p, k)
}

//verif:contract for=(*curve.projectiveNielsPoint).ConditionalSelect group=pt
func pt_PN_ConditionalSelect(p, a, b *projectiveNielsPoint, choice int) {
	verif.Requires(choice == 0 || choice == 1, "choice is a bit")
	k := kIte(choice == 1, getK(b), getK(a))
	verif.Havoc(p)
	setK(p, k)
}

//verif:contract for=(*curve.projectiveNielsPoint).ConditionalNegate group=pt
func pt_PN_ConditionalNegate(p *projectiveNielsPoint, choice int) {
	verif.Requires(choice == 0 || choice == 1, "choice is a bit")
	k := getK(p)
	verif.Havoc(p)
	setK(p, kIte(choice == 1, kScale(k, -1), k))
}

//verif:contract for=(*curve.affineNielsPoint).ConditionalAssign group=pt
func pt_AN_ConditionalAssign(p, other *affineNielsPoint, choice int) {
	verif.Requires(choice == 0 || choice == 1, "choice is a bit")
	k := kIte(choice == 1, getK(other), getK(p))
	verif.Havoc(p)
	setK(p, k)
}

//verif:contract for=(*curve.affineNielsPoint).ConditionalSelect group=pt
func pt_AN_ConditionalSelect(p, a, b *affineNielsPoint, choice int) {
	verif.Requires(choice == 0 || choice == 1, "choice is a bit")
	k := kIte(choice == 1, getK(b), getK(a))
	verif.Havoc(p)
	setK(p, k)
}

//verif:contract for=(*curve.affineNielsPoint).ConditionalNegate group=pt
func pt_AN_ConditionalNegate(p *affineNielsPoint, choice int) {
	verif.Requires(choice == 0 || choice == 1, "choice is a bit")
	k := getK(p)
	verif.Havoc(p)
	setK(p, kIte(choice == 1, kScale(k, -1), k))
}

//verif:contract for=(*curve.EdwardsPoint).mulByPow2 group=pt
func pt_Ed_mulByPow2(p, t *EdwardsPoint, k uint) *EdwardsPoint {
	verif.Requires(k >= 1 && k < 64, "1 <= k (documented panic otherwise)")
	g := getK(t)
	verif.Havoc(p)
	setK(p, kScale(g, 1<<k))
	return p
}

// the class preservation of the conditional operations and of the Niels negation (swap + negate)
//
//verif:ob prop=C03 name=class_Niels_conditional_ops mode=int tags=purego,force32bit use=fa
func vh_class_cond() {
	a, b := any_projectiveNielsPoint("a"), any_projectiveNielsPoint("b")
	verif.Assume(cls_projectiveNielsPoint(a) && cls_projectiveNielsPoint(b))
	c := verif.AnyInt("c")
	verif.Assume(c == 0 || c == 1)
	var r projectiveNielsPoint
	r.ConditionalSelect(a, b, c)
	verif.Assert(cls_projectiveNielsPoint(&r), "ConditionalSelect stays in class")
	a.ConditionalAssign(b, c)
	verif.Assert(cls_projectiveNielsPoint(a), "ConditionalAssign stays in class")
	a.ConditionalNegate(c)
	verif.Assert(cls_projectiveNielsPoint(a), "ConditionalNegate stays in class")
	x, y := any_affineNielsPoint("x"), any_affineNielsPoint("y")
	verif.Assume(cls_affineNielsPoint(x) && cls_affineNielsPoint(y))
	x.ConditionalAssign(y, c)
	x.ConditionalNegate(c)
	verif.Assert(cls_affineNielsPoint(x), "affine Niels conditional ops stay in class")
}

//verif:ob prop=C03 name=class_mulByPow2 mode=int tags=purego,force32bit use=fa split=k:1..4
func vh_class_mulByPow2() {
	t := any_EdwardsPoint("t")
	verif.Assume(cls_EdwardsPoint(t))
	var p EdwardsPoint
	p.mulByPow2(t, uint(verif.Case("k")))
	verif.Assert(cls_EdwardsPoint(&p), "mulByPow2 result in class")
}

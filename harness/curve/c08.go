//go:build verif

package curve

import (
	"github.com/oasisprotocol/curve25519-voi/curve/scalar"
	"github.com/oasisprotocol/curve25519-voi/internal/verif"
)

func secretScalar(name string) *scalar.Scalar {
	verif.Secret(name)
	var b [32]byte
	verif.AnyBytes(name, b[:])
	s, _ := scalar.NewFromBits(b[:])
	return s
}

// constant-time table lookups with a secret digit: the real masked scan (generic implementation)
//
//verif:ob prop=C08,C18 name=ct_table_lookups mode=bv tags=purego ct=1 use=pt sharedro=1
func vh_C08_lookup() {
	verif.Secret("x")
	P := genPoint("P", 0)
	x := verif.AnyI8("x")
	verif.Assume(x >= -8 && x <= 8)
	t1 := newProjectiveNielsPointLookupTable(P)
	_ = t1.Lookup(x)
	t2 := newAffineNielsPointLookupTable(P)
	_ = t2.Lookup(x)
}

//verif:ob prop=C08,C18 name=ct_variable_base_and_basepoint_mul mode=bv tags=purego ct=1 use=pt sharedro=1
func vh_C08_mul() {
	s := secretScalar("s")
	P := genPoint("P", 0)
	var out EdwardsPoint
	edwardsMulGeneric(&out, P, s)
	ED25519_BASEPOINT_TABLE.inner.Mul(&out, s)
}

//verif:ob prop=C08,C18 name=ct_montgomery_ladder mode=bv tags=purego ct=1 use=ladderabs,field.fa_SetBytes maxunroll=300 sharedro=1
func vh_C08_ladder() {
	s := secretScalar("s")
	var u, out MontgomeryPoint
	verif.AnyBytes("u", u[:])
	out.Mul(&u, s)
}

//verif:ob prop=C08,C18 name=ct_straus_constant_time mode=bv tags=purego ct=1 use=pt split=n:1..2 sharedro=1
func vh_C08_straus() {
	n := verif.Case("n")
	var scalars []*scalar.Scalar
	var points []*EdwardsPoint
	for i := 0; i < n; i++ {
		scalars = append(scalars, secretScalar("s"+string(rune('0'+i))))
		points = append(points, genPoint("P"+string(rune('0'+i)), i))
	}
	var out EdwardsPoint
	edwardsMultiscalarMulStrausGeneric(&out, scalars, points)
}

//go:build verif

package curve

import (
	"github.com/oasisprotocol/curve25519-voi/internal/field"
	"github.com/oasisprotocol/curve25519-voi/internal/verif"
)

// RFC 9496 section 4.3.1 (Decode), transcribed over integers mod p with the same SQRT_RATIO_M1 symbol
// (sqrt_ratio_r / sqrt_ratio_ok) that the field layer's SqrtRatioI contract uses.
//
//verif:ob prop=C11,C19 name=Ristretto_SetCompressed_vs_RFC9496 mode=int tags=purego,force32bit use=fa native=1
func vh_RistrettoDecode() {
	if verif.Native() {
		ristrettoDecodeEndToEnd()
		return
	}
	var c CompressedRistretto
	verif.AnyBytes("c", c[:])
	var p RistrettoPoint
	p.Identity()
	before := p
	r, err := p.SetCompressed(&c)

	P := field.VerifP()
	one := verif.IntK(1)
	sRaw := verif.IntLE(c[:])
	s := field.VerifFromBytes(c[:]) // = sRaw mod 2^255
	canonical := sRaw.Lt(P) // implies bit 255 clear
	nonNegative := s.Mod(P).Mod(verif.IntK(2)).Eq(verif.IntK(0))
	ss := s.Mul(s)
	u1 := one.Sub(ss)
	u2 := one.Add(ss)
	u2sqr := u2.Mul(u2)
	v := edD().Neg().Mul(u1.Mul(u1)).Sub(u2sqr)
	arg := v.Mul(u2sqr).Mod(P)
	wasSquare := verif.UFIntBool("sqrt_ratio_ok", one, arg)
	invsqrt := verif.UFInt("sqrt_ratio_r", one, arg)
	denX := invsqrt.Mul(u2)
	denY := invsqrt.Mul(denX).Mul(v)
	x0 := s.Add(s).Mul(denX)
	x := verif.IteInt(x0.Mod(P).Mod(verif.IntK(2)).Eq(one), x0.Neg(), x0) // CT_ABS
	y := u1.Mul(denY)
	t := x.Mul(y)
	tNeg := t.Mod(P).Mod(verif.IntK(2)).Eq(one)
	yZero := y.Mod(P).Eq(verif.IntK(0))
	accept := canonical && nonNegative && wasSquare && !tNeg && !yZero

	verif.Assert((err == nil) == accept, "accepted exactly when RFC 9496 Decode accepts")
	if err != nil {
		verif.Assert(r == nil && samePoint(&p.inner, &before.inner), "receiver untouched on rejection")
		return
	}
	verif.Assert(verif.ModEq(field.VerifFv(&p.inner.inner.X), x, P), "X = x of the RFC")
	verif.Assert(verif.ModEq(field.VerifFv(&p.inner.inner.Y), y, P), "Y = y of the RFC")
	verif.Assert(verif.ModEq(field.VerifFv(&p.inner.inner.Z), one, P), "Z = 1")
	verif.Assert(verif.ModEq(field.VerifFv(&p.inner.inner.T), t, P), "T = x*y")
}

//verif:contract for=(*curve.RistrettoPoint).SetCompressed group=ptdec
func pt_RistrettoSetCompressed(p *RistrettoPoint, c *CompressedRistretto) (*RistrettoPoint, error) {
	ok := verif.UFBool("ristretto_decodes", c[:])
	if !ok {
		return nil, errNotValidYCoordinate
	}
	verif.Havoc(p)
	return p, nil
}

//verif:ob prop=C11,C19 name=RistrettoPoint_UnmarshalBinary mode=bv tags=purego use=ptdec split=n:0..65
func vh_RistrettoUnmarshal() {
	n := verif.Case("n")
	data := make([]byte, n)
	verif.AnyBytes("data", data)
	var p RistrettoPoint
	junkPoint(&p.inner, "junk")
	err := p.UnmarshalBinary(data)
	if n != 32 {
		verif.Assert(err != nil, "wrong-length input is an error")
	} else {
		verif.Assert((err == nil) == verif.UFBool("ristretto_decodes", data), "32 bytes: error iff the string does not decode")
	}
	if err != nil {
		verif.Assert(isIdentityRep(&p.inner), "receiver is the identity after an error")
	}
}

//verif:ob prop=C11,C19 name=CompressedRistretto_UnmarshalBinary mode=bv tags=purego use=ptdec split=n:0..65
func vh_CompressedRistrettoUnmarshal() {
	n := verif.Case("n")
	data := make([]byte, n)
	verif.AnyBytes("data", data)
	var cp CompressedRistretto
	verif.AnyBytes("junk", cp[:])
	err := cp.UnmarshalBinary(data)
	var id CompressedRistretto
	id.Identity()
	if n != 32 {
		verif.Assert(err != nil, "wrong-length input is an error")
	} else {
		verif.Assert((err == nil) == verif.UFBool("ristretto_decodes", data), "32 bytes: error iff the string does not decode")
	}
	if err != nil {
		verif.Assert(cp == id, "receiver is the identity encoding after an error")
	}
}

// ---------------- group operations of the Ristretto wrappers (incl. aliased receivers) ----------------
// The wrappers delegate to the Edwards operations; over the free Z-module ghost the result must be the stated
// combination of the operands whatever the receiver aliases. (The Edwards formulas themselves: C03.)
//
//verif:ob prop=C11,C03 name=Ristretto_group_ops_aliasing mode=int tags=purego use=pt split=op:0..3;alias:0..2
func vh_C11_groupops() {
	op, alias := verif.Case("op"), verif.Case("alias")
	a, b := &RistrettoPoint{}, &RistrettoPoint{}
	a.inner = *any_EdwardsPoint("a")
	b.inner = *any_EdwardsPoint("b")
	verif.Assume(cls_EdwardsPoint(&a.inner) && cls_EdwardsPoint(&b.inner))
	ka, kb := kGen(0), kGen(1)
	setK(&a.inner, ka)
	setK(&b.inner, kb)
	p := &RistrettoPoint{}
	switch alias {
	case 1:
		p = a
	case 2:
		p = b
	}
	var want kvec
	switch op {
	case 0:
		p.Add(a, b)
		want = kAdd(ka, kb)
	case 1:
		p.Sub(a, b)
		want = kSub(ka, kb)
	case 2:
		p.Neg(a)
		want = kSub(kZero(), ka)
	case 3:
		if alias != 0 {
			return // Sum resets its receiver first: documented to take distinct values
		}
		p.Sum([]*RistrettoPoint{a, b, a})
		want = kAdd(kAdd(ka, kb), ka)
	}
	verif.Assert(kEq(getK(&p.inner), want), "result is the stated combination of the operands, also when the receiver aliases one of them")
	if alias != 1 {
		verif.Assert(kEq(getK(&a.inner), ka), "operand a untouched")
	}
	if alias != 2 {
		verif.Assert(kEq(getK(&b.inner), kb), "operand b untouched")
	}
}

//go:build verif

package curve

import (
	"github.com/oasisprotocol/curve25519-voi/curve/scalar"
	"github.com/oasisprotocol/curve25519-voi/internal/verif"
)

// Group-API abstraction for the protocol layer (group "gapi"): a point is an opaque group element named by
// the ghost integer "pid"; decoding validity, encoding, negation, the multi-scalar products and the
// small-order test are uninterpreted functions of pids and scalar values. What these symbols MEAN is the
// subject of C03/C10/C16; the protocol checks decide which symbols are applied to which bytes, in which
// order, under which option flags.

func Pid(p *EdwardsPoint) verif.BV       { return verif.GhostGetBV(p, "pid", 256) }
func SetPid(p *EdwardsPoint, v verif.BV) { verif.GhostSetBV(p, "pid", v) }

func scalarVal(s *scalar.Scalar) verif.BV {
	var b [32]byte
	_ = s.ToBytes(b[:])
	return verif.BVLE(b[:])
}

// GDecodes / GPoint: validity and identity of the point encoded by 32 bytes.
func GDecodes(b []byte) bool    { return verif.UFBool("ed_decodes", b) }
func GPoint(b []byte) verif.BV { return verif.UFBV("ed_point", 256, verif.BVLE(b)) }
func GSmallOrder(pid verif.BV) bool {
	return verif.UFBVBool("ed_small_order", pid)
}
func GIdentity() verif.BV            { return verif.BVHex("0", 256) }
func GNeg(pid verif.BV) verif.BV     { return verif.UFBV("ed_neg", 256, pid) }
func GEncode(pid verif.BV) verif.BV  { return verif.UFBV("ed_encode", 256, pid) }
func GBaseMul(s verif.BV) verif.BV   { return verif.UFBV("ed_basemul", 256, s) }
func GDouble(a, A, b verif.BV) verif.BV {
	return verif.UFBV("ed_aA_plus_bB", 256, a, A, b)
}
func GTriple(a, A, b, C verif.BV) verif.BV {
	return verif.UFBV("ed_delta_aA_plus_bB_minus_C", 256, a, A, b, C)
}

//verif:contract for=(*curve.EdwardsPoint).SetCompressedY group=gapi
func ga_SetCompressedY(p *EdwardsPoint, cy *CompressedEdwardsY) (*EdwardsPoint, error) {
	if !GDecodes(cy[:]) {
		return nil, errNotValidYCoordinate
	}
	verif.Havoc(p)
	SetPid(p, GPoint(cy[:]))
	return p, nil
}

//verif:contract for=(*curve.EdwardsPoint).IsSmallOrder group=gapi
func ga_IsSmallOrder(p *EdwardsPoint) bool { return GSmallOrder(Pid(p)) }

//verif:contract for=(*curve.EdwardsPoint).Neg group=gapi
func ga_Neg(p, t *EdwardsPoint) *EdwardsPoint {
	v := GNeg(Pid(t))
	verif.Havoc(p)
	SetPid(p, v)
	return p
}

//verif:contract for=(*curve.EdwardsPoint).Identity group=gapi
func ga_Identity(p *EdwardsPoint) *EdwardsPoint {
	verif.Havoc(p)
	SetPid(p, GIdentity())
	return p
}

//verif:contract for=(*curve.EdwardsPoint).Set group=gapi
func ga_Set(p, t *EdwardsPoint) *EdwardsPoint {
	v := Pid(t)
	verif.Havoc(p)
	SetPid(p, v)
	return p
}

//verif:contract for=(*curve.CompressedEdwardsY).SetEdwardsPoint group=gapi
func ga_Compress(cp *CompressedEdwardsY, p *EdwardsPoint) *CompressedEdwardsY {
	v := GEncode(Pid(p))
	verif.BVToBytes(v, cp[:])
	return cp
}

//verif:contract for=(*curve.EdwardsPoint).MulBasepoint group=gapi
func ga_MulBasepoint(p *EdwardsPoint, tbl *EdwardsBasepointTable, s *scalar.Scalar) *EdwardsPoint {
	v := GBaseMul(scalarVal(s))
	verif.Havoc(p)
	SetPid(p, v)
	return p
}

//verif:contract for=(*curve.EdwardsPoint).DoubleScalarMulBasepointVartime group=gapi
func ga_Double(p *EdwardsPoint, a *scalar.Scalar, A *EdwardsPoint, b *scalar.Scalar) *EdwardsPoint {
	v := GDouble(scalarVal(a), Pid(A), scalarVal(b))
	verif.Havoc(p)
	SetPid(p, v)
	return p
}

//verif:contract for=(*curve.EdwardsPoint).TripleScalarMulBasepointVartime group=gapi
func ga_Triple(p *EdwardsPoint, a *scalar.Scalar, A *EdwardsPoint, b *scalar.Scalar, C *EdwardsPoint) *EdwardsPoint {
	v := GTriple(scalarVal(a), Pid(A), scalarVal(b), Pid(C))
	verif.Havoc(p)
	SetPid(p, v)
	return p
}

// expanded (precomputed) points name the same group element
//
//verif:contract for=(*curve.ExpandedEdwardsPoint).SetEdwardsPoint group=gapi
func ga_Expand(ep *ExpandedEdwardsPoint, p *EdwardsPoint) *ExpandedEdwardsPoint {
	v := Pid(p)
	verif.Havoc(&ep.point)
	SetPid(&ep.point, v)
	return ep
}

//verif:contract for=curve.NewExpandedEdwardsPoint group=gapi
func ga_NewExpanded(p *EdwardsPoint) *ExpandedEdwardsPoint {
	var ep ExpandedEdwardsPoint
	return ga_Expand(&ep, p)
}

//verif:contract for=(*curve.EdwardsPoint).SetExpanded group=gapi
func ga_SetExpanded(p *EdwardsPoint, ep *ExpandedEdwardsPoint) *EdwardsPoint {
	v := Pid(&ep.point)
	verif.Havoc(p)
	SetPid(p, v)
	return p
}

//verif:contract for=(*curve.EdwardsPoint).ExpandedDoubleScalarMulBasepointVartime group=gapi
func ga_ExpDouble(p *EdwardsPoint, a *scalar.Scalar, A *ExpandedEdwardsPoint, b *scalar.Scalar) *EdwardsPoint {
	v := GDouble(scalarVal(a), Pid(&A.point), scalarVal(b))
	verif.Havoc(p)
	SetPid(p, v)
	return p
}

//verif:contract for=(*curve.EdwardsPoint).ExpandedTripleScalarMulBasepointVartime group=gapi
func ga_ExpTriple(p *EdwardsPoint, a *scalar.Scalar, A *ExpandedEdwardsPoint, b *scalar.Scalar, C *EdwardsPoint) *EdwardsPoint {
	v := GTriple(scalarVal(a), Pid(&A.point), scalarVal(b), Pid(C))
	verif.Havoc(p)
	SetPid(p, v)
	return p
}

// multiscalar products: a left fold of an uninterpreted accumulate step over (scalar, point) pairs, so that
// the symbol records exactly which scalar met which point, in order (any length).
func GMsmStep(acc, s, p verif.BV) verif.BV { return verif.UFBV("ed_msm_step", 256, acc, s, p) }

//verif:contract for=(*curve.EdwardsPoint).MultiscalarMulVartime group=gapi
func ga_Msm(p *EdwardsPoint, scalars []*scalar.Scalar, points []*EdwardsPoint) *EdwardsPoint {
	verif.Requires(len(scalars) == len(points), "MultiscalarMulVartime: equal lengths (documented panic otherwise)")
	acc := GIdentity()
	for i := range scalars {
		acc = GMsmStep(acc, scalarVal(scalars[i]), Pid(points[i]))
	}
	verif.Havoc(p)
	SetPid(p, acc)
	return p
}

//verif:contract for=(*curve.EdwardsPoint).ExpandedMultiscalarMulVartime group=gapi
func ga_ExpMsm(p *EdwardsPoint, staticScalars []*scalar.Scalar, staticPoints []*ExpandedEdwardsPoint, dynamicScalars []*scalar.Scalar, dynamicPoints []*EdwardsPoint) *EdwardsPoint {
	verif.Requires(len(staticScalars) == len(staticPoints) && len(dynamicScalars) == len(dynamicPoints), "ExpandedMultiscalarMulVartime: equal lengths")
	// the same group element as the plain product over (dynamic || static), which is how the reference writes it
	acc := GIdentity()
	for i := range dynamicScalars {
		acc = GMsmStep(acc, scalarVal(dynamicScalars[i]), Pid(dynamicPoints[i]))
	}
	for i := range staticScalars {
		acc = GMsmStep(acc, scalarVal(staticScalars[i]), Pid(&staticPoints[i].point))
	}
	verif.Havoc(p)
	SetPid(p, acc)
	return p
}

func GMul(s, p verif.BV) verif.BV { return verif.UFBV("ed_mul", 256, s, p) }
func GCofactor(p verif.BV) verif.BV { return verif.UFBV("ed_mul_by_cofactor", 256, p) }

//verif:contract for=(*curve.EdwardsPoint).Mul group=gapi
func ga_PtMul(p, point *EdwardsPoint, s *scalar.Scalar) *EdwardsPoint {
	v := GMul(scalarVal(s), Pid(point))
	verif.Havoc(p)
	SetPid(p, v)
	return p
}

//verif:contract for=(*curve.EdwardsPoint).MulByCofactor group=gapi
func ga_Cofactor(p, t *EdwardsPoint) *EdwardsPoint {
	v := GCofactor(Pid(t))
	verif.Havoc(p)
	SetPid(p, v)
	return p
}

func GAdd(a, b verif.BV) verif.BV { return verif.UFBV("ed_add", 256, a, b) }

//verif:contract for=(*curve.EdwardsPoint).Add group=gapi
func ga_PtAdd(p, a, b *EdwardsPoint) *EdwardsPoint {
	v := GAdd(Pid(a), Pid(b))
	verif.Havoc(p)
	SetPid(p, v)
	return p
}

func GSub(a, b verif.BV) verif.BV  { return verif.UFBV("ed_sub", 256, a, b) }
func GEqual(a, b verif.BV) bool    { return verif.UFBVBool("ed_equal", a, b) }
func GIsIdentity(a verif.BV) bool  { return verif.UFBVBool("ed_is_identity", a) }

//verif:contract for=(*curve.EdwardsPoint).Sub group=gapi
func ga_PtSub(p, a, b *EdwardsPoint) *EdwardsPoint {
	v := GSub(Pid(a), Pid(b))
	verif.Havoc(p)
	SetPid(p, v)
	return p
}

//verif:contract for=(*curve.EdwardsPoint).Equal group=gapi
func ga_PtEqual(p, other *EdwardsPoint) int {
	if GEqual(Pid(p), Pid(other)) {
		return 1
	}
	return 0
}

//verif:contract for=(*curve.EdwardsPoint).IsIdentity group=gapi
func ga_PtIsIdentity(p *EdwardsPoint) bool { return GIsIdentity(Pid(p)) }

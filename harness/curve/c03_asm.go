//go:build verif && amd64 && !purego && !force32bit

package curve

import (
	"github.com/oasisprotocol/curve25519-voi/internal/field"
	"github.com/oasisprotocol/curve25519-voi/internal/verif"
)

// The SSE2 table lookup (window_amd64.s: lookupAffineNiels), executed from the disassembled instruction stream:
// for every table content and every xabs in 0..8 the result is the identity (1, 1, 0) for 0 and entry xabs-1
// otherwise, limb for limb. (lookupCached is AVX2: not modelled.)
//
//verif:ob prop=C03,C06 name=lookupAffineNiels_amd64_sse2 mode=bv tags=default
func vh_lookupAffineNielsAsm() {
	var tbl affineNielsPointLookupTable
	for j := range tbl {
		tbl[j] = *any_affineNielsPoint("t" + string(rune('0'+j)))
	}
	out := *any_affineNielsPoint("junk")
	xabs := verif.AnyU8("xabs")
	verif.Assume(xabs <= 8)
	lookupAffineNiels(&tbl, &out, xabs)
	var want affineNielsPoint
	want.y_plus_x.One()
	want.y_minus_x.One()
	want.xy2d.Zero()
	for j := 0; j < 8; j++ {
		if xabs == uint8(j+1) {
			want = tbl[j]
		}
	}
	verif.Assert(field.VerifSame(&out.y_plus_x, &want.y_plus_x) && field.VerifSame(&out.y_minus_x, &want.y_minus_x) && field.VerifSame(&out.xy2d, &want.xy2d), "lookupAffineNiels(table, xabs) = identity for 0, entry xabs-1 otherwise (all 15 limbs)")
}

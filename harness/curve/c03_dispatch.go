//go:build verif

package curve

import (
	"github.com/oasisprotocol/curve25519-voi/curve/scalar"
	"github.com/oasisprotocol/curve25519-voi/internal/verif"
)

// L2, the multiscalar entry points and dispatchers (edwards.go, edwards_precomputation.go, scalar_mul_straus.go,
// scalar_mul_pippenger.go, ristretto.go, ristretto_precomputation.go): every (scalar, point) pair the caller
// passes reaches exactly one of the multiplication routines, in the caller's order, unfiltered and unmodified,
// with the receiver as output. The routines themselves are the subject of the Straus / Pippenger obligations;
// here they are replaced by recorders. Points are arbitrary symbolic values (so a dispatcher that inspects a
// coordinate - "skip identity-looking terms" - forks, and the fork that drops a term fails).

var (
	msCount           int
	msWhich           int
	msOut             *EdwardsPoint
	msS, msS2         []*scalar.Scalar
	msP, msP2         []*EdwardsPoint
	msXP              []*ExpandedEdwardsPoint
	msRS              []*scalar.Scalar
	msRP              []*EdwardsPoint
	msRS2             []*scalar.Scalar
	msRXP             []*ExpandedEdwardsPoint
	msRP2             []*EdwardsPoint
	msRecv            *EdwardsPoint
)

func msReset() {
	msCount, msWhich, msOut = 0, 0, nil
	msS, msS2, msP, msP2, msXP = nil, nil, nil, nil, nil
}

//verif:contract for=curve.edwardsMultiscalarMulStrausGeneric group=msdisp
func ms_strausCT(out *EdwardsPoint, scalars []*scalar.Scalar, points []*EdwardsPoint) *EdwardsPoint {
	msCount++
	msWhich, msOut, msS, msP = 1, out, scalars, points
	return out
}

//verif:contract for=curve.edwardsMultiscalarMulStrausVartimeGeneric group=msdisp
func ms_strausVT(out *EdwardsPoint, scalars []*scalar.Scalar, points []*EdwardsPoint) *EdwardsPoint {
	msCount++
	msWhich, msOut, msS, msP = 2, out, scalars, points
	return out
}

//verif:contract for=curve.edwardsMultiscalarMulPippengerVartimeGeneric group=msdisp
func ms_pippenger(out *EdwardsPoint, staticScalars []*scalar.Scalar, staticPoints []*EdwardsPoint, dynamicScalars []*scalar.Scalar, dynamicPoints []*EdwardsPoint) *EdwardsPoint {
	msCount++
	msWhich, msOut, msS, msP, msS2, msP2 = 3, out, staticScalars, staticPoints, dynamicScalars, dynamicPoints
	return out
}

//verif:contract for=curve.expandedEdwardsMultiscalarMulStrausVartimeGeneric group=msdisp
func ms_strausExp(out *EdwardsPoint, staticScalars []*scalar.Scalar, staticPoints []*ExpandedEdwardsPoint, dynamicScalars []*scalar.Scalar, dynamicPoints []*EdwardsPoint) *EdwardsPoint {
	msCount++
	msWhich, msOut, msS, msXP, msS2, msP2 = 4, out, staticScalars, staticPoints, dynamicScalars, dynamicPoints
	return out
}

func msTerms(n int, tag string, g0 int) ([]*scalar.Scalar, []*EdwardsPoint) {
	ss := make([]*scalar.Scalar, n)
	ps := make([]*EdwardsPoint, n)
	// the first two terms are objects of their own, the remaining ones share a third: n only matters for the sizes
	var sharedS *scalar.Scalar
	var sharedP *EdwardsPoint
	for i := 0; i < n; i++ {
		if i < 2 || sharedS == nil {
			s := secretScalar(tag + "s" + nafItoa(i)) // arbitrary (and, for the constant-time entry point, secret) scalars
			p := any_EdwardsPoint(tag + "P" + nafItoa(i))
			g := g0 + i
			if g > 2 {
				g = 2
			}
			setK(p, kGen(g)) // a formal generator: the terms are compared through the sum they denote
			ss[i], ps[i] = s, p
			if i >= 2 {
				sharedS, sharedP = s, p
			}
		} else {
			ss[i], ps[i] = sharedS, sharedP
		}
	}
	return ss, ps
}

func msScalarInt(s *scalar.Scalar) verif.Int {
	var b [32]byte
	_ = s.ToBytes(b[:])
	return verif.IntLE(b[:])
}

// msSum: the formal sum  sum_i s_i * P_i  of a list of terms over the Z-module ghost. A dispatcher may legitimately
// drop a term whose scalar is zero (or reorder terms): what must be preserved is the sum, not the list.
func msSum(ss []*scalar.Scalar, ps []*EdwardsPoint) kvec {
	acc := kZero()
	if len(ss) != len(ps) {
		return kvec{verif.IntK(-1), verif.IntK(-1), verif.IntK(-1)}
	}
	for i := range ss {
		acc = kAdd(acc, kScaleI(getK(ps[i]), msScalarInt(ss[i])))
	}
	return acc
}

func sameScalars(a, b []*scalar.Scalar) bool {
	if len(a) != len(b) {
		return false
	}
	for i := range a {
		if a[i] != b[i] {
			return false
		}
	}
	return true
}

func samePoints(a, b []*EdwardsPoint) bool {
	if len(a) != len(b) {
		return false
	}
	for i := range a {
		if a[i] != b[i] {
			return false
		}
	}
	return true
}

var msSizes = []int{0, 1, 2, 3, 189, 190, 191}

// the constant-time entry point, two-safety: no branch, index or length on the way to the multiplication routine
// depends on the (secret) scalars
//
//verif:ob prop=C08,C03 name=ct_multiscalar_entry_point mode=bv tags=purego use=msdisp,fa ct=1 split=sz:0..4
func vh_C08_multiscalar_dispatch() {
	msReset()
	n := msSizes[verif.Case("sz")]
	ss, ps := msTerms(n, "c", 0)
	p := &EdwardsPoint{}
	p.MultiscalarMul(ss, ps)
	verif.Assert(msCount == 1 && msWhich == 1 && sameScalars(msS, ss) && samePoints(msP, ps), "every (scalar, point) pair reaches the constant-time routine")
}

//verif:ob prop=C03,C09 name=L2_multiscalar_entry_points mode=int tags=purego use=msdisp,fa split=api:0..1;sz:0..6
func vh_L2_multiscalar_dispatch() {
	msReset()
	n := msSizes[verif.Case("sz")]
	ss, ps := msTerms(n, "d", 0)
	p := &EdwardsPoint{}
	var r *EdwardsPoint
	if verif.Case("api") == 0 {
		r = p.MultiscalarMul(ss, ps)
		verif.Assert(msCount == 1 && msWhich == 1, "MultiscalarMul: exactly one call of the constant-time routine")
	} else {
		r = p.MultiscalarMulVartime(ss, ps)
		verif.Assert(msCount == 1 && (msWhich == 2 || msWhich == 3), "MultiscalarMulVartime: exactly one call of a variable-time routine")
	}
	verif.Assert(r == p && msOut == p, "the receiver is the output and is returned")
	if verif.Case("api") == 0 {
		// constant time: the list itself is passed on (dropping or reordering terms by value would be a leak)
		verif.Assert(sameScalars(msS, ss) && samePoints(msP, ps), "every (scalar, point) pair is passed on, in order, unfiltered")
		return
	}
	want := msSum(ss, ps)
	got := msSum(msS, msP)
	if msWhich == 3 {
		got = kAdd(got, msSum(msS2, msP2))
	}
	verif.Assert(kEq(got, want), "the terms handed to the multiplication routine denote the caller's sum  sum_i s_i * P_i  (no term with a non-zero scalar is lost or altered)")
}

var msSplit = [][2]int{{0, 0}, {1, 1}, {2, 0}, {0, 2}, {95, 95}, {95, 96}, {190, 1}, {1, 190}, {3, 2}}

//verif:ob prop=C03,C09 name=L2_expanded_multiscalar_entry_point mode=int tags=purego use=msdisp,fa split=sd:0..8
func vh_L2_multiscalar_dispatch_expanded() {
	msReset()
	ns, nd := msSplit[verif.Case("sd")][0], msSplit[verif.Case("sd")][1]
	ss := make([]*scalar.Scalar, ns)
	xs := make([]*ExpandedEdwardsPoint, ns)
	var sharedS *scalar.Scalar
	var sharedX *ExpandedEdwardsPoint
	for i := 0; i < ns; i++ {
		if i < 2 || sharedS == nil {
			s := secretScalar("xs" + nafItoa(i))
			x := &ExpandedEdwardsPoint{}
			x.point = *any_EdwardsPoint("x" + nafItoa(i))
			g := 0
			if i > 0 {
				g = 2
			}
			setK(&x.point, kGen(g))
			x.inner = &projectiveNielsPointNafLookupTable{}
			ss[i], xs[i] = s, x
			if i >= 2 {
				sharedS, sharedX = s, x
			}
		} else {
			ss[i], xs[i] = sharedS, sharedX
		}
	}
	ds, dp := msTerms(nd, "e", 1)
	p := &EdwardsPoint{}
	r := p.ExpandedMultiscalarMulVartime(ss, xs, ds, dp)
	verif.Assert(msCount == 1 && (msWhich == 3 || msWhich == 4), "exactly one call of a variable-time routine")
	verif.Assert(r == p && msOut == p, "the receiver is the output and is returned")
	// the caller's sum: static terms are the points of the expanded keys
	want := msSum(ds, dp)
	for i := 0; i < ns; i++ {
		want = kAdd(want, kScaleI(getK(&xs[i].point), msScalarInt(ss[i])))
	}
	got := msSum(msS2, msP2)
	if msWhich == 4 {
		if len(msXP) != len(msS) {
			got = kvec{verif.IntK(-1), verif.IntK(-1), verif.IntK(-1)}
		} else {
			for i := range msXP {
				got = kAdd(got, kScaleI(getK(&msXP[i].point), msScalarInt(msS[i])))
			}
		}
	} else {
		got = kAdd(got, msSum(msS, msP))
	}
	verif.Assert(kEq(got, want), "the static and dynamic terms handed to the multiplication routine denote the caller's sum (scalar i stays with point i across the static/dynamic split; no term with a non-zero scalar is lost)")
}

// ---- Ristretto wrappers: the Edwards entry points receive the inner points, in order ----

//verif:contract for=(*curve.EdwardsPoint).MultiscalarMul group=msrist
func msr_MultiscalarMul(p *EdwardsPoint, scalars []*scalar.Scalar, points []*EdwardsPoint) *EdwardsPoint {
	msCount++
	msWhich, msRecv, msRS, msRP = 11, p, scalars, points
	return p
}

//verif:contract for=(*curve.EdwardsPoint).MultiscalarMulVartime group=msrist
func msr_MultiscalarMulVartime(p *EdwardsPoint, scalars []*scalar.Scalar, points []*EdwardsPoint) *EdwardsPoint {
	msCount++
	msWhich, msRecv, msRS, msRP = 12, p, scalars, points
	return p
}

//verif:contract for=(*curve.EdwardsPoint).ExpandedMultiscalarMulVartime group=msrist
func msr_ExpandedMultiscalarMulVartime(p *EdwardsPoint, staticScalars []*scalar.Scalar, staticPoints []*ExpandedEdwardsPoint, dynamicScalars []*scalar.Scalar, dynamicPoints []*EdwardsPoint) *EdwardsPoint {
	msCount++
	msWhich, msRecv, msRS, msRXP, msRS2, msRP2 = 13, p, staticScalars, staticPoints, dynamicScalars, dynamicPoints
	return p
}

//verif:ob prop=C03,C11,C12 name=Ristretto_multiscalar_wrappers mode=int tags=purego use=msrist,fa split=api:0..2;n:0..3
func vh_Ristretto_multiscalar() {
	msReset()
	n := verif.Case("n")
	ss := make([]*scalar.Scalar, n)
	rs := make([]*RistrettoPoint, n)
	xs := make([]*ExpandedRistrettoPoint, n)
	for i := 0; i < n; i++ {
		ss[i] = &scalar.Scalar{}
		rs[i] = &RistrettoPoint{inner: *any_EdwardsPoint("r" + nafItoa(i))}
		xs[i] = &ExpandedRistrettoPoint{}
	}
	p := &RistrettoPoint{}
	switch verif.Case("api") {
	case 0:
		r := p.MultiscalarMul(ss, rs)
		verif.Assert(r == p && msCount == 1 && msWhich == 11 && msRecv == &p.inner, "MultiscalarMul delegates once to the Edwards constant-time entry point on the inner receiver")
	case 1:
		r := p.MultiscalarMulVartime(ss, rs)
		verif.Assert(r == p && msCount == 1 && msWhich == 12 && msRecv == &p.inner, "MultiscalarMulVartime delegates once to the Edwards variable-time entry point on the inner receiver")
	default:
		r := p.ExpandedMultiscalarMulVartime(ss, xs, ss, rs)
		verif.Assert(r == p && msCount == 1 && msWhich == 13 && msRecv == &p.inner, "ExpandedMultiscalarMulVartime delegates once to the Edwards entry point on the inner receiver")
		ok := len(msRXP) == n && sameScalars(msRS2, ss)
		for i := 0; ok && i < n; i++ {
			ok = msRXP[i] == &xs[i].inner
		}
		verif.Assert(ok, "static term i is the inner expanded point i; dynamic scalars unchanged")
		msRP = msRP2
	}
	ok := sameScalars(msRS, ss) && len(msRP) == n
	for i := 0; ok && i < n; i++ {
		ok = msRP[i] == &rs[i].inner
	}
	verif.Assert(ok, "term i is (scalar i, inner point i), in order, unfiltered")
}

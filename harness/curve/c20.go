//go:build verif

package curve

import (
	"github.com/oasisprotocol/curve25519-voi/internal/field"
	"github.com/oasisprotocol/curve25519-voi/internal/verif"
)

// C20: every constant equals its definition. The engine obtains each constant by executing the package
// initialisers of the real code (per back end); each value is pinned to a solver variable and the defining
// relation is an integer-arithmetic query mod p. Witnesses (affine coordinates of intermediate doublings) are
// proposed by running the real code on the constants and are VERIFIED by the queries, never trusted.

func pinFe(e *field.Element) verif.Int { return verif.Pin(field.VerifVal(e)) }

func modP(a, b verif.Int) bool { return verif.ModEq(a, b, field.VerifP()) }

//verif:ob prop=C20,C06 name=curve_field_constants mode=int tags=purego,force32bit
func vh_C20_curveConstants() {
	d, d2 := pinFe(&constEDWARDS_D), pinFe(&constEDWARDS_D2)
	one := verif.IntK(1)
	verif.Assert(modP(d.Mul(verif.IntK(121666)), verif.IntK(-121665)), "d = -121665/121666")
	verif.Assert(modP(d2, d.Add(d)), "d2 = 2d")
	verif.Assert(modP(pinFe(&constMINUS_ONE), verif.IntK(-1)), "MINUS_ONE = -1")
	i := pinFe(&field.SQRT_M1)
	verif.Assert(modP(i.Mul(i), verif.IntK(-1)), "SQRT_M1^2 = -1")
	verif.Assert(i.Mod(field.VerifP()).Mod(verif.IntK(2)).Eq(verif.IntK(0)), "SQRT_M1 is the non-negative (even) root")
	verif.Assert(modP(pinFe(&constONE_MINUS_EDWARDS_D_SQUARED), one.Sub(d.Mul(d))), "1 - d^2")
	dm1 := d.Sub(one)
	verif.Assert(modP(pinFe(&constEDWARDS_D_MINUS_ONE_SQUARED), dm1.Mul(dm1)), "(d - 1)^2")
	// a = -1:  sqrt(a*d - 1)^2 = -d - 1 ;  invsqrt(a - d)^2 * (-1 - d) = 1
	sad := pinFe(&constSQRT_AD_MINUS_ONE)
	verif.Assert(modP(sad.Mul(sad), d.Neg().Sub(one)), "SQRT_AD_MINUS_ONE^2 = a*d - 1")
	isq := pinFe(&constINVSQRT_A_MINUS_D)
	verif.Assert(modP(isq.Mul(isq).Mul(d.Neg().Sub(one)), one), "INVSQRT_A_MINUS_D^2 * (a - d) = 1")
	verif.Assert(modP(pinFe(&field.One), one) && modP(pinFe(&field.MinusOne), verif.IntK(-1)) && modP(pinFe(&field.Two), verif.IntK(2)), "field.One, MinusOne, Two")
}

func onCurve(x, y verif.Int, d verif.Int) bool {
	xx, yy := x.Mul(x), y.Mul(y)
	return modP(yy.Sub(xx), verif.IntK(1).Add(d.Mul(xx).Mul(yy)))
}

func pinPoint(p *EdwardsPoint) (X, Y, Z, T verif.Int) {
	return pinFe(&p.inner.X), pinFe(&p.inner.Y), pinFe(&p.inner.Z), pinFe(&p.inner.T)
}

//verif:ob prop=C20,C06 name=basepoint_and_torsion_points mode=int tags=purego,force32bit
func vh_C20_points() {
	d := pinFe(&constEDWARDS_D)
	X, Y, Z, T := pinPoint(ED25519_BASEPOINT_POINT)
	verif.Assert(modP(Z, verif.IntK(1)), "B: Z = 1")
	verif.Assert(modP(Y.Mul(verif.IntK(5)), verif.IntK(4)), "B: y = 4/5")
	verif.Assert(onCurve(X, Y, d), "B is on the curve")
	verif.Assert(X.Mod(field.VerifP()).Mod(verif.IntK(2)).Eq(verif.IntK(0)), "B: x is even (positive)")
	verif.Assert(modP(T, X.Mul(Y)), "B: T = x*y")
	// the compressed base point is its encoding
	var cp CompressedEdwardsY
	cp.SetEdwardsPoint(ED25519_BASEPOINT_POINT)
	verif.Assert(cp == *ED25519_BASEPOINT_COMPRESSED, "ED25519_BASEPOINT_COMPRESSED = encode(B)")

	// the eight torsion points BY VALUE: T0 = (0,1), T4 = (0,-1), T2/T6 = (+-sqrt(-1), 0), the order-8 points have
	// y^2 = x^2 (so 2y^2 = 1 + d*y^4 ... checked through the curve equation) and [2]T_k = T_2k
	i := pinFe(&field.SQRT_M1)
	for k := 0; k < 8; k++ {
		tx, ty, tz, tt := pinPoint(EIGHT_TORSION[k])
		verif.Assert(modP(tz, verif.IntK(1)) && modP(tt, tx.Mul(ty)), "torsion point: Z = 1, T = x*y")
		verif.Assert(onCurve(tx, ty, d), "torsion point is on the curve")
		switch k {
		case 0:
			verif.Assert(modP(tx, verif.IntK(0)) && modP(ty, verif.IntK(1)), "T0 = (0, 1)")
		case 4:
			verif.Assert(modP(tx, verif.IntK(0)) && modP(ty, verif.IntK(-1)), "T4 = (0, -1)")
		case 2, 6:
			verif.Assert(modP(ty, verif.IntK(0)) && modP(tx.Mul(tx), verif.IntK(-1)), "T2, T6 = (+-sqrt(-1), 0)")
		default:
			// order 8: doubling lands on (+-i, 0), i.e. y3 = 0:  y^2 + x^2 = 0  (a = -1)
			verif.Assert(modP(ty.Mul(ty).Add(tx.Mul(tx)), verif.IntK(0)), "T1,3,5,7: y^2 = -x^2 (the double has y = 0)")
		}
		// T_{k+1} = T_k + T_1 by the affine law, cross-multiplied
		nx, ny, _, _ := pinPoint(EIGHT_TORSION[(k+1)%8])
		x1, y1, _, _ := pinPoint(EIGHT_TORSION[1])
		dxy := d.Mul(tx).Mul(x1).Mul(ty).Mul(y1)
		verif.Assert(modP(nx.Mul(verif.IntK(1).Add(dxy)), tx.Mul(y1).Add(ty.Mul(x1))), "T_{k+1} = T_k + T_1 (x)")
		verif.Assert(modP(ny.Mul(verif.IntK(1).Sub(dxy)), ty.Mul(y1).Add(tx.Mul(x1))), "T_{k+1} = T_k + T_1 (y)")
	}
	_ = i
}

// affine Niels entry -> (2x, 2y) and consistency of its third coordinate
func nielsXY2(e *affineNielsPoint) (x2, y2 verif.Int) {
	s, m := pinFe(&e.y_plus_x), pinFe(&e.y_minus_x)
	return s.Sub(m), s.Add(m)
}

func nielsConsistent(e *affineNielsPoint, d verif.Int) bool {
	x2, y2 := nielsXY2(e)
	// xy2d = 2*d*x*y  <=>  2*xy2d = d*(2x)*(2y) ; on curve: 4(y2^2 - x2^2) = 16 + d*x2^2*y2^2
	xx, yy := x2.Mul(x2), y2.Mul(y2)
	return modP(pinFe(&e.xy2d).Mul(verif.IntK(2)), d.Mul(x2).Mul(y2)) &&
		modP(yy.Sub(xx).Mul(verif.IntK(4)), verif.IntK(16).Add(d.Mul(xx).Mul(yy)))
}

// (2x3, 2y3) is the affine sum of (2x1,2y1)/2 and (2x2,2y2)/2:
//   x3*(1 + d x1x2y1y2) = x1y2 + y1x2   scaled by 2*16:   X3*(16 + d X1X2Y1Y2) = 8*(X1Y2 + Y1X2)
func sumOf(X3, Y3, X1, Y1, X2, Y2, d verif.Int) bool {
	dd := d.Mul(X1).Mul(X2).Mul(Y1).Mul(Y2)
	return modP(X3.Mul(verif.IntK(16).Add(dd)), verif.IntK(8).Mul(X1.Mul(Y2).Add(Y1.Mul(X2)))) &&
		modP(Y3.Mul(verif.IntK(16).Sub(dd)), verif.IntK(8).Mul(Y1.Mul(Y2).Add(X1.Mul(X2))))
}

// The 32x8 fixed-base table: entry (i, j) = (j+1) * 256^i * B.
//   (0,0) = B;  (i, j+1) = (i, j) + (i, 0);  (i+1, 0) = [2^8](i, 0) by eight doublings whose intermediate
//   affine points are proposed by the real code and each verified by the affine doubling law.
//
//verif:ob prop=C20,C06,C02 name=basepoint_table_rows mode=int tags=purego split=i:0..31
func vh_C20_tableRow() { tableRow(verif.Case("i")) }

// the same packed bytes unpacked by the 32-bit back end: sampled rows in the quick tier, all rows in the thorough one
//
//verif:ob prop=C20,C06 name=basepoint_table_rows_u32 mode=int tags=force32bit split=i:0..1+30..31 tsplit=i:0..31
func vh_C20_tableRow32() { tableRow(verif.Case("i")) }

func tableRow(i int) {
	d := pinFe(&constEDWARDS_D)
	tbl := ED25519_BASEPOINT_TABLE.inner
	row := &tbl[i]
	for j := 0; j < 8; j++ {
		verif.Assert(nielsConsistent(&row[j], d), "entry is a consistent affine Niels point on the curve")
	}
	x1, y1 := nielsXY2(&row[0])
	for j := 0; j < 7; j++ {
		xa, ya := nielsXY2(&row[j])
		xb, yb := nielsXY2(&row[j+1])
		verif.Assert(sumOf(xb, yb, xa, ya, x1, y1, d), "(i, j+1) = (i, j) + (i, 0)")
	}
	if i == 0 {
		bx, by, _, _ := pinPoint(ED25519_BASEPOINT_POINT)
		verif.Assert(modP(x1, bx.Mul(verif.IntK(2))) && modP(y1, by.Mul(verif.IntK(2))), "(0, 0) = B")
	}
	if i < 31 {
		// eight doublings from (i,0); witnesses from the real code
		var p EdwardsPoint
		p.setAffineNiels(&row[0])
		cx, cy := x1, y1
		for k := 0; k < 8; k++ {
			p.mulByPow2(&p, 1)
			var an affineNielsPoint
			an.SetEdwards(&p)
			nx, ny := nielsXY2(&an)
			verif.Assert(sumOf(nx, ny, cx, cy, cx, cy, d), "witnessed doubling step is the affine double")
			cx, cy = nx, ny
		}
		tx, ty := nielsXY2(&tbl[i+1][0])
		verif.Assert(modP(tx, cx) && modP(ty, cy), "(i+1, 0) = [256](i, 0)")
	}
}

// The two 64-entry odd-multiple tables: entry j+1 = entry j + [2]P; entry 0 = P (B resp. [2^128]B).
//
//verif:ob prop=C20,C06 name=odd_multiples_tables mode=int tags=purego,force32bit split=t:0..1
func vh_C20_oddMultiples() {
	d := pinFe(&constEDWARDS_D)
	tbl := &constAFFINE_ODD_MULTIPLES_OF_BASEPOINT
	base := ED25519_BASEPOINT_POINT
	if verif.Case("t") == 1 {
		tbl = &constAFFINE_ODD_MULTIPLES_OF_B_SHL_128
		base = constB_SHL_128
	}
	for j := 0; j < 64; j++ {
		verif.Assert(nielsConsistent(&tbl[j], d), "entry is a consistent affine Niels point on the curve")
	}
	// entry 0 is the base (projective comparison: x0/2 * Z = X)
	x0, y0 := nielsXY2(&tbl[0])
	X, Y, Z, T := pinPoint(base)
	verif.Assert(modP(x0.Mul(Z), X.Mul(verif.IntK(2))) && modP(y0.Mul(Z), Y.Mul(verif.IntK(2))) && modP(T.Mul(Z), X.Mul(Y)), "entry 0 = P")
	// [2]P witnessed by the real code, verified by the doubling law
	var p2 EdwardsPoint
	p2.mulByPow2(base, 1)
	var an affineNielsPoint
	an.SetEdwards(&p2)
	dx, dy := nielsXY2(&an)
	verif.Assert(sumOf(dx, dy, x0, y0, x0, y0, d), "witness for [2]P is the affine double of entry 0")
	for j := 0; j < 63; j++ {
		xa, ya := nielsXY2(&tbl[j])
		xb, yb := nielsXY2(&tbl[j+1])
		verif.Assert(sumOf(xb, yb, xa, ya, dx, dy, d), "entry j+1 = entry j + [2]P")
	}
}

// constB_SHL_128 = [2^128]B: 128 witnessed doublings.
//
//verif:ob prop=C20 name=B_SHL_128 mode=int tags=purego,force32bit tier=thorough
func vh_C20_bshl128() {
	d := pinFe(&constEDWARDS_D)
	var p EdwardsPoint
	p.Set(ED25519_BASEPOINT_POINT)
	var an affineNielsPoint
	an.SetEdwards(&p)
	cx, cy := nielsXY2(&an)
	bx, by, _, _ := pinPoint(ED25519_BASEPOINT_POINT)
	verif.Assert(modP(cx, bx.Mul(verif.IntK(2))) && modP(cy, by.Mul(verif.IntK(2))), "start at B")
	for k := 0; k < 128; k++ {
		p.mulByPow2(&p, 1)
		an.SetEdwards(&p)
		nx, ny := nielsXY2(&an)
		verif.Assert(sumOf(nx, ny, cx, cy, cx, cy, d), "witnessed doubling step is the affine double")
		cx, cy = nx, ny
	}
	X, Y, Z, T := pinPoint(constB_SHL_128)
	verif.Assert(modP(cx.Mul(Z), X.Mul(verif.IntK(2))) && modP(cy.Mul(Z), Y.Mul(verif.IntK(2))) && modP(T.Mul(Z), X.Mul(Y)), "constB_SHL_128 = [2^128]B")
}

// ---- the byte-array constants of the other two encodings, tied to the base point ----
// X25519_BASEPOINT is u = (1 + y)/(1 - y) of B (= 9); RISTRETTO_BASEPOINT_COMPRESSED is a canonical non-negative s
// whose RFC 9496 decoding lies in the coset of B: with y' = (1 - s^2)/(1 + s^2) and x'^2 = 4 s^2 / v,
// v = -d (1 - s^2)^2 - (1 + s^2)^2, the (squared) Ristretto equality y_B y' = x_B x' holds; RISTRETTO_BASEPOINT_POINT
// is B itself.
//
//verif:ob prop=C20,C11,C07 name=basepoint_byte_constants mode=int tags=purego,force32bit
func vh_C20_bytes() {
	P := field.VerifP()
	d := pinFe(&constEDWARDS_D)
	X, Y, _, _ := pinPoint(ED25519_BASEPOINT_POINT)
	one := verif.IntK(1)
	u := verif.IntLE(X25519_BASEPOINT[:])
	verif.Assert(u.Lt(P) && modP(u.Mul(one.Sub(Y)), one.Add(Y)), "X25519_BASEPOINT = (1 + y)/(1 - y) of the base point")
	verif.Assert(u.Eq(verif.IntK(9)), "X25519_BASEPOINT = 9")
	s := verif.IntLE(RISTRETTO_BASEPOINT_COMPRESSED[:])
	verif.Assert(s.Lt(P) && s.Mod(verif.IntK(2)).Eq(verif.IntK(0)), "RISTRETTO_BASEPOINT_COMPRESSED: canonical, non-negative s")
	ss := s.Mul(s)
	u1, u2 := one.Sub(ss), one.Add(ss)
	v := d.Neg().Mul(u1).Mul(u1).Sub(u2.Mul(u2))
	verif.Assert(modP(Y.Mul(Y).Mul(u1).Mul(u1).Mul(v), X.Mul(X).Mul(verif.IntK(4)).Mul(ss).Mul(u2).Mul(u2)), "RISTRETTO_BASEPOINT_COMPRESSED decodes into the coset of the base point")
	rx, ry, rz, rt := pinPoint(&RISTRETTO_BASEPOINT_POINT.inner)
	verif.Assert(modP(rx, X) && modP(ry, Y) && modP(rz, one) && modP(rt, X.Mul(Y)), "RISTRETTO_BASEPOINT_POINT is the base point")
}

//go:build verif

package curve

import (
	"github.com/oasisprotocol/curve25519-voi/curve/scalar"
	"github.com/oasisprotocol/curve25519-voi/internal/field"
	"github.com/oasisprotocol/curve25519-voi/internal/verif"
)

const hexP = "7fffffffffffffffffffffffffffffffffffffffffffffffffffffffffffffed"

// ---------------- IsCanonicalVartime: all 2^256 strings ----------------

//verif:ob prop=C10,C01,C15 name=IsCanonicalVartime mode=bv tags=purego
func vh_IsCanonicalVartime() {
	var p CompressedEdwardsY
	verif.AnyBytes("p", p[:])
	got := p.IsCanonicalVartime()
	v := verif.BVLE(p[:])
	y := v.And(verif.BVHex("7fffffffffffffffffffffffffffffffffffffffffffffffffffffffffffffff", 256))
	sign := p[31]>>7 == 1
	P := verif.BVHex(hexP, 256)
	yIsOne := y.Eq(verif.BVHex("1", 256))
	yIsMinusOne := y.Eq(verif.BVHex("7fffffffffffffffffffffffffffffffffffffffffffffffffffffffffffffec", 256))
	want := y.ULT(P) && !(sign && (yIsOne || yIsMinusOne))
	verif.Assert(got == want, "canonical iff y < p and not (x = 0 with the sign bit set)")
}

// ---------------- decoding ----------------

// arbitrary prior contents of a receiver
func junkPoint(p *EdwardsPoint, name string) {
	p.inner.X = field.VerifAnyElement(name + "X")
	p.inner.Y = field.VerifAnyElement(name + "Y")
	p.inner.Z = field.VerifAnyElement(name + "Z")
	p.inner.T = field.VerifAnyElement(name + "T")
}

func fvOf(e *field.Element) verif.Int { return field.VerifFv(e).Mod(field.VerifP()) }

func isIdentityRep(p *EdwardsPoint) bool {
	// exactly what Identity() writes
	var id EdwardsPoint
	id.Identity()
	return samePoint(p, &id)
}

func samePoint(a, b *EdwardsPoint) bool {
	return field.VerifSame(&a.inner.X, &b.inner.X) && field.VerifSame(&a.inner.Y, &b.inner.Y) &&
		field.VerifSame(&a.inner.Z, &b.inner.Z) && field.VerifSame(&a.inner.T, &b.inner.T)
}

func edD() verif.Int {
	return verif.IntLit("37095705934669439343138083508754565189542113879843219016388785533085940283555")
}

// SetCompressedY: success iff the square-root flag is set; the stored point satisfies the curve relation
// x^2 * (d*y^2 + 1) = y^2 - 1 with y = le(bytes) mod 2^255 mod p, x has the requested sign unless x = 0,
// Z = 1, T = x*y; the receiver is untouched on failure.
//
//verif:ob prop=C10 name=SetCompressedY mode=int tags=purego,force32bit use=fa native=1
func vh_SetCompressedY() {
	var cy CompressedEdwardsY
	verif.AnyBytes("cy", cy[:])
	if verif.Native() {
		// end-to-end statement for the native search: a failed decode leaves the receiver exactly as it was;
		// a successful one re-encodes to the canonical form of the same (y, sign)
		var p EdwardsPoint
		p.Identity()
		r, err := p.SetCompressedY(&cy)
		if err != nil {
			verif.Assert(r == nil && p.IsIdentity() && field.VerifSame(&p.inner.X, &constIdentityX) && field.VerifSame(&p.inner.T, &constIdentityX), "receiver untouched on failure")
			return
		}
		var back CompressedEdwardsY
		back.SetEdwardsPoint(&p)
		var again EdwardsPoint
		_, err2 := again.SetCompressedY(&back)
		verif.Assert(err2 == nil && again.Equal(&p) == 1, "decode(encode(decode(b))) = decode(b)")
		return
	}
	var p EdwardsPoint
	p.Identity()
	before := p
	r, err := p.SetCompressedY(&cy)
	P := field.VerifP()
	y := field.VerifFromBytes(cy[:]) // = le(cy) mod 2^255: bit 255 ignored; values in [p, 2^255) are accepted and mean y - p
	yy := y.Mul(y)
	u := yy.Sub(verif.IntK(1)).Mod(P)
	v := yy.Mul(edD()).Add(verif.IntK(1)).Mod(P)
	ok := verif.UFIntBool("sqrt_ratio_ok", u, v)
	verif.Assert((err == nil) == ok, "accepted iff (y^2-1)/(d*y^2+1) is a square (the SqrtRatioI flag)")
	if err != nil {
		verif.Assert(r == nil && samePoint(&p, &before), "receiver untouched on failure")
		return
	}
	verif.Assert(r == &p, "returns the receiver")
	x := fvOf(&p.inner.X)
	verif.Assert(fvOf(&p.inner.Y).Eq(y.Mod(P)), "Y = y mod p")
	verif.Assert(fvOf(&p.inner.Z).Eq(verif.IntK(1)), "Z = 1")
	verif.Assert(verif.ModEq(fvOf(&p.inner.T), x.Mul(y), P), "T = x*y")
	verif.Assert(verif.ModEq(v.Mul(x).Mul(x), u, P), "x^2 * (d*y^2+1) = y^2 - 1  (the point is on the curve)")
	sign := verif.IntOf8(cy[31] >> 7)
	verif.Assert(x.Eq(verif.IntK(0)) || x.Mod(verif.IntK(2)).Eq(sign), "x has the requested sign (unless x = 0)")
	verif.Assert(field.VerifRedOK(&p.inner.X) && field.VerifRedOK(&p.inner.Y) && field.VerifRedOK(&p.inner.T), "coordinates are reduced representations")
}

// abstract decoder used by everything above (group "pt"): validity is an uninterpreted predicate of the
// 255-bit y value; the point is opaque.
//
//verif:contract for=(*curve.EdwardsPoint).SetCompressedY group=ptdec
func pt_SetCompressedY(p *EdwardsPoint, cy *CompressedEdwardsY) (*EdwardsPoint, error) {
	ok := verif.UFBool("ed_decodes", cy[:])
	if !ok {
		return nil, errNotValidYCoordinate
	}
	verif.Havoc(p)
	return p, nil
}

// UnmarshalBinary family with every input length 0..65: error iff (len != 32 or not decodable); the
// receiver is the identity after every error.
//
//verif:ob prop=C10,C19 name=EdwardsPoint_UnmarshalBinary mode=bv tags=purego use=ptdec split=n:0..65
func vh_EdwardsUnmarshal() {
	n := verif.Case("n")
	data := make([]byte, n)
	verif.AnyBytes("data", data)
	var p EdwardsPoint
	junkPoint(&p, "junk")
	err := p.UnmarshalBinary(data)
	if n != 32 {
		verif.Assert(err != nil, "wrong-length input is an error")
	} else {
		verif.Assert((err == nil) == verif.UFBool("ed_decodes", data), "32 bytes: error iff the string does not decode")
	}
	if err != nil {
		verif.Assert(isIdentityRep(&p), "receiver is the identity after an error")
	}
}

//verif:ob prop=C10,C19 name=CompressedEdwardsY_UnmarshalBinary mode=bv tags=purego use=ptdec split=n:0..65
func vh_CompressedUnmarshal() {
	n := verif.Case("n")
	data := make([]byte, n)
	verif.AnyBytes("data", data)
	var cp CompressedEdwardsY
	verif.AnyBytes("junk", cp[:])
	err := cp.UnmarshalBinary(data)
	var id CompressedEdwardsY
	id.Identity()
	if n != 32 {
		verif.Assert(err != nil, "wrong-length input is an error")
	} else {
		verif.Assert((err == nil) == verif.UFBool("ed_decodes", data), "32 bytes: error iff the string does not decode")
	}
	if err != nil {
		verif.Assert(cp == id, "receiver is the identity encoding after an error")
	} else {
		same := true
		for i := 0; i < 32; i++ {
			same = same && cp[i] == data[i]
		}
		verif.Assert(same, "accepted bytes are stored verbatim")
	}
}

//verif:ob prop=C10,C19 name=CompressedEdwardsY_SetBytes mode=bv tags=purego split=n:0..65
func vh_CompressedSetBytes() {
	n := verif.Case("n")
	data := make([]byte, n)
	verif.AnyBytes("data", data)
	r, err := NewCompressedEdwardsYFromBytes(data)
	verif.Assert((err == nil) == (n == 32), "error iff len != 32")
	verif.Assert((r == nil) == (err != nil), "nil result on error")
}

// ---------------- identity / small-order predicates and the Montgomery -> Edwards conversion ----------------

// IsIdentity answers "affine point (0, 1)" for every projective representative (Z != 0) of every point.
//
//verif:ob prop=C10,C03 name=L1_IsIdentity mode=int tags=purego,force32bit use=fa native=1
func vh_C10_IsIdentity() {
	if verif.Native() {
		// native search: any decodable string; IsIdentity / Equal agree with the canonical encoding
		var cy, enc, idEnc CompressedEdwardsY
		verif.AnyBytes("cy", cy[:])
		var p, id EdwardsPoint
		if _, err := p.SetCompressedY(&cy); err != nil {
			return
		}
		id.Identity()
		enc.SetEdwardsPoint(&p)
		idEnc.SetEdwardsPoint(&id)
		verif.Assert(p.IsIdentity() == (enc == idEnc) && (p.Equal(&id) == 1) == (enc == idEnc), "IsIdentity / Equal(identity) iff the canonical encoding is the identity's")
		return
	}
	var a EdwardsPoint
	g := ghostPoint(&a, "a")
	P := field.VerifP()
	verif.Assume(!g.z.Mod(P).Eq(verif.IntK(0)))
	got := a.IsIdentity()
	want := verif.ModEq(g.x.Mul(g.z), verif.IntK(0), P) && verif.ModEq(g.y.Mul(g.z), g.z, P)
	verif.Assert(got == want, "IsIdentity iff X = 0 and Y = Z (mod p): the affine point (0, 1)")
}

// IsSmallOrder = IsIdentity([8]P) and IsTorsionFree = IsIdentity([L]P), over the group-level ghost.
//
//verif:ob prop=C10,C03 name=small_order_and_torsion_free_predicates mode=int tags=purego use=pt,ptid
func vh_C10_predicates() {
	a := any_EdwardsPoint("a")
	verif.Assume(cls_EdwardsPoint(a))
	setK(a, kGen(0))
	lastIdentityArg = kZero()
	_ = a.IsSmallOrder()
	verif.Assert(kEq(lastIdentityArg, kScale(kGen(0), 8)), "IsSmallOrder tests [8]P for the identity")
}

var constIdentityX field.Element // zero

var lastIdentityArg kvec

//verif:contract for=(*curve.EdwardsPoint).IsIdentity group=ptid
func ptid_IsIdentity(p *EdwardsPoint) bool {
	lastIdentityArg = getK(p)
	k := getK(p)
	return verif.UFIntBool("is_identity_of", k[0], k[1], k[2])
}

//verif:contract for=(*curve.EdwardsPoint).Mul group=ptid
func ptid_Mul(p, point *EdwardsPoint, s *scalar.Scalar) *EdwardsPoint {
	var b [32]byte
	_ = s.ToBytes(b[:])
	k := kScaleI(getK(point), verif.IntLE(b[:]))
	verif.Havoc(p)
	setK(p, k)
	return p
}

// IsTorsionFree(P) is exactly "[L]P is the identity" - in particular true for the identity itself.
//
//verif:ob prop=C10,C03 name=torsion_free_predicate mode=int tags=purego use=pt,ptid
func vh_C10_torsionFree() {
	a := any_EdwardsPoint("a")
	verif.Assume(cls_EdwardsPoint(a))
	setK(a, kGen(0))
	got := a.IsTorsionFree()
	L := verif.IntLit("7237005577332262213973186563042994240857116359379907606001950938285454250989")
	want := verif.UFIntBool("is_identity_of", L, verif.IntK(0), verif.IntK(0))
	verif.Assert(got == want, "IsTorsionFree(P) = IsIdentity([L]P) and nothing else")
}

var lastCY CompressedEdwardsY

//verif:contract for=(*curve.EdwardsPoint).SetCompressedY group=montdec
func md_SetCompressedY(p *EdwardsPoint, cy *CompressedEdwardsY) (*EdwardsPoint, error) {
	lastCY = *cy
	if !GDecodes(cy[:]) {
		return nil, errNotValidYCoordinate
	}
	verif.Havoc(p)
	return p, nil
}

// SetMontgomery: rejects exactly the field value u = -1 (whatever its encoding: bit 255 is ignored by the field
// decoder), otherwise hands the canonical encoding of y = (u-1)/(u+1) with the requested sign bit to Edwards
// decompression and returns its verdict.
//
//verif:ob prop=C10,C07 name=SetMontgomery mode=int tags=purego use=fa,montdec split=sign:0..1
func vh_C10_SetMontgomery() { setMontgomeryCheck(true) }

// The 32-bit back end: the same routine; what depends on the back end are the limb-headroom preconditions of
// the field calls (obligations of their contracts), the rejection of -1 and the hand-over to decompression. The
// algebraic relation y*(u+1) = u-1 is a statement about field VALUES, identical on both back ends, and is decided
// on the 64-bit run only (on the 32-bit hypotheses the solvers answer it only some of the time).
//
//verif:ob prop=C10,C07 name=SetMontgomery_u32 mode=int tags=force32bit use=fa,montdec split=sign:0..1
func vh_C10_SetMontgomery32() { setMontgomeryCheck(false) }

func setMontgomeryCheck(relation bool) {
	var mu MontgomeryPoint
	verif.AnyBytes("u", mu[:])
	sign := uint8(verif.Case("sign"))
	P := field.VerifP()
	u := field.VerifFromBytes(mu[:]) // le(u) mod 2^255: bit 255 of the input is ignored
	var p EdwardsPoint
	r, err := p.SetMontgomery(&mu, sign)
	if verif.ModEq(u, verif.IntK(-1), P) {
		verif.Assert(err != nil && r == nil, "u = -1 (any encoding of it) is rejected: the exceptional point of the birational map")
		return
	}
	y := verif.IntLE(lastCY[:]).Sub(verif.IntK(int(sign)).Shl(255))
	verif.Assert(verif.IntK(0).Le(y) && y.Lt(P), "the bytes handed to decompression are a canonical y with bit 255 = the requested sign")
	if relation {
		verif.Assert(verif.ModEq(y.Mul(u.Add(verif.IntK(1))), u.Sub(verif.IntK(1)), P), "y*(u+1) = u-1 (mod p)")
	}
	verif.Assert((err == nil) == GDecodes(lastCY[:]) && (r != nil) == (err == nil), "the result is the verdict of Edwards decompression on those bytes")
}

//go:build verif

package curve

import "github.com/oasisprotocol/curve25519-voi/internal/verif"

//verif:ob prop=C19,C10 name=MontgomeryPoint_and_compressed_setters_all_lengths mode=bv tags=purego use=ptdec split=n:0..66
func vh_C19_curve() {
	n := verif.Case("n")
	in := make([]byte, n)
	verif.AnyBytes("in", in)
	var m MontgomeryPoint
	r, err := m.SetBytes(in)
	verif.Assert((err == nil) == (n == 32) && (r == nil) == (err != nil), "MontgomeryPoint.SetBytes: error iff len != 32")
	var cr CompressedRistretto
	r3, e3 := cr.SetBytes(in)
	verif.Assert((e3 == nil) == (n == 32) && (r3 == nil) == (e3 != nil), "CompressedRistretto.SetBytes: error iff len != 32")
	var rp RistrettoPoint
	if n != 64 {
		_, e4 := rp.SetUniformBytes(in)
		verif.Assert(e4 != nil, "RistrettoPoint.SetUniformBytes: wrong length is an error")
	}
}

//go:build verif

package curve

import (
	"github.com/oasisprotocol/curve25519-voi/curve/scalar"
	"github.com/oasisprotocol/curve25519-voi/internal/verif"
)

// L2: the scalar-multiplication algorithms over the Z-module ghost, with the point operations of models.go
// replaced by their contracts (group "pt": class preservation proved per back end, affine law proved at L1).

func genPoint(name string, gen int) *EdwardsPoint {
	p := any_EdwardsPoint(name)
	setK(p, kGen(gen))
	return p
}

func anyScalar255(name string) (*scalar.Scalar, verif.Int) {
	var b [32]byte
	verif.AnyBytes(name, b[:])
	verif.Assume(b[31] < 128)
	s, err := scalar.NewFromBits(b[:])
	verif.Assume(err == nil)
	return s, verif.IntLE(b[:])
}

// ---- constant-time table lookups: Lookup(x) = x * P for every x in [-8, 8] ----

func tableOf(k kvec, tblK func(j int) kvec) bool {
	ok := true
	for j := 0; j < 8; j++ {
		ok = ok && kEq(tblK(j), kScale(k, j+1))
	}
	return ok
}

//verif:contract for=(*curve.projectiveNielsPointLookupTable).Lookup group=lookup
func lk_PN_Lookup(tbl *projectiveNielsPointLookupTable, x int8) projectiveNielsPoint {
	verif.Requires(x >= -8 && x <= 8, "digit in [-8, 8]")
	base := getK(&tbl[0])
	verif.Requires(tableOf(base, func(j int) kvec { return getK(&tbl[j]) }), "table entry j is (j+1)*P")
	var t projectiveNielsPoint
	if verif.Real() {
		t = tbl.Lookup(x)
		verif.Ensures(kEq(getK(&t), kScaleI(base, verif.IntOfI8(x))), "Lookup(x) = x*P")
	} else {
		verif.Havoc(&t)
		setK(&t, kScaleI(base, verif.IntOfI8(x)))
	}
	return t
}

//verif:ob prop=C03,C08 name=L2_Lookup_projectiveNiels mode=int tags=purego prove=lk_PN_Lookup use=pt
func vh_L2_lookupPN() {
	P := genPoint("P", 0)
	tbl := newProjectiveNielsPointLookupTable(P)
	x := verif.AnyI8("x")
	lk_PN_Lookup(&tbl, x)
}

//verif:contract for=(*curve.affineNielsPointLookupTable).Lookup group=lookup
func lk_AN_Lookup(tbl *affineNielsPointLookupTable, x int8) affineNielsPoint {
	verif.Requires(x >= -8 && x <= 8, "digit in [-8, 8]")
	base := getK(&tbl[0])
	verif.Requires(tableOf(base, func(j int) kvec { return getK(&tbl[j]) }), "table entry j is (j+1)*P")
	var t affineNielsPoint
	if verif.Real() {
		t = tbl.Lookup(x)
		verif.Ensures(kEq(getK(&t), kScaleI(base, verif.IntOfI8(x))), "Lookup(x) = x*P")
	} else {
		verif.Havoc(&t)
		setK(&t, kScaleI(base, verif.IntOfI8(x)))
	}
	return t
}

//verif:ob prop=C03,C08 name=L2_Lookup_affineNiels mode=int tags=purego prove=lk_AN_Lookup use=pt
func vh_L2_lookupAN() {
	P := genPoint("P", 0)
	tbl := newAffineNielsPointLookupTable(P)
	x := verif.AnyI8("x")
	lk_AN_Lookup(&tbl, x)
}

// ---- variable-base multiplication (constant time): [s]P for every 255-bit s ----

//verif:ob prop=C03,C18 name=L2_edwardsMulGeneric mode=int tags=purego use=pt,lookup sharedro=1
func vh_L2_mulGeneric() {
	P := genPoint("P", 0)
	s, sv := anyScalar255("s")
	var out EdwardsPoint
	edwardsMulGeneric(&out, P, s)
	verif.Assert(kEq(getK(&out), kScaleI(kGen(0), sv)), "edwardsMulGeneric(P, s) = [s]P")
}

// ---- fixed-base table multiplication: the table invariant (entry (i, j) = (j+1)*256^i*B) comes from its
// real constructor run over the ghost; then Mul(s) = [s]B ----

//verif:ob prop=C03,C18 name=L2_basepointTableGeneric mode=int tags=purego use=pt,lookup sharedro=1
func vh_L2_basepointTable() {
	B := genPoint("B", 0)
	tbl := newEdwardsBasepointTableGeneric(B)
	s, sv := anyScalar255("s")
	var out EdwardsPoint
	tbl.Mul(&out, s)
	verif.Assert(kEq(getK(&out), kScaleI(kGen(0), sv)), "basepoint table Mul(s) = [s]B")
	bp := tbl.Basepoint()
	verif.Assert(kEq(getK(bp), kGen(0)), "Basepoint() = B")
}

// The dispatcher behind MulBasepoint on the portable back end: [s]P for EVERY 255-bit s, not only s < L (a table
// may be built over a point with a torsion component, where s and s mod L differ).
//
//verif:ob prop=C03 name=L2_MulBasepoint_dispatch_unreduced_scalars mode=int tags=purego use=pt,lookup native=1
func vh_L2_basepointDispatch() {
	if verif.Native() {
		basepointDispatchEndToEnd()
		return
	}
	B := genPoint("B", 0)
	g := newEdwardsBasepointTableGeneric(B)
	tbl := &EdwardsBasepointTable{inner: g}
	s, sv := anyScalar255("s")
	var out EdwardsPoint
	out.MulBasepoint(tbl, s)
	verif.Assert(kEq(getK(&out), kScaleI(kGen(0), sv)), "MulBasepoint(table of P, s) = [s]P over the integers (no reduction of s)")
}

func basepointDispatchEndToEnd() {
	var sb, kb [32]byte
	verif.AnyBytes("s", sb[:])
	verif.AnyBytes("k", kb[:])
	sb[31] &= 127
	kb[31] &= 127
	s, _ := scalar.NewFromBits(sb[:])
	k, _ := scalar.NewFromBits(kb[:])
	// a point with a torsion component: [k]B + T8
	var P, out, ref EdwardsPoint
	P.MulBasepoint(ED25519_BASEPOINT_TABLE, k)
	P.Add(&P, EIGHT_TORSION[1])
	tbl := NewEdwardsBasepointTable(&P)
	out.MulBasepoint(tbl, s)
	edwardsMulGeneric(&ref, &P, s)
	verif.Assert(out.Equal(&ref) == 1, "MulBasepoint over a table of a mixed-order point = [s]P by the variable-base routine")
}

//go:build verif && (amd64 || arm64 || ppc64le || ppc64 || s390x || force64bit) && !force32bit

package field

import "github.com/oasisprotocol/curve25519-voi/internal/verif"

// ---- ghost vocabulary (radix 2^51) ----

func val51(l *[5]uint64) verif.Int {
	v := verif.IntOf(l[4])
	for i := 3; i >= 0; i-- {
		v = v.Shl(51).Add(verif.IntOf(l[i]))
	}
	return v
}

func fP() verif.Int { return verif.Pow2(255).Sub(verif.IntK(19)) }

func limbsBelow(l *[5]uint64, bits uint) bool {
	ok := true
	for i := 0; i < 5; i++ {
		ok = ok && l[i] < 1<<bits
	}
	return ok
}

func anyElement(name string) *Element {
	var e Element
	verif.AnyU64s(name, e.inner[:])
	return &e
}

// Representation bounds used by the contracts (bits of headroom): products accept < 2^54,
// every reducing operation returns < 2^52.
const (
	inBits  = 54
	outBits = 52
)

// ---- kernel contracts (proved against the real code, then used by the layers above) ----

//verif:contract for=internal/field.feMulGeneric group=fe
func ct_feMulGeneric(fe, a, b *Element) {
	verif.Requires(limbsBelow(&a.inner, inBits) && limbsBelow(&b.inner, inBits), "input limbs < 2^54")
	va, vb := val51(&a.inner), val51(&b.inner)
	if verif.Real() {
		feMulGeneric(fe, a, b)
	}
	verif.Havoc(fe)
	verif.Ensures(limbsBelow(&fe.inner, outBits), "output limbs < 2^52")
	verif.Ensures(verif.ModEq(val51(&fe.inner), va.Mul(vb), fP()), "value = a*b mod p")
}

//verif:ob prop=C04,C06,C07 name=feMulGeneric mode=int tags=purego,default prove=ct_feMulGeneric
func vh_feMulGeneric() {
	a, b := anyElement("a"), anyElement("b")
	var out Element
	ct_feMulGeneric(&out, a, b)
}

//verif:ob prop=C04,C06 name=feMulGeneric_aliased mode=int tags=purego prove=ct_feMulGeneric
func vh_feMulGeneric_alias() {
	a, b := anyElement("a"), anyElement("b")
	ct_feMulGeneric(a, a, b)
}

//verif:ob prop=C04,C06 name=feMulGeneric_square_aliased mode=int tags=purego prove=ct_feMulGeneric
func vh_feMulGeneric_alias2() {
	a := anyElement("a")
	ct_feMulGeneric(a, a, a)
}

// fePow2kGeneric for a concrete number of squarings k: value = t^(2^k); each iteration re-establishes < 2^52.
func pow2kContract(fe, t *Element, k uint) {
	verif.Requires(limbsBelow(&t.inner, inBits), "input limbs < 2^54")
	verif.Requires(k >= 1, "k >= 1")
	v := val51(&t.inner)
	if verif.Real() {
		fePow2kGeneric(fe, t, k)
	}
	verif.Havoc(fe)
	verif.Ensures(limbsBelow(&fe.inner, outBits), "output limbs < 2^52")
	if k <= 2 {
		w := v
		for i := uint(0); i < k; i++ {
			w = w.Mul(w)
		}
		verif.Ensures(verif.ModEq(val51(&fe.inner), w, fP()), "value = t^(2^k) mod p")
	}
}

//verif:contract for=internal/field.fePow2kGeneric group=fe
func ct_fePow2kGeneric(fe, t *Element, k uint) { pow2kContract(fe, t, k) }

//verif:ob prop=C04,C06,C07 name=fePow2kGeneric mode=int tags=purego,default prove=ct_fePow2kGeneric split=k:1..2 bound=k_in_{1,2}_unrolled;_larger_k_by_the_loop-cut_obligation
func vh_fePow2kGeneric() {
	t := anyElement("t")
	var out Element
	ct_fePow2kGeneric(&out, t, uint(verif.Case("k")))
}

//verif:contract for=(*internal/field.Element).reduce group=fe
func ct_reduce(fe *Element, limbs *[5]uint64) *Element {
	v := val51(limbs)
	if verif.Real() {
		fe.reduce(limbs)
	}
	verif.Havoc(fe)
	verif.Ensures(fe.inner[0] < 1<<51+19*(1<<13), "limb0 < 2^51 + 19*2^13")
	verif.Ensures(fe.inner[1] < 1<<51+1<<13 && fe.inner[2] < 1<<51+1<<13 && fe.inner[3] < 1<<51+1<<13 && fe.inner[4] < 1<<51+1<<13, "limbs1..4 < 2^51 + 2^13")
	verif.Ensures(verif.ModEq(val51(&fe.inner), v, fP()), "value preserved mod p")
	return fe
}

// reduce accepts EVERY limb vector.
//
//verif:ob prop=C04,C07,C06 name=reduce mode=int tags=purego,default prove=ct_reduce
func vh_reduce() {
	var l [5]uint64
	verif.AnyU64s("l", l[:])
	var out Element
	ct_reduce(&out, &l)
}

//verif:ob prop=C04,C06 name=reduce_aliased mode=int tags=purego prove=ct_reduce
func vh_reduce_alias() {
	e := anyElement("l")
	ct_reduce(e, &e.inner)
}

//verif:contract for=(*internal/field.Element).Add group=fe
func ct_Add(fe, a, b *Element) *Element {
	verif.Requires(limbsBelow(&a.inner, 63) && limbsBelow(&b.inner, 63), "no 64-bit wrap: limbs < 2^63")
	va, vb := val51(&a.inner), val51(&b.inner)
	a0, a1, a2, a3, a4 := a.inner[0], a.inner[1], a.inner[2], a.inner[3], a.inner[4]
	b0, b1, b2, b3, b4 := b.inner[0], b.inner[1], b.inner[2], b.inner[3], b.inner[4]
	if verif.Real() {
		fe.Add(a, b)
	}
	verif.Havoc(fe)
	verif.Ensures(fe.inner[0] == a0+b0 && fe.inner[1] == a1+b1 && fe.inner[2] == a2+b2 && fe.inner[3] == a3+b3 && fe.inner[4] == a4+b4, "limb-wise sum")
	verif.Ensures(val51(&fe.inner).Eq(va.Add(vb)), "value = a+b exactly (no wrap)")
	return fe
}

//verif:ob prop=C04,C07,C06 name=Add mode=int tags=purego prove=ct_Add
func vh_Add() {
	a, b := anyElement("a"), anyElement("b")
	var out Element
	ct_Add(&out, a, b)
}

//verif:ob prop=C04,C06 name=Add_aliased mode=int tags=purego prove=ct_Add
func vh_Add_alias() {
	a := anyElement("a")
	ct_Add(a, a, a)
}

//verif:contract for=(*internal/field.Element).Sub group=fe
func ct_Sub(fe, a, b *Element) *Element {
	verif.Requires(limbsBelow(&a.inner, 63), "a limbs < 2^63 (a + 16p does not wrap)")
	verif.Requires(limbsBelow(&b.inner, inBits), "b limbs < 2^54 (16p - b does not underflow)")
	va, vb := val51(&a.inner), val51(&b.inner)
	if verif.Real() {
		fe.Sub(a, b)
	}
	verif.Havoc(fe)
	verif.Ensures(limbsBelow(&fe.inner, outBits), "output limbs < 2^52")
	verif.Ensures(verif.ModEq(val51(&fe.inner), va.Sub(vb), fP()), "value = a-b mod p")
	return fe
}

//verif:ob prop=C04,C07,C06 name=Sub mode=int tags=purego prove=ct_Sub
func vh_Sub() {
	a, b := anyElement("a"), anyElement("b")
	var out Element
	ct_Sub(&out, a, b)
}

//verif:ob prop=C04,C06 name=Sub_aliased mode=int tags=purego prove=ct_Sub
func vh_Sub_alias() {
	a, b := anyElement("a"), anyElement("b")
	ct_Sub(b, a, b)
}

//verif:contract for=(*internal/field.Element).Neg group=fe
func ct_Neg(fe, t *Element) *Element {
	verif.Requires(limbsBelow(&t.inner, inBits), "limbs < 2^54 (16p - t does not underflow)")
	v := val51(&t.inner)
	if verif.Real() {
		fe.Neg(t)
	}
	verif.Havoc(fe)
	verif.Ensures(limbsBelow(&fe.inner, outBits), "output limbs < 2^52")
	verif.Ensures(verif.ModEq(val51(&fe.inner), v.Neg(), fP()), "value = -t mod p")
	return fe
}

//verif:ob prop=C04,C06 name=Neg mode=int tags=purego prove=ct_Neg
func vh_Neg() {
	t := anyElement("t")
	ct_Neg(t, t)
}

//verif:contract for=(*internal/field.Element).Mul121666 group=fe
func ct_Mul121666(fe, t *Element) *Element {
	verif.Requires(limbsBelow(&t.inner, 63), "limbs < 2^63")
	v := val51(&t.inner)
	if verif.Real() {
		fe.Mul121666(t)
	}
	verif.Havoc(fe)
	verif.Ensures(limbsBelow(&fe.inner, outBits), "output limbs < 2^52")
	verif.Ensures(verif.ModEq(val51(&fe.inner), v.Mul(verif.IntK(121666)), fP()), "value = 121666*t mod p")
	return fe
}

//verif:ob prop=C04,C07,C06 name=Mul121666 mode=int tags=purego prove=ct_Mul121666
func vh_Mul121666() {
	t := anyElement("t")
	var out Element
	ct_Mul121666(&out, t)
}

//verif:contract for=(*internal/field.Element).Square2 group=fe
func ct_Square2(fe, t *Element) *Element {
	verif.Requires(limbsBelow(&t.inner, inBits), "input limbs < 2^54")
	v := val51(&t.inner)
	if verif.Real() {
		fe.Square2(t)
	}
	verif.Havoc(fe)
	verif.Ensures(limbsBelow(&fe.inner, outBits+1), "output limbs < 2^53")
	verif.Ensures(verif.ModEq(val51(&fe.inner), v.Mul(v).Mul(verif.IntK(2)), fP()), "value = 2*t^2 mod p")
	return fe
}

//verif:ob prop=C04,C06 name=Square2 mode=int tags=purego prove=ct_Square2 nouse=ct_fePow2kGeneric
func vh_Square2() {
	t := anyElement("t")
	var out Element
	ct_Square2(&out, t)
}

// SetBytes: all 2^256 strings; bit 255 ignored.
//
//verif:ob prop=C04,C10,C07,C06 name=SetBytes mode=int tags=purego
func vh_SetBytes() {
	var in [32]byte
	verif.AnyBytes("in", in[:])
	var fe Element
	_, err := fe.SetBytes(in[:])
	verif.Assert(err == nil, "no error on 32 bytes")
	verif.Assert(limbsBelow(&fe.inner, 51), "limbs < 2^51")
	verif.Assert(val51(&fe.inner).Eq(verif.IntLE(in[:]).Mod(verif.Pow2(255))), "value = le(in) mod 2^255")
}

//verif:ob prop=C04,C14,C06 name=SetBytesWide mode=int tags=purego
func vh_SetBytesWide() {
	var in [64]byte
	verif.AnyBytes("in", in[:])
	var fe Element
	_, err := fe.SetBytesWide(in[:])
	verif.Assert(err == nil, "no error on 64 bytes")
	verif.Assert(limbsBelow(&fe.inner, outBits), "limbs < 2^52")
	verif.Assert(verif.ModEq(val51(&fe.inner), verif.IntLE(in[:]), fP()), "value = le512(in) mod p")
}

// ToBytes: EVERY limb vector is encoded as the unique canonical value below p.
//
//verif:contract for=(*internal/field.Element).ToBytes group=fe
func ct_ToBytes(fe *Element, out []byte) error {
	verif.Requires(len(out) == 32, "len(out) == 32")
	v := val51(&fe.inner)
	if verif.Real() {
		_ = fe.ToBytes(out)
	}
	verif.Havoc(out)
	verif.Ensures(verif.IntLE(out).Eq(v.Mod(fP())), "le(out) = value mod p (canonical)")
	return nil
}

//verif:ob prop=C04,C10,C07,C06 name=ToBytes mode=int tags=purego prove=ct_ToBytes use=ct_reduce
func vh_ToBytes() {
	fe := anyElement("fe")
	var out [32]byte
	_ = ct_ToBytes(fe, out[:])
}

// ---- bit-precise selection primitives (BV mode) ----

//verif:ob prop=C04,C08,C06 name=ConditionalSelect mode=bv tags=purego
func vh_CondSelect() {
	a, b := anyElement("a"), anyElement("b")
	choice := verif.AnyInt("choice")
	verif.Assume(choice == 0 || choice == 1)
	var out Element
	out.ConditionalSelect(a, b, choice)
	for i := 0; i < 5; i++ {
		verif.Assert(out.inner[i] == verif.IteU64(choice == 1, b.inner[i], a.inner[i]), "select: choice=1 picks b, choice=0 picks a")
	}
}

//verif:ob prop=C04,C08,C06 name=ConditionalAssign mode=bv tags=purego
func vh_CondAssign() {
	a, b := anyElement("a"), anyElement("b")
	a0 := *a
	choice := verif.AnyInt("choice")
	verif.Assume(choice == 0 || choice == 1)
	a.ConditionalAssign(b, choice)
	for i := 0; i < 5; i++ {
		verif.Assert(a.inner[i] == verif.IteU64(choice == 1, b.inner[i], a0.inner[i]), "assign iff choice=1")
	}
}

//verif:ob prop=C04,C08,C07,C06 name=ConditionalSwap mode=bv tags=purego
func vh_CondSwap() {
	a, b := anyElement("a"), anyElement("b")
	a0, b0 := *a, *b
	choice := verif.AnyInt("choice")
	verif.Assume(choice == 0 || choice == 1)
	a.ConditionalSwap(b, choice)
	for i := 0; i < 5; i++ {
		verif.Assert(a.inner[i] == verif.IteU64(choice == 1, b0.inner[i], a0.inner[i]), "swap: a")
		verif.Assert(b.inner[i] == verif.IteU64(choice == 1, a0.inner[i], b0.inner[i]), "swap: b")
	}
}

// ---- back-end specific helpers for the abstract layer (fa.go) ----

func VerifVal(e *Element) verif.Int { return val51(&e.inner) }
func mulInOK(e *Element) bool       { return limbsBelow(&e.inner, inBits) }
func redOutOK(e *Element) bool      { return limbsBelow(&e.inner, outBits) }
func addInOK(e *Element) bool       { return limbsBelow(&e.inner, 63) }
func subBOK(e *Element) bool        { return limbsBelow(&e.inner, inBits) }
func sq2OutOK(e *Element) bool      { return limbsBelow(&e.inner, outBits+1) }
func VerifAnyElement(name string) Element {
	return *anyElement(name)
}

// condSel writes the selected limbs as if-then-else terms (what the mask arithmetic computes; the bit-precise
// obligations ConditionalSelect/Assign/Swap show that equality for choice in {0,1}).
func condSel(fe, a, b *Element, pickB bool) {
	var r Element
	for i := 0; i < 5; i++ {
		if pickB {
			r.inner[i] = b.inner[i]
		} else {
			r.inner[i] = a.inner[i]
		}
	}
	*fe = r
}

// VerifSumOK: limbs below n times the reduced-output bound (a sum of n reduced elements).
func VerifSumOK(e *Element, n uint64) bool {
	ok := true
	for i := 0; i < 5; i++ {
		ok = ok && e.inner[i] < n<<outBits
	}
	return ok
}

// ---- fePow2kGeneric for EVERY k >= 1: one iteration of the real loop from an arbitrary state ----
//
// Invariant at the loop header: limbs < 2^54, k >= 1. Relation proved for the body: the new limbs are < 2^52
// and their value is the square of the old value mod p, and k decreases by exactly one; the loop is left only
// when k reached zero, and what is then stored to fe is that last square. By induction fe = t^(2^k) for every k.

func inv_pow2k(a0, a1, a2, a3, a4 uint64, k uint) bool {
	l := [5]uint64{a0, a1, a2, a3, a4}
	return limbsBelow(&l, inBits) && k >= 1
}
func pre_pow2k_val(a0, a1, a2, a3, a4 uint64) verif.Int {
	l := [5]uint64{a0, a1, a2, a3, a4}
	return val51(&l)
}
func pre_pow2k_k(k uint) verif.Int { return verif.IntOf(uint64(k)) }
func rel_pow2k(a0, a1, a2, a3, a4 uint64, k uint, pre0__ verif.Int, pre1__ verif.Int) bool {
	l := [5]uint64{a0, a1, a2, a3, a4}
	return limbsBelow(&l, outBits) && verif.ModEq(val51(&l), pre0__.Mul(pre0__), fP()) && verif.IntOf(uint64(k)).Add(verif.IntK(1)).Eq(pre1__)
}
func post_pow2k(fe *Element, pre0__ verif.Int, pre1__ verif.Int) bool {
	return limbsBelow(&fe.inner, outBits) && verif.ModEq(val51(&fe.inner), pre0__.Mul(pre0__), fP()) && pre1__.Eq(verif.IntK(1))
}

//verif:ob prop=C04,C06,C07 name=fePow2kGeneric_every_k mode=int tags=purego cut=internal/field.fePow2kGeneric:0 inv=inv_pow2k relpre=pre_pow2k_val+pre_pow2k_k rel=rel_pow2k post=post_pow2k postret=1 bound=every_k>=1_by_one_inductive_step_of_the_real_loop
func vh_fePow2kGeneric_every_k() {
	t := anyElement("t")
	verif.Assume(limbsBelow(&t.inner, inBits))
	k := uint(verif.AnyU64("k"))
	verif.Assume(k >= 1 && k <= 1000) // (entry only; the inductive step is for every loop counter. Keeps native replays finite.)
	var out Element
	fePow2kGeneric(&out, t, k)
}

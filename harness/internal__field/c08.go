//go:build verif

package field

import "github.com/oasisprotocol/curve25519-voi/internal/verif"

// C08: field arithmetic on secret operands: no branch condition, memory index, division operand or
// variable-time call depends on the secret limbs (two-safety at every leak site of the real code).
//
//verif:ob prop=C08,C18 name=ct_field_kernels mode=bv tags=purego,force32bit ct=1 sharedro=1
func vh_C08_field() {
	verif.Secret("a")
	verif.Secret("b")
	verif.Secret("c")
	a, b := anyElement("a"), anyElement("b")
	choice := verif.AnyInt("choice")
	verif.Assume(choice == 0 || choice == 1)
	var r Element
	r.Mul(a, b)
	r.Square(a)
	r.Square2(a)
	r.Pow2k(a, 3)
	r.Add(a, b)
	r.Sub(a, b)
	r.Neg(a)
	r.Mul121666(a)
	r.ConditionalSelect(a, b, choice)
	r.ConditionalAssign(b, choice)
	r.ConditionalSwap(a, choice)
	r.ConditionalNegate(choice)
	_ = a.Equal(b)
	_ = a.IsNegative()
	_ = a.IsZero()
	var out [32]byte
	_ = a.ToBytes(out[:])
	var in [32]byte
	verif.AnyBytes("c", in[:])
	_, _ = r.SetBytes(in[:])
}

//verif:ob prop=C08 name=ct_field_inversion_and_sqrt mode=bv tags=purego ct=1 use=ct_feMulGeneric,ct_fePow2kGeneric
func vh_C08_field_chains() {
	verif.Secret("a")
	verif.Secret("b")
	a, b := anyElement("a"), anyElement("b")
	verif.Assume(redOutOK(a) && redOutOK(b))
	var r Element
	r.Invert(a)
	r.SqrtRatioI(a, b)
}

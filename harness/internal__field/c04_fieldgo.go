//go:build verif

package field

import "github.com/oasisprotocol/curve25519-voi/internal/verif"

// The back-end independent layer internal/field/field.go, executed for real on every back end:
//   - the observations (Equal, IsZero, IsNegative) and ConditionalNegate/Set/Zero against the limb value,
//     with the kernel contracts (group "fe": reduce/ToBytes/Neg/...) used;
//   - the wrappers Mul/Square/Square2/Pow2k of the 64-bit back end through the kernel contracts ("lift" of the
//     abstract layer "fa" used by everything above);
//   - the addition chains pow22501 / pow_p58 / Invert with a ghost EXPONENT on every element: with t^1 given,
//     Mul adds exponents, Square doubles, Pow2k(k) multiplies by 2^k; the result exponent is a constant that is
//     compared with p-2, (p-5)/8, 2^250-1 and 11;
//   - the decision logic of SqrtRatioI over the abstract layer with pow_p58 uninterpreted.

// ---- observations on the real code ----

//verif:ob prop=C04,C06,C10 name=Equal_IsZero_IsNegative_real mode=int tags=purego,force32bit use=ct_ToBytes
func vh_field_observations() {
	a, b := VerifAnyElement("a"), VerifAnyElement("b")
	P := fP()
	va, vb := VerifVal(&a).Mod(P), VerifVal(&b).Mod(P)
	eq := a.Equal(&b)
	verif.Assert((eq == 1) == va.Eq(vb) && (eq == 0 || eq == 1), "Equal = 1 iff the values agree mod p (EVERY limb vector), else 0")
	z := a.IsZero()
	verif.Assert((z == 1) == va.Eq(verif.IntK(0)) && (z == 0 || z == 1), "IsZero = 1 iff value = 0 mod p, else 0")
	n := a.IsNegative()
	verif.Assert((n == 1) == va.Mod(verif.IntK(2)).Eq(verif.IntK(1)) && (n == 0 || n == 1), "IsNegative = parity of the canonical value")
}

//verif:ob prop=C04,C06 name=ConditionalNegate_Set_Zero_real mode=int tags=purego,force32bit use=ct_Neg split=choice:0..1
func vh_field_condneg() {
	a := VerifAnyElement("a")
	verif.Assume(subBOK(&a))
	a0 := a
	choice := verif.Case("choice")
	a.ConditionalNegate(choice)
	P := fP()
	if choice == 1 {
		verif.Assert(verif.ModEq(VerifVal(&a), VerifVal(&a0).Neg(), P), "choice = 1: value negated")
		verif.Assert(redOutOK(&a), "choice = 1: reduced representation")
	} else {
		verif.Assert(VerifSame(&a, &a0), "choice = 0: untouched")
	}
	var s Element
	r := s.Set(&a0)
	verif.Assert(VerifSame(&s, &a0) && r == &s, "Set copies the limbs and returns the receiver")
	s.Zero()
	verif.Assert(VerifVal(&s).Eq(verif.IntK(0)), "Zero is zero")
	s.One()
	verif.Assert(VerifVal(&s).Eq(verif.IntK(1)) && redOutOK(&s), "One is one")
	s.MinusOne()
	verif.Assert(verif.ModEq(VerifVal(&s), verif.IntK(-1), P) && redOutOK(&s), "MinusOne is -1")
}

// ---- lift: the methods the abstract layer replaces, run for real over the kernel contracts ----

//verif:ob prop=C04,C06,C07 name=lift_Mul_Square_Square2_Pow2k mode=int tags=purego,default,force32bit use=fe,feasm nouse=ct_Square2,ct_Square,ct_Pow2k,ct_Mul split=k:1..2
func vh_field_lift() {
	a, b := VerifAnyElement("a"), VerifAnyElement("b")
	verif.Assume(mulInOK(&a) && mulInOK(&b))
	P := fP()
	va, vb := VerifVal(&a), VerifVal(&b)
	var o Element
	r := o.Mul(&a, &b)
	verif.Assert(r == &o && redOutOK(&o) && verif.ModEq(VerifVal(&o), va.Mul(vb), P), "Mul: a*b, reduced")
	r = o.Square(&a)
	verif.Assert(r == &o && redOutOK(&o) && verif.ModEq(VerifVal(&o), va.Mul(va), P), "Square: a^2, reduced")
	r = o.Square2(&a)
	verif.Assert(r == &o && sq2OutOK(&o) && verif.ModEq(VerifVal(&o), va.Mul(va).Mul(verif.IntK(2)), P), "Square2: 2a^2")
	k := verif.Case("k")
	r = o.Pow2k(&a, uint(k))
	verif.Assert(r == &o && redOutOK(&o), "Pow2k: reduced")
	if k == 1 {
		verif.Assert(verif.ModEq(VerifVal(&o), va.Mul(va), P), "Pow2k(1): a^2 (every k: the loop obligations *_every_k)")
	}
}

// ---- addition chains with a ghost exponent ----

func exOf(e *Element) verif.Int { return verif.GhostGet(e, "ex") }

//verif:contract for=(*internal/field.Element).Mul group=fx
func fx_Mul(fe, a, b *Element) *Element {
	verif.Requires(mulInOK(a) && mulInOK(b), "Mul: operand limbs within the product headroom")
	verif.Requires(verif.GhostHas(a, "ex") && verif.GhostHas(b, "ex"), "operands are known powers of the base")
	e := exOf(a).Add(exOf(b))
	verif.Havoc(fe)
	verif.Ensures(redOutOK(fe), "")
	verif.GhostSet(fe, "ex", e)
	return fe
}

//verif:contract for=(*internal/field.Element).Square group=fx
func fx_Square(fe, t *Element) *Element {
	verif.Requires(mulInOK(t), "Square: operand limbs within the product headroom")
	verif.Requires(verif.GhostHas(t, "ex"), "operand is a known power of the base")
	e := exOf(t).Mul(verif.IntK(2))
	verif.Havoc(fe)
	verif.Ensures(redOutOK(fe), "")
	verif.GhostSet(fe, "ex", e)
	return fe
}

//verif:contract for=(*internal/field.Element).Pow2k group=fx
func fx_Pow2k(fe, t *Element, k uint) *Element {
	verif.Requires(mulInOK(t), "Pow2k: operand limbs within the product headroom")
	verif.Requires(k >= 1 && k <= 255, "Pow2k: 1 <= k")
	verif.Requires(verif.GhostHas(t, "ex"), "operand is a known power of the base")
	e := exOf(t).Mul(verif.Pow2(int(k)))
	verif.Havoc(fe)
	verif.Ensures(redOutOK(fe), "")
	verif.GhostSet(fe, "ex", e)
	return fe
}

//verif:ob prop=C04,C06,C10,C11 name=Invert_pow_p58_addition_chains mode=int tags=purego,force32bit use=fx split=alias:0..1
func vh_field_chains() {
	t := VerifAnyElement("t")
	verif.Assume(mulInOK(&t))
	verif.GhostSet(&t, "ex", verif.IntK(1))
	P := fP()

	t19, t3 := t.pow22501()
	verif.Assert(exOf(&t19).Eq(verif.Pow2(250).Sub(verif.IntK(1))), "pow22501: first result is t^(2^250 - 1)")
	verif.Assert(exOf(&t3).Eq(verif.IntK(11)), "pow22501: second result is t^11")
	verif.Assert(redOutOK(&t19) && redOutOK(&t3), "pow22501: reduced results")

	w := t
	w.pow_p58()
	verif.Assert(exOf(&w).Eq(P.Sub(verif.IntK(5)).Div(verif.IntK(8))), "pow_p58: t^((p-5)/8)")
	verif.Assert(P.Sub(verif.IntK(5)).Mod(verif.IntK(8)).Eq(verif.IntK(0)), "(p-5)/8 is an integer")
	verif.Assert(redOutOK(&w), "pow_p58: reduced result")

	if verif.Case("alias") == 1 {
		u := t
		r := u.Invert(&u)
		verif.Assert(r == &u && exOf(&u).Eq(P.Sub(verif.IntK(2))), "Invert (receiver = operand): t^(p-2), the inverse by Fermat, 0 for 0")
		verif.Assert(redOutOK(&u), "Invert: reduced result")
	} else {
		var o Element
		r := o.Invert(&t)
		verif.Assert(r == &o && exOf(&o).Eq(P.Sub(verif.IntK(2))), "Invert: t^(p-2), the inverse by Fermat, 0 for 0")
		verif.Assert(redOutOK(&o), "Invert: reduced result")
		verif.Assert(exOf(&t).Eq(verif.IntK(1)), "Invert: operand untouched")
	}
}

// ---- SqrtRatioI: decision logic over the abstract layer, pow_p58 uninterpreted ----

//verif:contract for=(*internal/field.Element).pow_p58 group=fapow
func fa_pow_p58(fe *Element) {
	verif.Requires(mulInOK(fe), "pow_p58: operand limbs within the product headroom")
	p := fP()
	w := verif.UFInt("pow_p58", VerifFv(fe).Mod(p))
	verif.Havoc(fe)
	verif.Ensures(redOutOK(fe), "")
	verif.Ensures(verif.IntK(0).Le(w) && w.Lt(p), "")
	VerifSetFv(fe, w)
}

// (the general case u, v != 0 needs two non-linear queries that took 20 s idle, 3 min under load and once did not finish
// in 15 min: it runs in the THOROUGH tier only and is listed under C04 only, with a
// generous cap, so that the checks it would otherwise be cross-listed under stay fast and a loaded machine does not
// turn it into an inconclusive answer)
//
//verif:ob prop=C04 name=SqrtRatioI_decision_logic_general_case mode=int tags=purego,force32bit use=fa,fapow nouse=fa_SqrtRatioI,fa_InvSqrt tier=thorough timeout=900
func vh_field_sqrt_ratio_general() { vh_field_sqrt_ratio() }

//verif:ob prop=C04,C06,C10,C11 name=SqrtRatioI_decision_logic mode=int tags=purego,force32bit use=fa,fapow nouse=fa_SqrtRatioI,fa_InvSqrt split=zc:0..1
func vh_field_sqrt_ratio() {
	P := fP()
	u, v := VerifAnyElement("u"), VerifAnyElement("v")
	verif.Assume(redOutOK(&u) && redOutOK(&v))
	gu, gv := verif.AnyIntG("gu"), verif.AnyIntG("gv")
	verif.Assume(verif.IntK(0).Le(gu) && gu.Lt(P) && verif.IntK(0).Le(gv) && gv.Lt(P))
	VerifSetFv(&u, gu)
	VerifSetFv(&v, gv)
	// i = SQRT_M1 enters as one atom with its defining relation i^2 = -1 (value and square of the constant: C20)
	sqrtM1 := verif.AnyIntG("i")
	verif.Assume(verif.ModEq(VerifVal(&SQRT_M1), sqrtM1, P) && verif.IntK(0).Le(sqrtM1) && sqrtM1.Lt(P))
	verif.Assume(verif.ModEq(sqrtM1.Mul(sqrtM1), verif.IntK(-1), P))
	VerifSetFv(&SQRT_M1, sqrtM1)
	W := verif.UFInt("pow_p58", gu.Mul(gv).Mod(P))
	zero := verif.IntK(0)
	zc := 2
	if verif.HasCase("zc") {
		zc = verif.Case("zc")
	}
	uz, vz := gu.Eq(zero), gv.Eq(zero)
	switch zc {
	case 0: // u = 0
		verif.Assume(uz)
		verif.Assume(verif.UFInt("pow_p58", zero).Eq(zero)) // 0^k = 0 for k = (p-5)/8 > 0 (the exponent is the chain obligation)
	case 1: // v = 0, u != 0
		verif.Assume(vz && !uz)
		verif.Assume(verif.UFInt("pow_p58", zero).Eq(zero))
	default:
		verif.Assume(!uz && !vz)
		// Euler's criterion for w = (u v)^((p-5)/8) (trusted mathematics, p = 5 mod 8): v (u w)^2 is one of u, -u, iu, -iu
		c := gv.Mul(gu.Mul(W)).Mul(gu.Mul(W))
		verif.Assume(verif.ModEq(c, gu, P) || verif.ModEq(c, gu.Neg(), P) || verif.ModEq(c, gu.Mul(sqrtM1), P) || verif.ModEq(c, gu.Mul(sqrtM1).Neg(), P))
	}
	var out Element
	r, flag := out.SqrtRatioI(&u, &v)
	fo := VerifFv(&out) // any representative: (x mod p)^2 = x^2 mod p
	verif.Assert(r == &out && redOutOK(&out), "returns the receiver, reduced")
	verif.Assert(flag == 0 || flag == 1, "flag is a bit")
	verif.Assert(fo.Mod(P).Mod(verif.IntK(2)).Eq(zero), "the returned root is non-negative (even canonical value)")
	switch zc {
	case 0:
		verif.Assert(flag == 1 && verif.ModEq(fo, zero, P), "u = 0: (1, 0)")
	case 1:
		verif.Assert(flag == 0 && verif.ModEq(fo, zero, P), "v = 0, u != 0: (0, 0)")
	default:
		if flag == 1 {
			verif.Assert(verif.ModEq(gv.Mul(fo).Mul(fo), gu, P), "flag = 1: v r^2 = u")
		} else {
			verif.Assert(verif.ModEq(gv.Mul(fo).Mul(fo), gu.Mul(sqrtM1), P), "flag = 0: v r^2 = i u")
		}
	}
}

//go:build verif && amd64 && !purego && !force32bit

package field

import "github.com/oasisprotocol/curve25519-voi/internal/verif"

// The amd64 assembly kernels (field_u64_amd64.s) against the SAME contracts as the portable Go kernels: the
// instruction stream produced by the real assembler is executed symbolically (engine/stubs.go).

//verif:contract for=internal/field.feMul group=feasm
func ct_feMulAsm(fe, a, b *Element) {
	verif.Requires(limbsBelow(&a.inner, inBits) && limbsBelow(&b.inner, inBits), "input limbs < 2^54")
	va, vb := val51(&a.inner), val51(&b.inner)
	if verif.Real() {
		feMul(fe, a, b)
	}
	verif.Havoc(fe)
	verif.Ensures(limbsBelow(&fe.inner, outBits), "output limbs < 2^52")
	verif.Ensures(verif.ModEq(val51(&fe.inner), va.Mul(vb), fP()), "value = a*b mod p")
}

//verif:ob prop=C04,C06 name=feMul_amd64_asm mode=int tags=default prove=ct_feMulAsm
func vh_feMulAsm() {
	a, b := anyElement("a"), anyElement("b")
	var out Element
	ct_feMulAsm(&out, a, b)
}

//verif:ob prop=C04,C06 name=feMul_amd64_asm_aliased mode=int tags=default prove=ct_feMulAsm split=al:0..1
func vh_feMulAsm_alias() {
	a, b := anyElement("a"), anyElement("b")
	if verif.Case("al") == 1 {
		b = a
	}
	ct_feMulAsm(a, a, b)
}

//verif:contract for=internal/field.fePow2k group=feasm
func ct_fePow2kAsm(fe, t *Element, k uint) {
	verif.Requires(limbsBelow(&t.inner, inBits), "input limbs < 2^54")
	verif.Requires(k >= 1, "k >= 1")
	v := val51(&t.inner)
	if verif.Real() {
		fePow2k(fe, t, k)
	}
	verif.Havoc(fe)
	verif.Ensures(limbsBelow(&fe.inner, outBits), "output limbs < 2^52")
	w := v
	for i := uint(0); i < k; i++ {
		w = w.Mul(w)
	}
	verif.Ensures(verif.ModEq(val51(&fe.inner), w, fP()), "value = t^(2^k) mod p")
}

//verif:ob prop=C04,C06 name=fePow2k_amd64_asm mode=int tags=default prove=ct_fePow2kAsm split=k:1..2;al:0..1
func vh_fePow2kAsm() {
	t := anyElement("t")
	out := &Element{}
	if verif.Case("al") == 1 {
		out = t
	}
	ct_fePow2kAsm(out, t, uint(verif.Case("k")))
}

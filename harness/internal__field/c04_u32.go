//go:build verif && ((!amd64 && !arm64 && !ppc64le && !ppc64 && !s390x && !force64bit) || force32bit)

package field

import "github.com/oasisprotocol/curve25519-voi/internal/verif"

// ---- ghost vocabulary (radix 2^25.5) ----

var exp2625 = [10]int{0, 26, 51, 77, 102, 128, 153, 179, 204, 230}

func val2625(l *[10]uint32) verif.Int {
	v := verif.IntK(0)
	for i := 0; i < 10; i++ {
		v = v.Add(verif.IntOf32(l[i]).Shl(exp2625[i]))
	}
	return v
}

func val2625w(l *[10]uint64) verif.Int {
	v := verif.IntK(0)
	for i := 0; i < 10; i++ {
		v = v.Add(verif.IntOf(l[i]).Shl(exp2625[i]))
	}
	return v
}

func fP() verif.Int { return verif.Pow2(255).Sub(verif.IntK(19)) }

// product inputs: even limbs < 2^32/19, odd limbs half of that ("b < 1.75" in the source comments)
const (
	inEven = 226050910
	inOdd  = 113025455
)

func mulInputOK(l *[10]uint32) bool {
	ok := true
	for i := 0; i < 10; i += 2 {
		ok = ok && l[i] < inEven && l[i+1] < inOdd
	}
	return ok
}

// what every reducing operation returns
func reducedOK(l *[10]uint32) bool {
	ok := true
	for i := 0; i < 10; i += 2 {
		ok = ok && l[i] < 1<<26 && l[i+1] < 1<<25+1<<18
	}
	return ok
}

func anyElement(name string) *Element {
	var e Element
	verif.AnyU32s(name, e.inner[:])
	return &e
}

//verif:contract for=(*internal/field.Element).reduce group=fe
func ct_reduce(fe *Element, z *[10]uint64) *Element {
	ok := true
	for i := 0; i < 10; i++ {
		ok = ok && z[i] < 1<<64-1<<40
	}
	verif.Requires(ok, "z[i] < 2^64 - 2^40 (carry additions do not wrap)")
	v := val2625w(z)
	if verif.Real() {
		fe.reduce(z)
	}
	verif.Havoc(fe)
	verif.Havoc(z) // reduce works in place on its argument
	verif.Ensures(reducedOK(&fe.inner), "even limbs < 2^26, odd limbs < 2^25 + 2^18")
	verif.Ensures(verif.ModEq(val2625(&fe.inner), v, fP()), "value preserved mod p")
	return fe
}

//verif:ob prop=C04,C06,C07 name=reduce mode=int tags=force32bit prove=ct_reduce
func vh_reduce() {
	var z [10]uint64
	verif.AnyU64s("z", z[:])
	var out Element
	ct_reduce(&out, &z)
}

//verif:contract for=(*internal/field.Element).Mul group=fe
func ct_Mul(fe, a, b *Element) *Element {
	verif.Requires(mulInputOK(&a.inner) && mulInputOK(&b.inner), "input limbs below 2^27.75 / 2^26.75")
	va, vb := val2625(&a.inner), val2625(&b.inner)
	if verif.Real() {
		fe.Mul(a, b)
	}
	verif.Havoc(fe)
	verif.Ensures(reducedOK(&fe.inner), "reduced output")
	verif.Ensures(verif.ModEq(val2625(&fe.inner), va.Mul(vb), fP()), "value = a*b mod p")
	return fe
}

//verif:ob prop=C04,C06,C07 name=Mul mode=int tags=force32bit prove=ct_Mul use=ct_reduce
func vh_Mul() {
	a, b := anyElement("a"), anyElement("b")
	var out Element
	ct_Mul(&out, a, b)
}

//verif:ob prop=C04,C06 name=Mul_aliased mode=int tags=force32bit prove=ct_Mul use=ct_reduce
func vh_Mul_alias() {
	a, b := anyElement("a"), anyElement("b")
	ct_Mul(a, a, b)
}

//verif:ob prop=C04,C07,C06 name=Mul_inline_reduce mode=int tags=force32bit prove=ct_Mul
func vh_Mul_inline() {
	a, b := anyElement("a"), anyElement("b")
	var out Element
	ct_Mul(&out, a, b)
}

func squareContract(fe, t *Element, k uint, doubled bool) {
	verif.Requires(mulInputOK(&t.inner), "input limbs below 2^27.75 / 2^26.75")
	verif.Requires(k >= 1, "k >= 1")
	v := val2625(&t.inner)
	if verif.Real() {
		if doubled {
			fe.Square2(t)
		} else {
			fe.Pow2k(t, k)
		}
	}
	verif.Havoc(fe)
	verif.Ensures(reducedOK(&fe.inner), "reduced output")
	if k <= 2 {
		w := v
		for i := uint(0); i < k; i++ {
			w = w.Mul(w)
		}
		if doubled {
			w = w.Mul(verif.IntK(2))
		}
		verif.Ensures(verif.ModEq(val2625(&fe.inner), w, fP()), "value = t^(2^k) (x2) mod p")
	}
}

//verif:contract for=(*internal/field.Element).Pow2k group=fe
func ct_Pow2k(fe, t *Element, k uint) *Element {
	squareContract(fe, t, k, false)
	return fe
}

//verif:ob prop=C04,C06,C07 name=Pow2k mode=int tags=force32bit prove=ct_Pow2k use=ct_reduce split=k:1..2
func vh_Pow2k() {
	t := anyElement("t")
	var out Element
	ct_Pow2k(&out, t, uint(verif.Case("k")))
}

//verif:contract for=(*internal/field.Element).Square group=fe
func ct_Square(fe, t *Element) *Element {
	verif.Requires(mulInputOK(&t.inner), "input limbs below 2^27.75 / 2^26.75")
	v := val2625(&t.inner)
	if verif.Real() {
		fe.Square(t)
	}
	verif.Havoc(fe)
	verif.Ensures(reducedOK(&fe.inner), "reduced output")
	verif.Ensures(verif.ModEq(val2625(&fe.inner), v.Mul(v), fP()), "value = t^2 mod p")
	return fe
}

//verif:ob prop=C04,C07,C06 name=Square mode=int tags=force32bit prove=ct_Square use=ct_reduce
func vh_Square() {
	t := anyElement("t")
	ct_Square(t, t)
}

//verif:contract for=(*internal/field.Element).Square2 group=fe
func ct_Square2(fe, t *Element) *Element {
	squareContract(fe, t, 1, true)
	return fe
}

//verif:ob prop=C04,C06 name=Square2 mode=int tags=force32bit prove=ct_Square2 use=ct_reduce
func vh_Square2() {
	t := anyElement("t")
	var out Element
	ct_Square2(&out, t)
}

//verif:contract for=(*internal/field.Element).Add group=fe
func ct_Add(fe, a, b *Element) *Element {
	ok := true
	for i := 0; i < 10; i++ {
		ok = ok && a.inner[i] < 1<<31 && b.inner[i] < 1<<31
	}
	verif.Requires(ok, "no 32-bit wrap: limbs < 2^31")
	va, vb := val2625(&a.inner), val2625(&b.inner)
	var s [10]uint32
	for i := 0; i < 10; i++ {
		s[i] = a.inner[i] + b.inner[i]
	}
	if verif.Real() {
		fe.Add(a, b)
	}
	verif.Havoc(fe)
	eq := true
	for i := 0; i < 10; i++ {
		eq = eq && fe.inner[i] == s[i]
	}
	verif.Ensures(eq, "limb-wise sum")
	verif.Ensures(val2625(&fe.inner).Eq(va.Add(vb)), "value = a+b exactly (no wrap)")
	return fe
}

//verif:ob prop=C04,C07,C06 name=Add mode=int tags=force32bit prove=ct_Add
func vh_Add() {
	a, b := anyElement("a"), anyElement("b")
	ct_Add(a, a, b)
}

//verif:contract for=(*internal/field.Element).Sub group=fe
func ct_Sub(fe, a, b *Element) *Element {
	oka, okb := true, true
	for i := 0; i < 10; i++ {
		oka = oka && a.inner[i] < 1<<31
	}
	for i := 0; i < 10; i += 2 {
		okb = okb && b.inner[i] < 0x3ffffed<<4 && b.inner[i+1] < 0x1ffffff<<4
	}
	verif.Requires(oka, "a limbs < 2^31 (a + 16p does not wrap 32 bits)")
	verif.Requires(okb, "b limbs below the 16p limbs (no underflow)")
	va, vb := val2625(&a.inner), val2625(&b.inner)
	if verif.Real() {
		fe.Sub(a, b)
	}
	verif.Havoc(fe)
	verif.Ensures(reducedOK(&fe.inner), "reduced output")
	verif.Ensures(verif.ModEq(val2625(&fe.inner), va.Sub(vb), fP()), "value = a-b mod p")
	return fe
}

//verif:ob prop=C04,C07,C06 name=Sub mode=int tags=force32bit prove=ct_Sub use=ct_reduce
func vh_Sub() {
	a, b := anyElement("a"), anyElement("b")
	ct_Sub(b, a, b)
}

//verif:contract for=(*internal/field.Element).Neg group=fe
func ct_Neg(fe, t *Element) *Element {
	ok := true
	for i := 0; i < 10; i += 2 {
		ok = ok && t.inner[i] < 0x3ffffed<<4 && t.inner[i+1] < 0x1ffffff<<4
	}
	verif.Requires(ok, "limbs below the 16p limbs (no underflow)")
	v := val2625(&t.inner)
	if verif.Real() {
		fe.Neg(t)
	}
	verif.Havoc(fe)
	verif.Ensures(reducedOK(&fe.inner), "reduced output")
	verif.Ensures(verif.ModEq(val2625(&fe.inner), v.Neg(), fP()), "value = -t mod p")
	return fe
}

//verif:ob prop=C04,C06 name=Neg mode=int tags=force32bit prove=ct_Neg use=ct_reduce
func vh_Neg() {
	t := anyElement("t")
	ct_Neg(t, t)
}

//verif:contract for=(*internal/field.Element).Mul121666 group=fe
func ct_Mul121666(fe, t *Element) *Element {
	verif.Requires(mulInputOK(&t.inner), "input limbs below 2^27.75 / 2^26.75")
	v := val2625(&t.inner)
	if verif.Real() {
		fe.Mul121666(t)
	}
	verif.Havoc(fe)
	verif.Ensures(reducedOK(&fe.inner), "reduced output")
	verif.Ensures(verif.ModEq(val2625(&fe.inner), v.Mul(verif.IntK(121666)), fP()), "value = 121666*t mod p")
	return fe
}

//verif:ob prop=C04,C07,C06 name=Mul121666 mode=int tags=force32bit prove=ct_Mul121666 use=ct_reduce
func vh_Mul121666() {
	t := anyElement("t")
	var out Element
	ct_Mul121666(&out, t)
}

//verif:ob prop=C04,C10,C07,C06 name=SetBytes mode=int tags=force32bit
func vh_SetBytes() {
	var in [32]byte
	verif.AnyBytes("in", in[:])
	var fe Element
	_, err := fe.SetBytes(in[:])
	verif.Assert(err == nil, "no error on 32 bytes")
	verif.Assert(reducedOK(&fe.inner), "reduced output")
	verif.Assert(verif.ModEq(val2625(&fe.inner), verif.IntLE(in[:]).Mod(verif.Pow2(255)), fP()), "value = (le(in) mod 2^255) mod p")
}

//verif:ob prop=C04,C14,C06 name=SetBytesWide mode=int tags=force32bit
func vh_SetBytesWide() {
	var in [64]byte
	verif.AnyBytes("in", in[:])
	var fe Element
	_, err := fe.SetBytesWide(in[:])
	verif.Assert(err == nil, "no error on 64 bytes")
	verif.Assert(reducedOK(&fe.inner), "reduced output")
	verif.Assert(verif.ModEq(val2625(&fe.inner), verif.IntLE(in[:]), fP()), "value = le512(in) mod p")
}

//verif:contract for=(*internal/field.Element).ToBytes group=fe
func ct_ToBytes(fe *Element, out []byte) error {
	verif.Requires(len(out) == 32, "len(out) == 32")
	v := val2625(&fe.inner)
	if verif.Real() {
		_ = fe.ToBytes(out)
	}
	verif.Havoc(out)
	verif.Ensures(verif.IntLE(out).Eq(v.Mod(fP())), "le(out) = value mod p (canonical)")
	return nil
}

// EVERY 10x32-bit limb vector.
//
//verif:ob prop=C04,C10,C07,C06 name=ToBytes mode=int tags=force32bit prove=ct_ToBytes use=ct_reduce
func vh_ToBytes() {
	fe := anyElement("fe")
	var out [32]byte
	_ = ct_ToBytes(fe, out[:])
}

//verif:ob prop=C04,C08,C06 name=ConditionalSelect mode=bv tags=force32bit
func vh_CondSelect() {
	a, b := anyElement("a"), anyElement("b")
	choice := verif.AnyInt("choice")
	verif.Assume(choice == 0 || choice == 1)
	var out Element
	out.ConditionalSelect(a, b, choice)
	for i := 0; i < 10; i++ {
		want := a.inner[i]
		if choice == 1 {
			want = b.inner[i]
		}
		verif.Assert(out.inner[i] == want, "select: choice=1 picks b, choice=0 picks a")
	}
}

//verif:ob prop=C04,C08,C06 name=ConditionalAssign mode=bv tags=force32bit
func vh_CondAssign() {
	a, b := anyElement("a"), anyElement("b")
	a0 := *a
	choice := verif.AnyInt("choice")
	verif.Assume(choice == 0 || choice == 1)
	a.ConditionalAssign(b, choice)
	for i := 0; i < 10; i++ {
		want := a0.inner[i]
		if choice == 1 {
			want = b.inner[i]
		}
		verif.Assert(a.inner[i] == want, "assign iff choice=1")
	}
}

//verif:ob prop=C04,C08,C07,C06 name=ConditionalSwap mode=bv tags=force32bit
func vh_CondSwap() {
	a, b := anyElement("a"), anyElement("b")
	a0, b0 := *a, *b
	choice := verif.AnyInt("choice")
	verif.Assume(choice == 0 || choice == 1)
	a.ConditionalSwap(b, choice)
	for i := 0; i < 10; i++ {
		wa, wb := a0.inner[i], b0.inner[i]
		if choice == 1 {
			wa, wb = wb, wa
		}
		verif.Assert(a.inner[i] == wa && b.inner[i] == wb, "swap iff choice=1")
	}
}

// ---- back-end specific helpers for the abstract layer (fa.go) ----

func VerifVal(e *Element) verif.Int { return val2625(&e.inner) }
func mulInOK(e *Element) bool       { return mulInputOK(&e.inner) }
func redOutOK(e *Element) bool      { return reducedOK(&e.inner) }
func addInOK(e *Element) bool {
	ok := true
	for i := 0; i < 10; i++ {
		ok = ok && e.inner[i] < 1<<31
	}
	return ok
}
func subBOK(e *Element) bool {
	ok := true
	for i := 0; i < 10; i += 2 {
		ok = ok && e.inner[i] < 0x3ffffed<<4 && e.inner[i+1] < 0x1ffffff<<4
	}
	return ok
}
func sq2OutOK(e *Element) bool { return reducedOK(&e.inner) }
func VerifAnyElement(name string) Element {
	return *anyElement(name)
}

// condSel writes the selected limbs as if-then-else terms (what the mask arithmetic computes; the bit-precise
// obligations ConditionalSelect/Assign/Swap show that equality for choice in {0,1}).
func condSel(fe, a, b *Element, pickB bool) {
	var r Element
	for i := 0; i < 10; i++ {
		if pickB {
			r.inner[i] = b.inner[i]
		} else {
			r.inner[i] = a.inner[i]
		}
	}
	*fe = r
}

// VerifSumOK: limbs below n times the reduced-output bound (a sum of n reduced elements).
func VerifSumOK(e *Element, n uint32) bool {
	ok := true
	for i := 0; i < 10; i += 2 {
		ok = ok && e.inner[i] < n<<26 && e.inner[i+1] < n*(1<<25+1<<18)
	}
	return ok
}

// ---- Pow2k for EVERY k >= 1 on the 32-bit back end: one iteration of the real loop from an arbitrary state ----
// Header invariant: fe reduced, k >= 1. The body squares the value (reduced again) and decrements k by one; the loop
// is left exactly when k = 1, with fe unchanged. With the first squaring (obligation Pow2k, k = 1) fe = t^(2^k).

func inv_pow2k32(fe *Element, k uint) bool { return reducedOK(&fe.inner) && k >= 1 }
func pre_pow2k32_val(fe *Element) verif.Int { return val2625(&fe.inner) }
func pre_pow2k32_k(k uint) verif.Int       { return verif.IntOf(uint64(k)) }
func rel_pow2k32(fe *Element, k uint, pre0__ verif.Int, pre1__ verif.Int) bool {
	return reducedOK(&fe.inner) && verif.ModEq(val2625(&fe.inner), pre0__.Mul(pre0__), fP()) && verif.IntOf(uint64(k)).Add(verif.IntK(1)).Eq(pre1__)
}
func post_pow2k32(fe *Element, pre0__ verif.Int, pre1__ verif.Int) bool {
	return reducedOK(&fe.inner) && val2625(&fe.inner).Eq(pre0__) && pre1__.Eq(verif.IntK(1))
}

//verif:ob prop=C04,C06,C07 name=Pow2k_every_k mode=int tags=force32bit use=ct_reduce cut=(*internal/field.Element).Pow2k:0 inv=inv_pow2k32 relpre=pre_pow2k32_val+pre_pow2k32_k rel=rel_pow2k32 post=post_pow2k32 postret=1 bound=every_k>=1_by_one_inductive_step_of_the_real_loop
func vh_Pow2k_every_k() {
	t := anyElement("t")
	verif.Assume(mulInputOK(&t.inner))
	k := uint(verif.AnyU64("k"))
	verif.Assume(k >= 1 && k <= 1000) // (entry only; the inductive step is for every loop counter. Keeps native replays finite.)
	var out Element
	out.Pow2k(t, k)
}

//go:build verif

package field

import "github.com/oasisprotocol/curve25519-voi/internal/verif"

// Abstract field layer (group "fa"), used by everything above the kernels.
//
// Every Element value may carry a ghost integer "fv", ANY integer congruent to the element's value mod p.
// Without the attribute the representative is the limb value itself. Kernel contracts of group "fe"
// (proved against the real code per back end) justify each rule below: if val(x) ≡ fv(x) for the inputs and
// the concrete contract gives val(out) ≡ val(a) op val(b), then fv(out) := fv(a) op fv(b) is again congruent
// to val(out). Limb bounds stay concrete facts about the (havoced) limbs, so representation headroom is still
// checked at every call site of every back end.

func VerifFv(e *Element) verif.Int {
	if verif.GhostHas(e, "fv") {
		return verif.GhostGet(e, "fv")
	}
	return VerifVal(e)
}

func VerifSetFv(e *Element, v verif.Int) { verif.GhostSet(e, "fv", v) }
func VerifP() verif.Int                  { return fP() }
func VerifRedOK(e *Element) bool         { return redOutOK(e) }
func VerifMulInOK(e *Element) bool       { return mulInOK(e) }

//verif:contract for=(*internal/field.Element).Mul group=fa
func fa_Mul(fe, a, b *Element) *Element {
	verif.Requires(mulInOK(a) && mulInOK(b), "Mul: operand limbs within the product headroom")
	v := VerifFv(a).Mul(VerifFv(b))
	verif.Havoc(fe)
	verif.Ensures(redOutOK(fe), "")
	VerifSetFv(fe, v)
	return fe
}

//verif:contract for=(*internal/field.Element).Square group=fa
func fa_Square(fe, t *Element) *Element {
	verif.Requires(mulInOK(t), "Square: operand limbs within the product headroom")
	v := VerifFv(t)
	verif.Havoc(fe)
	verif.Ensures(redOutOK(fe), "")
	VerifSetFv(fe, v.Mul(v))
	return fe
}

//verif:contract for=(*internal/field.Element).Square2 group=fa
func fa_Square2(fe, t *Element) *Element {
	verif.Requires(mulInOK(t), "Square2: operand limbs within the product headroom")
	v := VerifFv(t)
	verif.Havoc(fe)
	verif.Ensures(sq2OutOK(fe), "")
	VerifSetFv(fe, v.Mul(v).Mul(verif.IntK(2)))
	return fe
}

//verif:contract for=(*internal/field.Element).Mul121666 group=fa
func fa_Mul121666(fe, t *Element) *Element {
	verif.Requires(mulInOK(t), "Mul121666: operand limbs within the product headroom")
	v := VerifFv(t)
	verif.Havoc(fe)
	verif.Ensures(redOutOK(fe), "")
	VerifSetFv(fe, v.Mul(verif.IntK(121666)))
	return fe
}

//verif:contract for=(*internal/field.Element).Add group=fa
func fa_Add(fe, a, b *Element) *Element {
	verif.Requires(addInOK(a) && addInOK(b), "Add: limb sums do not wrap")
	v := VerifFv(a).Add(VerifFv(b))
	fe.Add(a, b) // the real limb-wise addition: bounds stay exact
	VerifSetFv(fe, v)
	return fe
}

//verif:contract for=(*internal/field.Element).Sub group=fa
func fa_Sub(fe, a, b *Element) *Element {
	verif.Requires(addInOK(a), "Sub: a + 16p does not wrap")
	verif.Requires(subBOK(b), "Sub: b below the 16p limbs (no underflow)")
	v := VerifFv(a).Sub(VerifFv(b))
	verif.Havoc(fe)
	verif.Ensures(redOutOK(fe), "")
	VerifSetFv(fe, v)
	return fe
}

//verif:contract for=(*internal/field.Element).Neg group=fa
func fa_Neg(fe, t *Element) *Element {
	verif.Requires(subBOK(t), "Neg: t below the 16p limbs (no underflow)")
	v := VerifFv(t).Neg()
	verif.Havoc(fe)
	verif.Ensures(redOutOK(fe), "")
	VerifSetFv(fe, v)
	return fe
}

func isOne(choice int) bool { return choice == 1 }

//verif:contract for=(*internal/field.Element).ConditionalSelect group=fa
func fa_ConditionalSelect(fe, a, b *Element, choice int) {
	verif.Requires(choice == 0 || choice == 1, "choice is a bit")
	v := verif.IteInt(isOne(choice), VerifFv(b), VerifFv(a))
	condSel(fe, a, b, isOne(choice))
	VerifSetFv(fe, v)
}

//verif:contract for=(*internal/field.Element).ConditionalAssign group=fa
func fa_ConditionalAssign(fe, other *Element, choice int) {
	verif.Requires(choice == 0 || choice == 1, "choice is a bit")
	v := verif.IteInt(isOne(choice), VerifFv(other), VerifFv(fe))
	condSel(fe, fe, other, isOne(choice))
	VerifSetFv(fe, v)
}

//verif:contract for=(*internal/field.Element).ConditionalSwap group=fa
func fa_ConditionalSwap(fe, other *Element, choice int) {
	verif.Requires(choice == 0 || choice == 1, "choice is a bit")
	va, vb := VerifFv(fe), VerifFv(other)
	oa, ob := *fe, *other
	condSel(fe, &oa, &ob, isOne(choice))
	condSel(other, &ob, &oa, isOne(choice))
	VerifSetFv(fe, verif.IteInt(isOne(choice), vb, va))
	VerifSetFv(other, verif.IteInt(isOne(choice), va, vb))
}

//verif:contract for=(*internal/field.Element).ConditionalNegate group=fa
func fa_ConditionalNegate(fe *Element, choice int) {
	verif.Requires(choice == 0 || choice == 1, "choice is a bit")
	verif.Requires(subBOK(fe), "ConditionalNegate: below the 16p limbs")
	v := VerifFv(fe)
	old := *fe
	verif.Havoc(fe)
	// either the reduced negation or the untouched operand
	var neg Element
	verif.Havoc(&neg)
	verif.Ensures(redOutOK(&neg), "")
	condSel(fe, &old, &neg, isOne(choice))
	VerifSetFv(fe, verif.IteInt(isOne(choice), v.Neg(), v))
}

//verif:contract for=(*internal/field.Element).ToBytes group=fa
func fa_ToBytes(fe *Element, out []byte) error {
	verif.Requires(len(out) == 32, "ToBytes: len(out) == 32")
	v := VerifFv(fe)
	verif.Havoc(out)
	verif.Ensures(verif.IntLE(out).Eq(v.Mod(fP())), "")
	return nil
}

//verif:contract for=(*internal/field.Element).SetBytes group=fa
func fa_SetBytes(fe *Element, in []byte) (*Element, error) {
	verif.Requires(len(in) == 32, "SetBytes: len(in) == 32 at this call site")
	v := VerifFromBytes(in)
	verif.Havoc(fe)
	verif.Ensures(redOutOK(fe), "")
	VerifSetFv(fe, v)
	return fe, nil
}

//verif:contract for=(*internal/field.Element).Equal group=fa
func fa_Equal(fe, other *Element) int {
	r := 0
	if verif.ModEq(VerifFv(fe), VerifFv(other), fP()) {
		r = 1
	}
	return r
}

//verif:contract for=(*internal/field.Element).IsZero group=fa
func fa_IsZero(fe *Element) int {
	r := 0
	if verif.ModEq(VerifFv(fe), verif.IntK(0), fP()) {
		r = 1
	}
	return r
}

//verif:contract for=(*internal/field.Element).IsNegative group=fa
func fa_IsNegative(fe *Element) int {
	r := 0
	if VerifFv(fe).Mod(fP()).Mod(verif.IntK(2)).Eq(verif.IntK(1)) {
		r = 1
	}
	return r
}

// Invert: the inverse is a function of the value (uninterpreted), characterised by x*inv ≡ 1, and 0 ↦ 0.
//
//verif:contract for=(*internal/field.Element).Invert group=fa
func fa_Invert(fe, t *Element) *Element {
	verif.Requires(mulInOK(t), "Invert: operand limbs within the product headroom")
	v := VerifFv(t).Mod(fP())
	inv := verif.UFInt("finv", v)
	verif.Havoc(fe)
	verif.Ensures(redOutOK(fe), "")
	verif.Ensures(verif.IntK(0).Le(inv) && inv.Lt(fP()), "")
	if v.Eq(verif.IntK(0)) {
		verif.Ensures(inv.Eq(verif.IntK(0)), "")
	} else {
		verif.Ensures(verif.ModEq(v.Mul(inv), verif.IntK(1), fP()), "")
	}
	VerifSetFv(fe, inv)
	return fe
}

// SqrtRatioI: (r, wasSquare) as documented; r and the flag are functions of (u, v) (uninterpreted),
// characterised by the documented cases. That one of the cases always applies is Euler's criterion (trusted).
//
//verif:contract for=(*internal/field.Element).SqrtRatioI group=fa
func fa_SqrtRatioI(fe, u, v *Element) (*Element, int) {
	verif.Requires(mulInOK(u) && mulInOK(v) && subBOK(u), "SqrtRatioI: operand limbs within headroom")
	p := fP()
	uv, vv := VerifFv(u).Mod(p), VerifFv(v).Mod(p)
	r := verif.UFInt("sqrt_ratio_r", uv, vv)
	sq := verif.UFIntBool("sqrt_ratio_ok", uv, vv)
	sqrtM1 := verif.IntLit("19681161376707505956807079304988542015446066515923890162744021073123829784752")
	verif.Havoc(fe)
	verif.Ensures(redOutOK(fe), "")
	verif.Ensures(verif.IntK(0).Le(r) && r.Lt(p) && r.Mod(verif.IntK(2)).Eq(verif.IntK(0)), "")
	uz, vz := uv.Eq(verif.IntK(0)), vv.Eq(verif.IntK(0))
	switch {
	case uz:
		verif.Ensures(sq && r.Eq(verif.IntK(0)), "")
	case vz:
		verif.Ensures(!sq && r.Eq(verif.IntK(0)), "")
	case sq:
		verif.Ensures(verif.ModEq(vv.Mul(r).Mul(r), uv, p), "")
	default:
		verif.Ensures(verif.ModEq(vv.Mul(r).Mul(r), uv.Mul(sqrtM1), p), "")
	}
	VerifSetFv(fe, r)
	flag := 0
	if sq {
		flag = 1
	}
	return fe, flag
}

//verif:contract for=(*internal/field.Element).InvSqrt group=fa
func fa_InvSqrt(fe *Element) (*Element, int) {
	one := One
	return fa_SqrtRatioI(fe, &one, fe)
}

// VerifSame: identical limbs (representation equality, not just value equality).
func VerifSame(a, b *Element) bool { return a.inner == b.inner }

// VerifFromBytes names the decoded value le(in) mod 2^255 by ONE atom (so that polynomials above it stay small);
// the defining relation is supplied as a pair of inequalities (it is a definition, not a rewrite rule).
func VerifFromBytes(in []byte) verif.Int {
	w := verif.IntLE(in).Mod(verif.Pow2(255))
	v := verif.UFInt("fe_le255", verif.IntLE(in))
	verif.Assume(v.Le(w) && w.Le(v))
	return v
}

// BatchInvert (Montgomery's trick) over the abstract field layer: every non-zero input is replaced by its
// inverse, every zero input keeps the value zero; n = 1..3 with every zero/non-zero pattern (case split).
//
//verif:ob prop=C04,C06 name=BatchInvert mode=int tags=purego,force32bit use=fa split=n:1..3;zp:0..7
func vh_BatchInvert() {
	n, zp := verif.Case("n"), verif.Case("zp")
	if zp >= 1<<uint(n) {
		return
	}
	P := fP()
	els := make([]Element, n)
	ptrs := make([]*Element, n)
	g := make([]verif.Int, n)
	for i := 0; i < n; i++ {
		els[i] = VerifAnyElement("e" + string(rune('0'+i)))
		verif.Assume(redOutOK(&els[i]))
		g[i] = verif.AnyIntG("g" + string(rune('0'+i)))
		VerifSetFv(&els[i], g[i])
		isZero := g[i].Mod(P).Eq(verif.IntK(0))
		verif.Assume(isZero == (zp>>uint(i)&1 == 1))
		ptrs[i] = &els[i]
	}
	// p is prime (trusted): a product of non-zero field values is non-zero. Stated for the running products
	// of the non-zero inputs, which is where the routine inverts.
	acc := verif.IntK(1)
	for i := 0; i < n; i++ {
		if zp>>uint(i)&1 == 0 {
			acc = acc.Mul(g[i])
			verif.Assume(!acc.Mod(P).Eq(verif.IntK(0)))
		}
	}
	BatchInvert(ptrs)
	for i := 0; i < n; i++ {
		out := VerifFv(&els[i])
		if zp>>uint(i)&1 == 1 {
			verif.Assert(verif.ModEq(out, verif.IntK(0), P), "a zero input keeps the value zero")
		} else {
			verif.Assert(verif.ModEq(out.Mul(g[i]), verif.IntK(1), P), "a non-zero input is replaced by its inverse: out * in = 1 (mod p)")
		}
		verif.Assert(redOutOK(&els[i]), "outputs are reduced representations")
	}
}
